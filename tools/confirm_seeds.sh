#!/bin/bash
# tools/confirm_seeds.sh [seed-dir ...]
# Confirms seeded changes in a scratch worktree of /repo (never in /repo itself):
#   1. the patch applies and the workspace builds,
#   2. the pinned test suite still passes (2995 tests; the 99 scripted tests that fail in the baseline are ignored),
#   3. where the seed ships a demo.sh driven by the yash3 binary: it reports a violation (exit 1) with
#      the patch and none (exit 0) without.
# Results: /verif/seeded/<seed>/confirm.txt ; the worktree and its target directory are removed at the end.
set -u
export CARGO_NET_OFFLINE=true LANG=C
WT=/tmp/wt-confirm
TG=/tmp/wt-confirm-target
git -C /repo worktree remove --force "$WT" 2>/dev/null
rm -rf "$WT" "$TG"
git -C /repo worktree add --detach "$WT" HEAD >/dev/null 2>&1 || { echo "cannot create worktree"; exit 2; }
export CARGO_TARGET_DIR="$TG"
cd "$WT" || exit 2
cargo build -p yash-cli --offline -q 2>/dev/null || { echo "clean build failed"; exit 2; }
cp "$TG/debug/yash3" /tmp/wt-confirm-yash3-clean
SEEDS=("$@")
[ ${#SEEDS[@]} -eq 0 ] && SEEDS=(/verif/seeded/*/)
for S in "${SEEDS[@]}"; do
  S="${S%/}"; N=$(basename "$S")
  R="$S/confirm.txt"; : > "$R"
  git checkout -q -- . ; git clean -qfd
  if ! git apply "$S/patch.diff" 2>>"$R"; then echo "patch: does not apply" >> "$R"; continue; fi
  echo "patch: applies to $(git -C /repo rev-parse --short HEAD)" >> "$R"
  if cargo build -p yash-cli --offline -q 2>/tmp/wt-confirm-build.log; then echo "build: ok" >> "$R"; else echo "build: FAILED" >> "$R"; tail -5 /tmp/wt-confirm-build.log >> "$R"; continue; fi
  T=$(cargo nextest run --workspace --no-fail-fast --test-threads 16 --offline 2>&1 | grep -E "Summary|^\s+FAIL" | grep -v "scripted_test")
  echo "tests: $(echo "$T" | grep Summary | sed 's/^ *//')" >> "$R"
  F=$(echo "$T" | grep -c FAIL)
  echo "tests: failures outside the baseline's always-failing scripted tests: $F" >> "$R"
  if [ -f "$S/demo.sh" ]; then
    if grep -q 'yash3 /tmp/seed-.*demo.sh\|yash3 .*demo\.sh\|yash3> demo\.sh' "$S/demo.sh"; then
      MODE=interp
    else
      MODE=arg
    fi
    run_demo() { # $1 = yash3 binary
      D=$(mktemp -d /tmp/wt-confirm-demo.XXXXXX)
      ( cd "$D" && if [ $MODE = interp ]; then timeout 120 "$1" "$S/demo.sh" >/dev/null 2>&1; else timeout 120 sh "$S/demo.sh" "$1" >/dev/null 2>&1; fi; echo $? ) | tail -1
      rm -rf "$D"
    }
    A=$(run_demo "$TG/debug/yash3"); B=$(run_demo /tmp/wt-confirm-yash3-clean)
    echo "demo.sh ($MODE): exit status with the patch $A, without $B" >> "$R"
    if [ "$A" = "$B" ] && [ $MODE = interp ]; then
      # a demo that shows its verdict in its output rather than in its exit status
      OA=$(cd /tmp && timeout 120 "$TG/debug/yash3" "$S/demo.sh" 2>&1 | md5sum); OB=$(cd /tmp && timeout 120 /tmp/wt-confirm-yash3-clean "$S/demo.sh" 2>&1 | md5sum)
      if [ "$OA" != "$OB" ]; then echo "demo.sh: output with the patch differs from the output without" >> "$R"; else echo "demo.sh: same output with and without the patch" >> "$R"; fi
    fi
  else
    echo "demo: Rust test to be pasted into the tree (not re-run here)" >> "$R"
  fi
  echo "$N: $(tr '\n' ';' < "$R")"
done
cd /
git -C /repo worktree remove --force "$WT" 2>/dev/null
rm -rf "$WT" "$TG" /tmp/wt-confirm-yash3-clean /tmp/wt-confirm-build.log
git -C /repo worktree prune
