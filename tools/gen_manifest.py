#!/usr/bin/env python3
"""Regenerates /verif/MANIFEST.json from the table below (single source of truth)."""
import json, os, subprocess
V = os.path.dirname(os.path.dirname(os.path.abspath(__file__)))

# id -> dict(level, engine, technique, text, note, design)
CLAIMED = {
 "C19": dict(level="exploration", engine="vsh-real + vsh-virtual",
   technique="differential monitor: the same generated script run by the same harness shell on RealSystem (subprocess in a scratch directory) and on VirtualSystem (same absolute working directory and initial tree); oracle = equality of stdout, exit status / terminating signal, stderr emptiness and final file tree; thorough tier repeats a slice of the real-system runs under valgrind memcheck",
   text="6000 (quick) / 150000 (thorough) deterministic scripts of 3-14 statements over redirections (> >> >| <> <), exec-opened descriptors (write/append/read/read-write/dup/close) with writes, reads and offset probes, descriptors kept open across truncation or replacement of their file, cd/pwd/$PWD/$OLDPWD, globs, pipelines around the pipe buffer sizes, pipefail, command substitutions, subshells, async lists with wait, traps and self-signals (caught, ignored, re-trapped, terminating), umask with file creation modes, noclobber, error cases (directory for file, file for directory, missing file, closed descriptor), here-documents, RLIMIT_NOFILE = k with redirections to k-1, k, k+1, exit / EXIT trap endings; 48 real runs under valgrind (thorough). Also: working directories longer than 1024 bytes with cd -P / pwd -P, pipes and substitutions with 0-2 free descriptors and an EXIT trap that needs one, signals sent to the shell from a command substitution; a real run that used <1 s CPU in 30 s is classified as blocked and compared with the virtual run.",
   note="Trusted: nothing but equality (each run is the other's oracle). Not generated: symbolic links, permission checks (uid 0), pids/times, writes to a reader-less pipe, signals from a child to its parent, multi-signal `trap` listings (ordering follows signal numbers, which differ by design). Known finding: O_CREAT creates missing parent directories in the simulator.",
   design="5/C19"),
 "C20": dict(level="exploration", engine="lib-inproc + vsh-virtual",
   technique="(A) reference-parser monitor on common::syntax::parse_arguments, exhaustive over small option specifications and argument vectors; (B) metamorphic monitor: a catalogue of built-in invocations written from the documentation is rewritten into all equivalent spellings, each run in a fresh shell and compared on stdout, exit status, stderr emptiness and the state snapshot; malformed spellings must be rejected without effect; (C) equivalence tables for the bespoke parsers (set, kill, the shell's command line)",
   text="A: every subset of <=3 options from a pool of 7 x both modes x every argument vector up to length 4 (quick) / 5 over 26 tokens. B: 18 built-ins (cd pwd command export readonly typeset read trap umask unalias unset ulimit jobs return alias type wait getopts), 80 catalogue invocations x all spellings (short separate/grouped, option-argument attached/separate, long full / every unambiguous prefix with = or separate argument, with and without --; capped at 48 / 600 per invocation by sampling) + per built-in: unknown short/long option, unknown short in a group, ambiguous prefix, missing option-argument, argument to a flag. C: 15 groups of set/kill command lines, 5 groups of shell command lines, 16 malformed ones.",
   note="Trusted: models/optparse.rs (XBD 12.2 + documented extensions); the catalogue (docs/src/builtins/*.md, environment/options.md) as the statement of which spellings are equivalent. Special built-ins are run through `command` for the malformed cases so that the shell survives.",
   design="5/C20"),
 "C17": dict(level="exploration", engine="lib-inproc",
   technique="reference-model monitor: token-list rewriting model of XCU 2.3.1 produces the hand-substituted text; the real parser with the alias table (look-up-counting Glossary, online look-up bound, CPU-time watchdog) must give the trees the same parser gives, without aliases, for that text",
   text="All alias tables a,b,c -> 16^3 (quick) / 32^3 (thorough) value combinations {other name, name+blank, tab-ending, inner alias word with trailing blank, self, two words, empty, blank only, reserved words, operators, redirection, assignment, quoted forms, embedded newline}, a global alias in every third table, x 36 templates with alias names in every slot + 40/120 random fillings (command, argument, after assignment/redirection, after ! ( { if then else elif while until do, for words, case subject/pattern/body, after line continuation and newline) + 20/60 token-soup lines. Also templates with `command`, a case pattern after an alias value ending in `( `, and a global alias inside a blank-ending value.",
   note="Trusted: models/alias.rs (written from the standard's text; global aliases per the yash documentation). Lines keep tokens blank-separated; alias names are never reserved words. When both sides end in a syntax error, the trees before it and the error kind are compared.",
   design="5/C17"),
 "C07": dict(level="exploration", engine="vsh-virtual",
   technique="identity monitor: yash_quote output embedded in scripts run by the complete shell (probe receives the field); state-snapshot monitor: every listing evaluated by a fresh shell and the Env/kernel snapshot facet it covers compared with the original",
   text="A: every string of length <= 3 (quick) / 4 over 31 characters (all shell-special characters, quotes, newline, tab, NBSP, U+3000, a, /) and 2*10^4 / 6*10^5 random strings to length 40, as command argument, assignment value and declaration-utility operand, with files that unprotected patterns would match and HOME set. B: 3000 / 120000 random states (scalars, arrays, attributes, odd variable/alias/function names, grammar-generated function bodies, read-only functions, 11 options, traps with arbitrary action text, umask) x 11 listings (alias, export -p, readonly -p, typeset -p, typeset -fp, set, set +o, trap, trap -p, umask, umask -S).",
   note="Trusted: single-quote embedding in the defining scripts; vsh::snapshot facets. `alias` output is split with the shell's lexer and each word handed to `alias --`; umask output handed to `umask`. Known finding: `function` keyword printed for quoted function names (see known_findings.json).",
   design="5/C07"),
 "C06": dict(level="exploration", engine="lib-inproc",
   technique="totality monitor (panic hook, line-counting Input for read-ahead, CPU-time watchdog, deep nesting on an 8 MiB stack) and parse-print-parse round-trip oracle on the real Lexer/Parser and Display implementations",
   text="39 deep-nesting texts (13 constructs x depth 50/100/200); the 100 scripted-test files and each script embedded in them; 6*10^4 (quick) / 2*10^6 (thorough) texts: programs from a text-level grammar covering every construct (assignments incl. arrays, redirections in every position incl. before reserved-word command names, all compound commands, function definitions, all case terminators, all word units and parameter modifiers, here-documents, comments, continuations), single/double mutations of them and byte/Unicode soup. Each command line parsed without here-documents is printed, re-parsed and compared with locations erased; printing is checked idempotent.",
   note="Trusted: the Debug rendering with Location scrubbed as the tree-equality oracle. About 15% of unmutated generated programs end in a syntax error (counted in the evidence). Consumers (typeset -fp) are exercised by C07.",
   design="5/C06"),
 "C05": dict(level="exploration", engine="vsh-virtual + vsh-real",
   technique="reference-model monitor: component-wise glob over a model tree (using the POSIX pattern model) vs the argument vector `probe PATTERN` receives; same trees on the real file system for a sample",
   text="All pattern words of up to 3 (quick) / 4 characters over {a b . * ? [ ] - /} unquoted and {* ? [ a . backslash} quoted, on 12 / 40 random trees (names a b ab .a .b - [ * a] ba c.d in the root and in sub/ .hid/ d2/ e/ e-/ e.f/ and their dd/ subdirectories, a file symlink, a mode-000 directory), every 6th tree with set -f; random 1-4 component patterns (absolute, ., .., trailing slash) on 400 / 6000 trees of which a quarter (with symlinks to directories) run on the real file system with the same harness shell.",
   note="Trusted: models/glob.rs + models/fnm.rs. Skipped as unspecified: slash inside brackets, doubled slashes, dot components next to an unsearchable directory. The virtual file system does not follow symlinks in the middle of a path, so directory symlinks are exercised on the real system only; permission cases on the virtual system only (uid 0).",
   design="5/C05"),
 "C09": dict(level="fault_enumeration", engine="vsh-virtual + vsh-real",
   technique="fd-table reference model vs kernel-level observation of the shell's descriptor table (open-file-description identity, access mode, inode, close-on-exec) before/during/after each command, re-run under every soft RLIMIT_NOFILE from 5 to 20 so that every descriptor allocation fails at every position",
   text="12 command kinds x all single redirections (6 target descriptors x 8 operators x existing/missing/directory/non-directory parent/open/closed/close/here-document operands) x noclobber, half (quick) / all lists of length 2, 3*10^4 / 6*10^5 random lists of length 3; fault enumeration: every single redirection x kind x every descriptor limit 5..20 plus 3*10^4 / 8*10^5 random lists under random limits. Verdicts: table during == model, table after == before (exec: == modelled table), nothing at >= 10 left open, internal descriptors >= 10 with close-on-exec, file contents/creation as modelled, command not run after a failing redirection. Also descriptors the shell opens for itself: 11 commands (dot scripts to three levels, substitutions, here-documents, 2-4 stage pipelines) x every RLIMIT_NOFILE 5..24 and x the 1st-4th process creation failing, start-up on a script file with descriptors 3-9 occupied, and on the real system here-documents whose content cannot be written (RLIMIT_FSIZE 0).",
   note="Trusted: the fd-table model in checks/c09.rs; identities come from the virtual kernel (Rc pointer identity of open file descriptions). Under a lowered limit only the after-invariants are decided. Whether a here-document descriptor is open for output is treated as unspecified. Real-kernel redirections are sampled by C19.",
   design="5/C09"),
 "C18": dict(level="exploration", engine="vsh-virtual",
   technique="line-based sequential reference model vs the probe trace of the complete shell, with standard input as a regular file (fd-0 offset probes), as a pipe written by a scheduler-controlled feeder in every split into <=3 chunks and random chunkings, as -c, through `.` and as a script operand",
   text="250 (quick) / 4000 generated scripts of 5-12 items (reads consuming following lines incl. in loops and multi-line groups, alias/option/portable-mode changes affecting later lines, multi-line compounds, here-documents, continuations, trailing `;`, data lines that would be visible or fatal if executed, a syntax error planted at a later line); ~8*10^4 (quick) runs; the trace, here-document bytes, fd-0 offsets and exit status must match the model in every feeding mode and chunking. Also here-document commands with a `read` on the same line; every probe records whether fd 0 is in non-blocking mode.",
   note="Trusted: the item-level model in checks/c18.rs (expected events known by construction); the feeder is a separate virtual process writing one chunk per scheduling turn.",
   design="5/C18"),
 "C11": dict(level="exploration", engine="lib-inproc + vsh-virtual",
   technique="(A) lock-step merge-model monitor over TrapSet histories on the real Concurrent<VirtualSystem> (kernel dispositions read back); (B) offline event-log checker over scripts with SIGUSR1 deliveries injected from outside at every scheduler step and preemption point",
   text="A: all TrapSet histories to depth 4 (quick) / 6 over set_action (3 actions x override) on 4 signals + KILL/STOP + EXIT, peek, enable/disable of each internal disposition group, enter_subshell with each option pair, x 4 sets of signals ignored on entry; kernel disposition of 10 signals, listed trap action and set_action outcome compared with the merge model after every step. B: 300 (quick) / 5000 generated scripts; one delivery at every scheduler step of the FIFO run, random pairs, and random multi-delivery runs under random preempting schedules (~10^5 deliveries quick); the checker enforces one trap run per delivery window, none without delivery, correct $? at action start, no re-entry, $? and control flow of the script unchanged, trap within one command boundary. C: every `trap ACTION COND...` with 1-3 conditions in a shell started with each subset of {INT USR1 TERM} ignored, observed by sending the signal. D: the mask/disposition helpers of job/tcsetpgrp.rs with the wrapped operation failing. E: start-up modes x kernel dispositions; signals reset or ignored inside each subshell kind must not stay blocked.",
   note="Trusted: the merge model (default<ignore<catch, POSIX 2.12 subshell rules); standard signals coalesce while pending; deliveries target the main shell process only; `wait` interrupted by a trap is covered only through the >128 tolerance (see DESIGN).",
   design="5/C11"),
 "C08": dict(level="exploration", engine="vsh-virtual",
   technique="state-snapshot monitor: deep snapshots of the shell (variables+attributes, positional parameters, functions, aliases, options, traps, cwd, umask, fd table with open-file-description identity, kernel dispositions and mask) before/after in the parent and at subshell entry, under FIFO and random preempting schedules",
   text="Every one of 40 mutators inside every one of 11 subshell kinds (incl. a substitution forked while a caught signal is pending and a subshell forked inside a trap action) under 2 initial states x FIFO + 2/9 random schedules, then 4*10^4 (quick) / 10^6 random mutator sequences; parent-before == parent-after on all 11 facets, child-entry == parent with command traps reset (and INT/QUIT ignored for asynchronous lists). Also: every subshell kind with the 2nd-5th process creation failing (parent facets incl. signal mask and descriptors unchanged), and the invariant that a shell without job control holds no descriptor on /dev/tty.",
   note="Trusted: vsh::snapshot covers the listed facets through public accessors of Env and the virtual kernel. Allowed differences: $?, job list/$!, contents of files written through shared open files, descriptors 0-2 (re-plumbed by design) and shell-internal descriptors >= 10 at child entry.",
   design="5/C08"),
 "C14": dict(level="exploration", engine="vsh-virtual",
   technique="conservation monitor (in = out by length and hash; $(...) = stream minus trailing newlines) over the real shell on the virtual kernel, under FIFO, random preempting and bounded-DFS schedules",
   text="Producer `gen` (pure function of its arguments) and consumer `sink` probes around 1-4 stage pipelines (builtin relays with odd read sizes, while-read loops), three forms of command substitution incl. nested, substitution around pipelines, quoted and expanding here-documents, pipelines started with stdin/stdout closed; payload sizes 0..4096 (thorough 10000) around every buffer boundary of the virtual pipe, newline patterns and 0-3 trailing newlines; 30/80 random schedules per scenario with preemption inside every read/write loop, bounded DFS (<=3 preemptions) for payloads <= 1030 bytes. Payloads may end in 0-5 white-space bytes other than newline; substitutions also expanded with the shell's own standard input/output closed. Every run is under a CPU-time watchdog (a virtual process that never yields cannot be stopped by the step bound).",
   note="Trusted: the gen/sink/relay probes (harness built-ins using only the public System traits). Virtual pipes are 1024 bytes; real pipes are sampled in C19.",
   design="5/C14"),
 "C13": dict(level="exploration", engine="vsh-virtual",
   technique="schedule exploration of the real shell on the virtual kernel under our own executor (FIFO, depth-first enumeration of scheduling choices, preemption-bounded DFS, random preempting schedules) with a reference-interpreter oracle, logical deadlock detection and a process-table monitor",
   text="1500 (quick) / 30000 (thorough) generated race-free programs mixing 2-4 stage pipelines (incl. blocking producer/consumer pairs and writers whose reader exits early), async lists with $!/wait for one/several/all/unknown pids, nested subshells, command substitutions, pipefail; each run under FIFO, DFS over scheduling choices (cap 60/400), DFS with <=2 preemptions (cap 60/400) and 20/60 random preempting schedules (~10^5 / 10^7 runs). Checked per run: per-process traces and $? vs the model (hence schedule independence), $! identity, exit status, deadlock = no runnable task and no timer, no live or unreaped child at exit. Also: pipelines of 2-4 commands with each process creation failing in turn (terminates; no success reported for a pipeline whose last command never ran); wait with an unknown operand before real ones.",
   note="Trusted: models/ctl.rs; the virtual kernel as the arena (its fidelity is C19); preemption only at Concurrent read/write/read_all/write_all/set_disposition (verif-hooks). Traps are not mixed with wait here (C11-B).",
   design="5/C13"),
 "C02": dict(level="exploration", engine="vsh-virtual",
   technique="reference-interpreter monitor: generated programs (every leaf a probe) run by the complete shell; probe order, $? at every probe and final exit status compared with the model",
   text="Systematic: every construct nested in every construct to depth 2 (quick) / 3 around each of 12 leaves. Random: 1.5*10^5 (quick) / 3*10^6 programs of up to 40 nodes with varied surface syntax (newline vs ;, line continuation after && || |, optional parentheses in case), iteration-dependent conditions, functions, multi-command pipelines (per-stage lanes), each under FIFO and one random preempting schedule. Also: case terminators ;& ;| ;;&, commands made only of substitutions and empty words, substitution assignments; on the real system 200 / 3000 PATH-search scenarios (directories, non-executable files and scripts of the command's name in three PATH entries, functions, `command`, names with a slash).",
   note="Trusted: models/ctl.rs (validated on 10^4 pipeline-free programs against dash and bash at development time: zero disagreements after excluding break/continue/return/exit under `!`, break n beyond the loops of the current subshell/function, `((`). Probes in different pipeline stages are ordered only within their stage.",
   design="5/C02"),
 "C10": dict(level="exploration", engine="vsh-virtual",
   technique="reference-interpreter monitor extended with errexit contexts, the shell-error table and the EXIT trap; plus an abort-vs-signal-trap template table",
   text="The C02 generator with failing commands of every category planted at every position, set -e/+e switched anywhere, a syntax error planted after a random line, and an EXIT trap probe: the trace after each failure, the $? the EXIT trap sees, exactly-once EXIT trap and the exit status are compared with the model (1.5*10^5 quick / 3*10^6 thorough programs + the systematic nesting under set -e). A table of aborts coinciding with a signal trap whose action returns checks that the abort wins. Also: set -m in a quarter of the programs, dot scripts (body written to a file and run by `.`), substitution assignments with further assignments, 15% of the programs fed through standard input with a terminal on standard error.",
   note="Trusted: models/ctl.rs errexit rules (XCU 2.8.1 set -e items 1-3) and docs/src/termination.md; statuses of shell errors only required non-zero; validated against dash (0 disagreements on 1500 programs; bash deviates on special-built-in errors as documented). The real binary's own exit path is exercised by C19.",
   design="5/C10"),
 "C01": dict(level="exploration", engine="vsh-virtual",
   technique="reference-model monitor: word AST -> expected fields (POSIX 2.6 model) vs the argument vector a probe built-in receives from the complete shell; read built-in vs a read-splitting model",
   text="Words are generated from an AST and rendered to shell text, so the expected field list is known by construction. Exhaustive: all words of up to 2 (quick) / 3 units over a 46-unit alphabet x 96 states; read: all lines to length 5/7 over {a b space : backslash} x 5 IFS x 1-3 variables x -r. Random: 10^6 (quick) / 1.5*10^7 deeper words over 7 values x 6 positional lists x 7 IFS values x nounset. Every word runs in its own subshell so errors and ${x=w} side effects are contained.",
   note="Trusted: models/expand.rs (validated against dash and bash at development time; disagreements triaged in DESIGN 5/C01 - constructs on which the three shells or the standard's text disagree are not generated and are listed in the evidence assumptions). set -f throughout (pathname expansion is C05).",
   design="5/C01"),
 "C04": dict(level="exploration", engine="lib-inproc + vsh-virtual",
   technique="reference-model monitor: POSIX pattern parser + brute-force matcher vs yash_fnmatch (match, find, the four trims), then case/trim through the shell",
   text="Exhaustive token sequences to length 4 (bracket-inner forms as single tokens) x all strings to length 3 (quick) / 4 over a 10-character alphabet, exhaustive bracket bodies of up to 3/4 inner tokens (plain, complemented, with trailing *), seeded random long patterns with regex-special and non-ASCII characters, each checked for full match, literal-period match and shortest/longest prefix/suffix removal; shell level: case with multi-alternative items (ill-defined alternatives mixed in) and ${v#p} ${v##p} ${v%p} ${v%%p} with random quoting.",
   note="Trusted: models/fnm.rs. Patterns POSIX leaves unspecified ([^..], reversed ranges, unknown classes, multi-character collating symbols, quoted specials inside brackets) are skipped and counted; locale-dependent collation is out of scope (the crate documents ASCII classes).",
   design="5/C04"),
 "C03": dict(level="exploration", engine="lib-inproc + vsh-virtual",
   technique="reference-model monitor: exact i128 evaluator over generated expression trees vs yash_arith::eval (value, error, side effects), panic monitor on arbitrary text",
   text="Exhaustive operator x boundary-operand tables (unary, binary, compound assignment, ++/--), exhaustive two-operator shapes printed with minimal parentheses (precedence/associativity), short-circuit inertness table, variable-holds-constant agreement table, then seeded random trees to depth 6 with variables, totality inputs (token soup, mutations, Unicode), and a through-the-shell slice (probe $((expr)) in subshells on the virtual system).",
   note="Trusted: models/arith.rs (exact evaluation, ISO C precedence). Accepts {exact value, error} for <<,>> of negatives and INT_MIN % -1; expressions with C-unspecified evaluation order and empty variable values are not generated.",
   design="5/C03"),
 "C12": dict(level="exploration", engine="lib-inproc",
   technique="runtime invariant monitor + shadow model on the real JobList, breadth-first over all API histories to a fixpoint",
   text="Every history over the operation alphabet with at most 4 live jobs is executed on the real JobList (quick: depth 10; thorough: until no new table appears, i.e. the complete reachable state space for that alphabet); after every transition the property's invariants, the documented result of the operation and %%/%+/%-/%n resolution are asserted through the public API.",
   note="Trusted: the invariant monitor itself (written from the property text and the doc comments of job.rs); pids of live jobs are never re-inserted; `expect()` is not exercised; $! and the shell-level plumbing (wait %n) are covered by C13.",
   design="5/C12"),
 "C15": dict(level="exploration", engine="execmon",
   technique="online poll-log monitor against a reference FIFO queue with duplicate suppression; Miri (UB/leak interpreter) on a slice of the same workload",
   text="Exhaustive ordered task systems (2 tasks x <=3 actions over 8 actions; 3 tasks x <=2 actions; thorough adds 2x<=4, 3x<=3, 4x<=2) plus random larger systems run on the real yash_executor::Executor; each step() is compared with the reference queue (task polled, wake_count, completion), instrumented futures flag poll-after-ready/re-entrancy, stalls are checked for genuinely waiting tasks, results delivered exactly once. A slice (quick 768, thorough 6144 systems) is interpreted by Miri to check the hand-written RawWaker vtable.",
   note="Trusted: the reference queue model (15 lines), the instrumented futures; Miri covers only the slice; single-threaded use as the crate documents.",
   design="5/C15, 6"),
 "C16": dict(level="exploration", engine="lib-inproc",
   technique="lock-step reference-model monitor (stack of maps) on the real VariableSet, breadth-first over API histories; language-level script monitor",
   text="Part B: generated scripts (temporary assignments on regular/special built-ins, functions and externals, typeset locals, export, unset, positional parameters; values and export flags read at run time by a probe; environments of executed programs read from the virtual kernel) compared with the reference interpreter; 18 routes x 2 values attempting to change a read-only variable. Part A: every API history to depth 5 (quick) / 7 (thorough) over push/pop of regular and volatile contexts, get_or_new/assign/export/read-only in each scope, unset in each scope, positional parameters on two names is executed on the real VariableSet in lock-step with a naive stack-of-maps model; every getter (get, get_scoped, iter, env_c_strings, positional_params) is compared after every operation. Part B also: ${x=word} and $((n=K)) inside functions, unset of a hidden global inside a function, assignment-only commands with a failing redirection.",
   note="Trusted: models/vars.rs as a reading of the doc comments of variable.rs; arrays and quirks are not exercised.",
   design="5/C16"),
}

# additions of round 4 (appended to the texts above)
ROUND4 = {
 "C02": (" Round 4: stop/continue slice (a foreground subshell stops itself and is continued from outside 1-11 scheduler steps later; events and $? must be those of the script without the stop).", None),
 "C05": (" Round 4: every real-system sample also compares /proc/self/fd before and after its expansions.", None),
 "C08": (" Round 4: shared-description slice (parent and asynchronous subshells overlap on one pipe end beyond its capacity under FIFO + 39/399 random schedules per shape; all facets and the blocking mode of every descriptor before == after); stop/continue slice.", None),
 "C10": (" Round 4: stock-shell slice - the unmodified yash_cli::main binary (harness/yash3w) on the real system, 17 abort kinds x 7 contexts x {script file, -c, standard input}, observed through /bin/echo: nothing after the abort point, EXIT trap exactly once with the failing status = exit status; built-in output-error slice (12 printing built-ins x closed stdout / broken pipe x 5 contexts x plain/`command`).", "vsh-virtual + stock-real"),
 "C11": (" Part F (round 4): the kernel as monitor - /proc/self/status of a program started by the stock shell (yash3w, real system) after 10 trap set-ups x 6 warm-ups x 15 ways of starting it (exec, plain, subshells, asynchronous lists, pipelines, substitutions, functions, eval) x {non-interactive, -m, -i}, a third of the matrix per quick run chosen by seed, all of it in thorough: nothing blocked, ignored = inherited + trap '' (+ INT/QUIT for asynchronous lists without job control); an interactive shell survives TERM/QUIT/INT after a failed exec.", "lib-inproc + vsh-virtual + stock-real"),
 "C13": (" Round 4: shared-pipe slice (2-3 writers / 2 readers on one pipe end with payloads beyond its capacity, FIFO + 59/1499 random schedules per shape: terminates, all reaped, every byte counted); exit-status sweep (final statuses 0-3, 124-130, 254-258, 383-524, 640, 1000 x 5 kinds of child); stop/continue slice.", None),
 "C14": (" Real-system slice (round 4): 54 / 900 pipelines through the harness shell on the real kernel with payloads around 4096 and 65536 bytes, mixing built-ins and external utilities that share pipe ends (incl. a built-in `read` followed by /bin/cat on the same pipe, substitution + here-document): length and hash at the consumer, blocking mode of descriptors 0-9 before == after; a run idle for 60 s is reported as blocked. Stress: 4 / 16 shards x 120 / 1500 rounds of four built-in writers (parallel real processes) sharing one pipe end: 20000 bytes per round at the consumer, the shared description back in blocking mode after `wait`.", "vsh-virtual + vsh-real"),
 "C16": (" Round 4: attributes-from-functions slice - readonly/export (with/without value, values containing `=`, after typeset) in 5 function shapes: value, export flag and writability inside the function and after the return.", None),
 "C17": (" Round 4: the `do` position of a for loop in the model (not a command position); executed-commands slice - 12 alias tables with multi-line values run by the whole shell from a file, a pipe by lines and by bytes, -c, and -i: the probes equal those of the hand-substituted script.", "lib-inproc + vsh-virtual"),
 "C18": (" Round 4: `set -m`/`set +m` and asynchronous readers (6 forms, inside and outside subshells) among the items; stop/continue slice with a stopped reader of the next script line.", None),
 "C19": (" Round 4: self-sent INT/QUIT after asynchronous commands; scripts that reach for the shell-reserved descriptors 10/11 while a redirection is in effect.", None),
 "C20": (" Round 4: lone `-` and `+` operands for export/readonly/typeset/unset/alias/type; every ulimit resource set through its short option and queried through every spelling.", None),
}
ROUND4["C02"] = (ROUND4["C02"][0] + " Command-less scripts slice: 9 texts without any command (empty, blanks, newlines, comments, line continuations) through eval, `.`, -c, in functions, subshells and and-or lists after a command that returned 5: status 0.", "vsh-virtual + vsh-real")
ROUND4["C03"] = (" Shell-maintained variables slice: $((x)) vs $(($x)) for LINENO, OPTIND, PPID and an ordinary variable in 4 expression shapes at 4 positions (known finding: LINENO).", None)
ROUND4["C04"] = (" Quoted `-` `]` `!` `^` `[` inside bracket expressions are literal members in model and workload (bracket bodies to length 3 / 4 over 29 tokens); tilde-result slice: 9 HOME values that look like patterns x 15 strings, `case $s in ~)`, `~/t`, and the four trims must treat the tilde result literally.", None)
ROUND4["C13"] = (ROUND4["C13"][0] + " Harmless-signals slice: CONT / URG / WINCH / CHLD / null signal sent to children that may have finished already, 4 shapes x FIFO + 11/299 random schedules: wait still reports the child's own status, everything terminates and is reaped. Real-kernel stress (checks/c13r.rs): 8 / 16 shards x 60 / 1200 rounds of asynchronous lists, pipelines (with and without pipefail), substitutions and waits in every order with known statuses; nothing hangs, nothing is left unreaped.", "vsh-virtual + vsh-real")
ROUND4["C19"] = (ROUND4["C19"][0] + " Also: kill after wait (ESRCH), directories and unexecutable files as command names (with and without a slash, through PATH), CDPATH/HOME, files created through `..`, trailing-slash / empty / doubled-slash paths, descriptors and offsets shared with subshells and substitutions; every fourth script is run once more on the real kernel with the shell-internal descriptors (10+) listed before and after.", None)
for k, (t, eng) in ROUND4.items():
    CLAIMED[k]["text"] += t
    if eng:
        CLAIMED[k]["engine"] = eng

# additions of round 5
ROUND5 = {
 "C01": " Round 5: 17280 words that assign IFS inside themselves (`${IFS=v}` / `${IFS:=v}`, quoted or not, before / after / between the text to be split); IFS values whose first character is multi-byte.",
 "C02": " Round 5: the real PATH-search slice (400 / 4000 searches) has empty PATH components (leading, doubled, trailing colon = the working directory, which may hold the name), relative components and trailing slashes.",
 "C03": " Round 5: variable values with a sign behind the radix prefix or a dangling sign (an error as expression text, so an error as a value).",
 "C04": " Round 5: option toggles (set -f, -C, -a, -u and back) between the cases of the shell-level slice.",
 "C05": " Round 5: directories with multi-byte names in trees and patterns; names that are not valid UTF-8 next to the others in every directory of every other real-system tree.",
 "C06": " Round 5: escapes at the limits of the 4-digit/8-digit forms and around the surrogates, descriptor numbers around 2^31 / 2^32 / 2^64, in the grammar and as 11 fixed boundary inputs.",
 "C07": " Round 5: variable names `+x`, `--`, multi-byte names; trap actions that look like options or like the option terminator.",
 "C08": " Round 5: job-control slice - `set -m` with a controlling terminal, 8 job shapes (inner subshells, substitutions, asynchronous lists, pipelines, nested jobs) x descriptor limits {none, 10, 11, 12, 16} x 8 mutators, FIFO and random schedules: parent's facets (descriptors included) before == after every job, and the terminal's foreground process group is the job's while it runs and the shell's afterwards.",
 "C09": " Round 5: permission bits of files created by a redirection (666 & ~umask, six masks); in every third scenario the operands are spelled through command substitutions / backquotes / ${v:-X}, i.e. expanded with the descriptor table as the earlier redirections of the list left it.",
 "C10": " Round 5 (stock-shell slice): the EXIT trap set in six spellings, some together with INT/QUIT in one `trap` command while the shell was started with those signals ignored; four errexit-exempt cases through an alias, condition subshells and negated groups (21 cases in all).",
 "C11": " Round 5 (part F): the shell's own SigIgn after `set -m` / `set +m` alone and combined with other options in every order (28 runs, -i and -i +m): TSTP/TTIN/TTOU ignored exactly while job control is on; failed exec followed by TERM/QUIT/INT with job control off and on (18 runs). Every stock-shell run starts from default signal dispositions, whatever the check inherited.",
 "C13": " Round 5: exit-status sweep with children ending through exit / return (11 kinds); pipelines of 3-4 stages with standard output and/or input closed; interactive slice - 14 child-starting scripts on standard input run by -i, -i +m and -m shells under FIFO and random schedules, compared with the non-interactive run.",
 "C14": " Round 5: `<<-` here-documents (quoted and expanding) with every mix of tab/space indentation and indented delimiters; two writers sharing one pipe end among the virtual scenarios (length pinned).",
 "C16": " Round 5: allexport slice - 9 forms of assignment (plain, for, ${v=w}, ${v:=w}, $((v=7)), read, getopts, repeated, nested for) x 5 contexts x option on/off: export attribute while the option is on and after it is turned off.",
 "C18": " Round 5: pipelines whose first stage is still busy when the last has finished and then reads the script's next line (12 forms); here-document operator on a line that ends with `|` (8 forms).",
 "C19": " Round 5: AddressSanitizer build of the harness (nightly, built by ./check): 1000 / 20000 of the generated real-system runs and 22 fixed FFI-surface scripts (4.8 kB working directory, 200-entry directories with 250-byte and non-UTF-8 names, 4096 arguments and 200 exported variables through execve, ~user, command -p, every ulimit resource, times, traps on every signal incl. real-time, 30 concurrent children, symlinks with cd -P/-L, set -m without a terminal, ENOEXEC fall-back ...) run under ASan in both tiers and under memcheck as well in thorough; verdict = no sanitizer report, no death by signal. Self-sent URG / WINCH / CHLD / CONT among the statements; a real run that sits idle is repeated once before it is reported as blocked; the real shell starts from default signal dispositions.",
 "C20": " Round 5 (part C): groups on the option terminator followed by `--` or an option-like operand (trap -- -- USR2, trap -- -p USR2, unset -- -- x, set -- -- a).",
}
for k, t in ROUND5.items():
    CLAIMED[k]["text"] += t
CLAIMED["C19"]["technique"] = CLAIMED["C19"]["technique"].replace("thorough tier repeats a slice of the real-system runs under valgrind memcheck", "sanitizers: an AddressSanitizer build of the harness re-runs a slice of the real-system scripts and 22 scripts aimed at the libc FFI surface of RealSystem in both tiers; the thorough tier repeats both under valgrind memcheck")
CLAIMED["C08"]["technique"] = CLAIMED["C08"]["technique"] + "; kernel-state facet for the controlling terminal's foreground process group in the job-control slice"

PENDING_REASON = "monitor not implemented yet (work in progress; see DESIGN.md section 5)"

def main():
    ids = [json.loads(l)["id"] for l in open(os.path.join(V, "properties.jsonl"))]
    hook_commits = subprocess.run(["git", "-C", "/repo", "log", "--format=%h %s"], capture_output=True, text=True).stdout.splitlines()
    src = [l.split()[0] for l in hook_commits if l.split(" ",1)[1].startswith(("verif-hooks", "fix:"))]
    checks = []
    for i in ids:
        if i not in CLAIMED: continue
        c = CLAIMED[i]
        checks.append({
          "property_id": i,
          "quick_cmd": f"./check {i} quick",
          "thorough_cmd": f"./check {i} thorough",
          "evidence_file": f"evidence/{i}.json",
          "replay_cmd_template": f"./check {i} replay {{path}}",
          "engine": c["engine"],
          "level_claimed": {"category": c["level"], "text": c["text"], "design_ref": c["design"]},
          "level_note": c["note"],
          "technique": c["technique"],
        })
    m = {
     "version": 1,
     "setup_cmd": "./check --setup",
     "hooks": {
       "guard": "cargo feature `verif-hooks` of crate yash-env (off by default)",
       "enable": "harness/vcheck/Cargo.toml depends on /repo/yash-env with features [\"test-helper\", \"verif-hooks\"]; ./check rebuilds the harness against /repo's working tree before every run",
       "baseline_off_cmd": "cd /repo && (cargo nextest run --workspace --no-fail-fast --offline || cargo test --workspace --no-fail-fast --offline)",
       "source_commits": src,
       "add_only": True,
     },
     "engines": [
       {"name": "lib-inproc", "path": "harness/vcheck", "kind_free_text": "monitors driving the public API of a /repo crate in-process, lock-step with a reference model or invariant checker", "serves_properties": [i for i in ids if i in CLAIMED and "lib-inproc" in CLAIMED[i]["engine"]]},
       {"name": "vsh-virtual", "path": "harness/vcheck", "kind_free_text": "the complete shell (yash-cli start-up, yash-semantics, yash-builtin) run in-process on VirtualSystem under our own scheduler (FIFO / random / DFS schedules, preemption at system calls through the verif-hooks feature), observed through probe built-ins and kernel-state snapshots", "serves_properties": [i for i in ids if i in CLAIMED and "vsh-virtual" in CLAIMED[i]["engine"]]},
       {"name": "vsh-real", "path": "harness/vcheck", "kind_free_text": "the same harness shell on RealSystem in a scratch directory (subprocess)", "serves_properties": [i for i in ids if i in CLAIMED and "vsh-real" in CLAIMED[i]["engine"]]},
       {"name": "stock-real", "path": "harness/yash3w", "kind_free_text": "the unmodified shell entry point yash_cli::main built as harness/yash3w, run as a subprocess on the real system and observed from outside (stdout, exit status, /proc)", "serves_properties": [i for i in ids if i in CLAIMED and "stock-real" in CLAIMED[i]["engine"]]},
       {"name": "execmon", "path": "harness/execmon", "kind_free_text": "poll-log monitor for yash-executor against a FIFO reference queue; also run under Miri", "serves_properties": [i for i in ids if i in CLAIMED and "execmon" in CLAIMED[i]["engine"]]},
     ],
     "checks": checks,
     "not_applicable": [{"property_id": i, "reason": PENDING_REASON} for i in ids if i not in CLAIMED],
     "notes": "All checks: exit 0 = held on everything explored, 1 = VIOLATION lines, 2 = inconclusive/harness error (never reported as held). Known findings: known_findings.json.",
    }
    json.dump(m, open(os.path.join(V, "MANIFEST.json"), "w"), indent=1)
    print("claimed:", [c["property_id"] for c in checks])

main()
