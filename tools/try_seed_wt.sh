#!/bin/bash
# tools/try_seed_wt.sh <slot> <patch.diff> <ID> [quick|thorough]
# Like try_seed.sh, but leaves /repo and /verif/harness alone: the seeded change is applied to a scratch
# worktree /tmp/try<slot>/repo and the check runs from a copy of the harness (/tmp/try<slot>/verif) whose
# path dependencies point at that worktree. Several slots can run side by side.
# NOTE: read the signatures, not just "VIOLATION": a slot driven by a nohup/background queue runs the checks
# with HUP/INT/QUIT ignored on entry; try the clean tree in the same slot (patch "-") when in doubt.
# Remove a slot with
#   git -C /repo worktree remove --force /tmp/try<slot>/repo; rm -rf /tmp/try<slot>
SLOT="/tmp/try$1"; P="$2"; ID="$3"; MODE="${4:-quick}"
set -u
if [ ! -d "$SLOT/repo" ]; then mkdir -p "$SLOT"; git -C /repo worktree add --detach "$SLOT/repo" HEAD >/dev/null 2>&1 || { echo "cannot create worktree"; exit 2; }; fi
mkdir -p "$SLOT/verif"
rsync -a --delete --exclude target --exclude replay --exclude evidence --exclude seeded --exclude .git --exclude out \
  /verif/harness /verif/check /verif/known_findings.json /verif/properties.jsonl "$SLOT/verif/"
[ -d /verif/checks.d ] && rsync -a /verif/checks.d "$SLOT/verif/"
sed -i "s#\"/repo/#\"$SLOT/repo/#" "$SLOT"/verif/harness/*/Cargo.toml
git -C "$SLOT/repo" checkout -q -- . && git -C "$SLOT/repo" clean -qfd
git -C "$SLOT/repo" checkout -q --detach "$(git -C /repo rev-parse HEAD)"
if [ "$P" != "-" ]; then git -C "$SLOT/repo" apply "$P" || { echo "patch does not apply"; exit 2; }; fi
( cd "$SLOT/verif" && VERIF_OUT="$SLOT/out" ./check "$ID" "$MODE" 2>&1 | grep -E "VIOLATION|signature|KNOWN|INCONCLUSIVE|^C[0-9]+:|BUILD FAILED|^error" | head -${LINES_MAX:-14} )
git -C "$SLOT/repo" checkout -q -- .
