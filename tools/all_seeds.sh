#!/bin/bash
# tools/all_seeds.sh [seed-dir ...]   re-runs every stored seeded change against the check named in its
# meta.json (quick tier) and prints one line per seed: DETECTED <signatures> or MISSED. Patches /repo
# temporarily (through tools/try_seed.sh): nothing else may use /repo meanwhile.
cd /verif || exit 2
SEEDS=("$@"); [ ${#SEEDS[@]} -eq 0 ] && SEEDS=(/verif/seeded/*/)
for S in "${SEEDS[@]}"; do
  S="${S%/}"; N=$(basename "$S")
  ID=$(python3 -c "import json,sys; print(json.load(open('$S/meta.json'))['check_run'].split()[2])")
  if ! git -C /repo apply --check "$S/patch.diff" 2>/dev/null; then echo "$N ($ID): DOES NOT APPLY"; continue; fi
  R=$(LINES_MAX=400 tools/try_seed.sh "$S/patch.diff" "$ID" quick 2>&1 | grep -E "signature" | sed 's/.*signature: //' | sort | uniq -c | sort -rn | head -2 | sed 's/^ *//' | tr '\n' '|')
  if [ -n "$R" ]; then echo "$N ($ID): DETECTED $R"; else echo "$N ($ID): MISSED"; fi
done
./check --setup >/dev/null
