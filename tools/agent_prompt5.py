#!/usr/bin/env python3
"""Prints the prompt given to a mutant-writing sub-agent for one property (property text only)."""
import json, sys
pid = sys.argv[1]
for l in open('/verif/properties.jsonl'):
    p = json.loads(l)
    if p['id'] == pid: break
wt = f"/tmp/wt5-{pid}"
out = f"/tmp/seed5-{pid}"
import glob, os
known = []
for d in sorted(glob.glob(f"/verif/seeded/{pid}-m*/")):
    m = json.load(open(d + "meta.json"))
    try:
        first = [l for l in open(d + "notes.md").read().splitlines() if l.strip()][0].lstrip("# ").strip()
    except Exception:
        first = ""
    known.append(f"  - {', '.join(m['files_touched'])}: {first}")
known_text = "\n".join(known)
print(f"""You are helping to evaluate a verification effort for the Rust project magicant/yash-rs (a POSIX shell reimplementation: lexer/parser, word expansion, command semantics, arithmetic, fnmatch, job/trap management, a simulated OS for tests). You have your own scratch git worktree of the repository at {wt} (work ONLY there; never touch /repo or /verif, and do not read anything under /verif). The sandbox has no network; use `cargo ... --offline`.

Here is a semantic property that the project is supposed to satisfy:

  Title: {p['title']}
  Statement: {p['statement']}
  Quantified over: {p['quantifier']['text']}

Your task: produce TWO different, realistic source changes (mutants) to the code in {wt} (crates yash-*), each of which BREAKS this property while (a) still compiling, and (b) still passing the existing test suite of the affected crate(s) (run `cargo test -p <crate> --offline` in {wt} for every crate whose source you touched plus every crate that depends on the touched code path in an obvious way — e.g. if you touch yash-env also run yash-semantics and yash-builtin; use `CARGO_TARGET_DIR={wt}/target`). Prefer changes that need something specific to manifest — a particular interleaving, a fault at a particular point, a multi-step sequence of operations, an unusual input, or two cooperating sites that each look fine alone — NOT changes that ordinary use would expose at once. Think of plausible programmer mistakes (off-by-one, wrong branch, missing case, forgotten update of a second data structure, swapped condition), and keep each change small (a few lines). The two mutants should be in different functions/mechanisms. Good places to look this time: state that is saved and restored later or carried across several commands (caches, counters, flags, stacks), numeric and length boundary conditions, multi-byte characters, rarely used shell options and their interaction with the mechanism of the property, interactive or job-control mode, nesting of the same construct inside itself, clean-up paths taken when something in the middle fails, and code that only runs on the real operating system.

Other people have already produced the following changes for this property; do NOT repeat them or close variants of them, and prefer different files / mechanisms / kinds of input:
{known_text}

For each mutant i in 1,2 write into the directory {out}/m<i>/ :
  - patch.diff : output of `git -C {wt} diff` for that mutant alone (relative to the clean worktree), applicable with `git apply`.
  - a demonstration: a small Rust test file (e.g. demo.rs with instructions where to put it) or a shell script for the built `yash3` binary (`cargo build -p yash-cli --offline` gives target/debug/yash3; note yash3 has no echo/printf/test built-ins — use /bin/echo etc.) that FAILS with the mutant and PASSES on the clean worktree; and the exact commands to run it.
  - notes.md : what the change is, why it breaks the property, what specific circumstance it needs to manifest, and the commands you ran with their results (test suite pass with the mutant; demo fails with the mutant, passes without).
Reset the worktree to clean (`git -C {wt} checkout -- . && git -C {wt} clean -fd -e target`) between mutants and at the end, and finally delete {wt}/target to free disk space. Do not commit anything. Your final answer should be a brief summary of the two mutants (files touched, what they need to manifest) and whether all confirmations succeeded.""")
