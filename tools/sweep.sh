#!/bin/bash
# tools/sweep.sh <tier> <seed>...   run every claimed check at the given tier and seeds; one summary line each.
# Evidence/replay output goes to a scratch directory (VERIF_OUT) so that committed evidence is not disturbed.
TIER="$1"; shift
IDS=$(python3 -c "import json; print(' '.join(c['property_id'] for c in json.load(open('/verif/MANIFEST.json'))['checks']))")
for SEED in "$@"; do
  for ID in $IDS; do
    S=$(date +%s)
    OUT=$(cd /verif && VERIF_SEED=$SEED VERIF_OUT=/tmp/sweep-out timeout 7200 ./check $ID $TIER 2>&1); RC=$?
    E=$(( $(date +%s) - S ))
    V=$(echo "$OUT" | grep -c "^VIOLATION")
    echo "$TIER seed=$SEED $ID rc=$RC violations=$V ${E}s $(echo "$OUT" | grep "^$ID:" | tail -1 | cut -c1-160)"
  done
done
