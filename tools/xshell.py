#!/usr/bin/env python3
"""Development-time validation of a reference model against other shells (never used at check time).
usage: vcheck dump-c01 N SEED | tools/xshell.py [bash|dash ...]
Each input line: {"script": ..., "expect": ["P<f1><f2>", "S0", "S!" ...]}.
The script uses `probe` (defined below as a function) and `probe st $?`."""
import sys, json, subprocess, collections
shells = sys.argv[1:] or ["bash", "dash"]
PRE_CTL = r'''probe() { __s=$?; if [ "$1" = -s ]; then __r=$2; shift 2; else __r=0; fi; echo "$1 $__s${2+ $2}${3+ $3}"; return $__r; }
ext() { return 126; }
pvar() { __s=$?; eval "echo \"$1 $__s \${$2-UNSET}\""; return 0; }
'''
PRE = r'''probe() { if [ $# -eq 2 ] && [ "$1" = st ]; then if [ "$2" = 0 ]; then echo S0; else echo 'S!'; fi; else printf P; [ $# -gt 0 ] && printf '<%s>' "$@"; echo; fi; }
'''
dis = collections.Counter()
n = 0
for line in sys.stdin:
    line = line.strip()
    if not line: continue
    c = json.loads(line)
    if "status" in c:
        for sh in shells:
            cmd = ["bash", "--posix", "-c"] if sh == "bash" else [sh, "-c"]
            try:
                r = subprocess.run(cmd + [PRE_CTL + c["script"]], capture_output=True, text=True, timeout=10, env={"PATH": "/bin:/usr/bin"})
            except subprocess.TimeoutExpired:
                print("TIMEOUT", sh); continue
            got = r.stdout.split("\n")[:-1]
            n += 1
            def norm(lines):
                out = []
                for l in lines:
                    parts = l.split(" ")
                    out.append(parts)
                return out
            ok = len(got) == len(c["expect"])
            if ok:
                for g, e in zip(got, c["expect"]):
                    gp, ep = g.split(" "), e.split(" ")
                    if gp[0] != ep[0] or gp[2:] != ep[2:]: ok = False; break
                    if ep[1] == "!":
                        if gp[1] == "0": ok = False; break
                    elif gp[1] != ep[1]: ok = False; break
            st = c["status"]
            if ok:
                ok = (r.returncode != 0) if st == "!" else (str(r.returncode) == st)
            if not ok:
                dis[sh] += 1
                if dis[sh] <= int(__import__('os').environ.get("SHOW", "6")):
                    print(f"[{sh}] ---- script:\n{c['script']}\n   model: {c['expect']} exit {st}\n   {sh}: {got} exit {r.returncode}\n   stderr: {r.stderr[:300]}")
        continue
    for sh in shells:
        cmd = ["bash", "--posix", "-c"] if sh == "bash" else [sh, "-c"]
        try:
            r = subprocess.run(cmd + [PRE + c["script"]], capture_output=True, text=True, timeout=10)
        except subprocess.TimeoutExpired:
            print("TIMEOUT", sh); continue
        got = r.stdout.split("\n")[:-1]
        exp = c["expect"]
        n += 1
        if got != exp:
            # align case by case using the script's lines
            lines = [l for l in c["script"].split("\n") if l.startswith("(")]
            gi = ei = 0
            for l in lines:
                # expected chunk
                e = [exp[ei]] if ei < len(exp) else []
                if e and e[0].startswith("P"): e.append(exp[ei+1]); 
                ei += len(e)
                g = [got[gi]] if gi < len(got) else []
                if g and g[0].startswith("P") and gi+1 < len(got): g.append(got[gi+1])
                gi += len(g)
                if e != g:
                    dis[sh] += 1
                    if dis[sh] <= int(__import__('os').environ.get("SHOW", "15")):
                        setup = "; ".join(x for x in c["script"].split("\n") if not x.startswith("(") and x)
                        print(f"[{sh}] {l}\n     setup: {setup}\n     model: {e}\n     {sh}: {g}")
print("compared", n, "scripts; disagreeing cases:", dict(dis))
