#!/usr/bin/env python3
"""keep_seed.py <PROP> <src dir> <name> <caught: yes|no|partly> <check result summary>
Copies patch.diff, demo files and notes into /verif/seeded/<PROP>-<name>/ and writes meta.json."""
import sys, os, shutil, json, re
prop, src, name, caught, summary = sys.argv[1:6]
dst = f"/verif/seeded/{prop}-{name}"
os.makedirs(dst, exist_ok=True)
for f in os.listdir(src):
    if f.endswith(('.diff', '.rs', '.sh', '.md')):
        shutil.copy(os.path.join(src, f), dst)
notes = open(os.path.join(src, 'notes.md')).read() if os.path.exists(os.path.join(src, 'notes.md')) else ''
meta = {
  "property": prop,
  "origin": "independent sub-agent given only the property text and a scratch worktree",
  "files_touched": sorted(set(re.findall(r'^\+\+\+ b/(\S+)', open(os.path.join(src,'patch.diff')).read(), re.M))),
  "needs_to_manifest": "see notes.md",
  "detected_by_check": caught,
  "check_run": f"tools/try_seed.sh seeded/{prop}-{name}/patch.diff {prop} quick",
  "check_result": summary,
  "confirmation": "pending",
}
json.dump(meta, open(os.path.join(dst, 'meta.json'), 'w'), indent=1)
print(dst)
