#!/bin/bash
# tools/try_seed.sh <patch.diff> <ID> [quick|thorough]   apply a seeded change to /repo, run the check, undo it.
P="$1"; ID="$2"; MODE="${3:-quick}"
cd /repo || exit 2
git diff --quiet || { echo "/repo has uncommitted changes"; exit 2; }
git apply "$P" || { echo "patch does not apply"; exit 2; }
( cd /verif && VERIF_OUT=/tmp/seedrun ./check "$ID" "$MODE" 2>&1 | grep -E "VIOLATION|signature|KNOWN|INCONCLUSIVE|^C[0-9]+:|BUILD FAILED" | head -${LINES_MAX:-12} )
git -C /repo checkout -- .
