fn main(){}
