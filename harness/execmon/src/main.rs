//! execmon — C15: the executor never loses a wake-up and never polls a finished task.
//!
//! Drives the real `yash_executor::Executor` with instrumented hand-written futures and checks
//! every `step()` against a reference FIFO queue with duplicate suppression.
//! The same binary is run natively (large spaces) and under Miri (small slice; checks the
//! hand-written `RawWaker` vtable for use-after-free / leaks).
//!
//! usage: execmon --tier quick|thorough --seed N            full run, writes evidence/C15.json
//!        execmon --miri-slice N                            small exhaustive slice, no evidence file

#[path = "../../vcheck/src/util.rs"]
#[allow(dead_code)]
mod util;
#[path = "../../vcheck/src/known.rs"]
#[allow(dead_code)]
mod known;
#[path = "../../vcheck/src/report.rs"]
#[allow(dead_code)]
mod report;

use std::cell::RefCell;
use std::collections::VecDeque;
use std::future::Future;
use std::pin::Pin;
use std::rc::Rc;
use std::task::{Context, Poll, Waker};
use util::{Ctx, J, Rng, Tier};
use yash_executor::forwarder::{Receiver, TryReceiveError};
use yash_executor::{Executor, Spawner};

#[derive(Clone, Copy, Debug, PartialEq, Eq, Hash)]
enum Act {
    /// clone the waker, wake the clone by value, return Pending once
    YieldVal,
    /// wake_by_ref, return Pending once
    YieldRef,
    /// wake_by_ref twice (duplicate suppression), return Pending once
    YieldTwice,
    /// wait until channel k has been signalled
    Wait(u8),
    /// signal channel k: wake every waiter (by value)
    Signal(u8),
    /// spawn a child (which yields once, then completes) and await its Receiver
    Spawn,
    /// clone the waker and drop the clone
    DropClone,
    /// keep a clone of the waker in the world's stash (woken later from outside, possibly after
    /// the task has completed)
    Stash,
}

const NCHAN: usize = 3;

#[derive(Default)]
struct Chan {
    signalled: bool,
    waiters: Vec<(usize, Waker)>,
}

#[derive(Default, Clone)]
struct TaskInfo {
    done: bool,
    polls: u32,
    /// Some(child) while awaiting that child's receiver
    awaiting: Option<usize>,
    /// current action when it last returned Pending
    blocked_on: Option<Act>,
    parent: Option<usize>,
    received: u32,
}

struct World {
    model: VecDeque<usize>,
    polled: Vec<usize>,
    in_poll: Option<usize>,
    chans: [Chan; NCHAN],
    stash: Vec<(usize, Waker)>,
    tasks: Vec<TaskInfo>,
    violations: Vec<String>,
    spawner: Spawner<'static>,
    wakes: u64,
    /// completed tasks popped from the reference queue (woken through a stale waker)
    stale_pops: u64,
    completions: u64,
}

impl World {
    /// Called at the start of every poll: the polled task must be the head of the reference
    /// queue (completed tasks woken through stale wakers are skipped by the executor silently).
    fn model_pop_for_poll(&mut self, id: usize) {
        loop {
            match self.model.pop_front() {
                Some(t) if t != id && self.tasks[t].done => {
                    self.stale_pops += 1;
                }
                Some(t) if t == id => return,
                Some(t) => {
                    self.violations.push(format!(
                        "task {id} polled but the head of the FIFO reference queue is task {t}"
                    ));
                    return;
                }
                None => {
                    self.violations.push(format!(
                        "task {id} polled although it is not in the reference queue (not woken since its last poll, or queued twice)"
                    ));
                    return;
                }
            }
        }
    }
    fn model_wake(&mut self, t: usize) {
        self.wakes += 1;
        if !self.model.contains(&t) {
            self.model.push_back(t);
        }
    }
    fn new_task(&mut self, parent: Option<usize>) -> usize {
        self.tasks.push(TaskInfo {
            parent,
            ..Default::default()
        });
        let id = self.tasks.len() - 1;
        // spawning enqueues the task
        self.model.push_back(id);
        id
    }
}

type W = Rc<RefCell<World>>;

struct TaskFut {
    id: usize,
    script: Vec<Act>,
    pc: usize,
    yielded: bool,
    world: W,
    recv: Option<(usize, Receiver<u64>)>,
}

impl Future for TaskFut {
    type Output = u64;
    fn poll(mut self: Pin<&mut Self>, cx: &mut Context<'_>) -> Poll<u64> {
        let this = &mut *self;
        let id = this.id;
        {
            let mut w = this.world.borrow_mut();
            w.polled.push(id);
            w.model_pop_for_poll(id);
            if w.tasks[id].done {
                w.violations.push(format!("task {id} polled after it completed"));
                return Poll::Ready(0);
            }
            if let Some(other) = w.in_poll {
                w.violations
                    .push(format!("task {id} polled while task {other} is being polled (re-entrant)"));
            }
            w.in_poll = Some(id);
            w.tasks[id].polls += 1;
            w.tasks[id].blocked_on = None;
        }
        let r = this.run(cx);
        let mut w = this.world.borrow_mut();
        w.in_poll = None;
        if let Poll::Ready(_) = r {
            w.tasks[id].done = true;
            w.completions += 1;
            // the forwarding wrapper now sends the value, waking the parent if it is waiting
            if let Some(p) = w.tasks[id].parent {
                if w.tasks[p].awaiting == Some(id) {
                    w.model_wake(p);
                }
            }
        }
        r
    }
}

impl TaskFut {
    fn run(&mut self, cx: &mut Context<'_>) -> Poll<u64> {
        let id = self.id;
        while self.pc < self.script.len() {
            let act = self.script[self.pc];
            match act {
                Act::YieldVal | Act::YieldRef | Act::YieldTwice => {
                    if !self.yielded {
                        self.yielded = true;
                        match act {
                            Act::YieldVal => {
                                cx.waker().clone().wake();
                                self.world.borrow_mut().model_wake(id);
                            }
                            Act::YieldRef => {
                                cx.waker().wake_by_ref();
                                self.world.borrow_mut().model_wake(id);
                            }
                            _ => {
                                cx.waker().wake_by_ref();
                                cx.waker().wake_by_ref();
                                let mut w = self.world.borrow_mut();
                                w.model_wake(id);
                                w.model_wake(id);
                            }
                        }
                        self.world.borrow_mut().tasks[id].blocked_on = Some(act);
                        return Poll::Pending;
                    }
                    self.yielded = false;
                }
                Act::Wait(k) => {
                    let mut w = self.world.borrow_mut();
                    if !w.chans[k as usize].signalled {
                        let waker = cx.waker().clone();
                        let ws = &mut w.chans[k as usize].waiters;
                        match ws.iter_mut().find(|e| e.0 == id) {
                            Some(e) => e.1 = waker,
                            None => ws.push((id, waker)),
                        }
                        w.tasks[id].blocked_on = Some(act);
                        return Poll::Pending;
                    }
                }
                Act::Signal(k) => {
                    // wakers stay registered (like a condition variable that is signalled again):
                    // a task may be woken several times, by several actors, before it runs
                    let waiters: Vec<(usize, Waker)> = {
                        let mut w = self.world.borrow_mut();
                        w.chans[k as usize].signalled = true;
                        w.chans[k as usize].waiters.clone()
                    };
                    for (t, waker) in waiters {
                        waker.wake_by_ref();
                        self.world.borrow_mut().model_wake(t);
                    }
                }
                Act::Spawn => {
                    if self.recv.is_none() {
                        let (child, spawner) = {
                            let mut w = self.world.borrow_mut();
                            let c = w.new_task(Some(id));
                            (c, w.spawner.clone())
                        };
                        let fut = TaskFut {
                            id: child,
                            script: vec![Act::YieldRef],
                            pc: 0,
                            yielded: false,
                            world: Rc::clone(&self.world),
                            recv: None,
                        };
                        // SAFETY: single-threaded; wakers never leave this thread.
                        let r = unsafe { spawner.spawn(fut) };
                        match r {
                            Ok(r) => self.recv = Some((child, r)),
                            Err(_) => {
                                self.world
                                    .borrow_mut()
                                    .violations
                                    .push("spawn failed while the executor is alive".into());
                                self.pc += 1;
                                continue;
                            }
                        }
                    }
                    let (child, recv) = self.recv.as_mut().unwrap();
                    let child = *child;
                    match Pin::new(recv).poll(cx) {
                        Poll::Pending => {
                            let mut w = self.world.borrow_mut();
                            w.tasks[id].awaiting = Some(child);
                            w.tasks[id].blocked_on = Some(act);
                            if w.tasks[child].done {
                                w.violations.push(format!(
                                    "task {id}: child {child} completed but its result is not delivered"
                                ));
                            }
                            return Poll::Pending;
                        }
                        Poll::Ready(v) => {
                            let mut w = self.world.borrow_mut();
                            w.tasks[id].awaiting = None;
                            w.tasks[id].received += 1;
                            if v != 1000 + child as u64 {
                                w.violations
                                    .push(format!("task {id} received {v} from child {child}"));
                            }
                            if !w.tasks[child].done {
                                w.violations.push(format!(
                                    "task {id} received a result before child {child} completed"
                                ));
                            }
                            drop(w);
                            self.recv = None;
                        }
                    }
                }
                Act::DropClone => {
                    let w = cx.waker().clone();
                    drop(w);
                }
                Act::Stash => {
                    let waker = cx.waker().clone();
                    self.world.borrow_mut().stash.push((id, waker));
                }
            }
            self.pc += 1;
        }
        Poll::Ready(1000 + id as u64)
    }
}

struct Outcome {
    violations: Vec<String>,
    polls: u64,
    wakes: u64,
    steps: u64,
    /// hash of the poll order
    trace: u64,
    stalls_with_waiters: u32,
}

/// Run one task system to completion under the monitor.
fn run_system(scripts: &[Vec<Act>], batch: bool) -> Outcome {
    let exec: Executor<'static> = Executor::new();
    let world: W = Rc::new(RefCell::new(World {
        model: VecDeque::new(),
        polled: Vec::new(),
        in_poll: None,
        chans: Default::default(),
        stash: Vec::new(),
        tasks: Vec::new(),
        violations: Vec::new(),
        spawner: exec.spawner(),
        wakes: 0,
        stale_pops: 0,
        completions: 0,
    }));
    let mut receivers: Vec<(usize, Receiver<u64>)> = Vec::new();
    for s in scripts {
        let id = world.borrow_mut().new_task(None);
        let fut = TaskFut {
            id,
            script: s.clone(),
            pc: 0,
            yielded: false,
            world: Rc::clone(&world),
            recv: None,
        };
        // SAFETY: single-threaded.
        let r = unsafe { exec.spawn(fut) };
        receivers.push((id, r));
    }
    let mut steps = 0u64;
    let mut trace: Vec<u8> = Vec::new();
    let mut stalls_with_waiters = 0;
    let max_steps = 10_000;

    let run_until_stalled = |world: &W, steps: &mut u64, trace: &mut Vec<u8>| {
        if batch {
            // drive with Executor::run_until_stalled(); the per-poll checks run inside the futures
            let (c0, s0) = {
                let w = world.borrow();
                (w.completions, w.stale_pops)
            };
            world.borrow_mut().polled.clear();
            let n = exec.run_until_stalled();
            let mut w = world.borrow_mut();
            *steps += w.polled.len() as u64;
            for t in std::mem::take(&mut w.polled) {
                trace.push(t as u8);
            }
            // whatever is left in the reference queue must be completed tasks (stale wakes)
            while let Some(t) = w.model.pop_front() {
                if w.tasks[t].done {
                    w.stale_pops += 1;
                } else {
                    w.violations.push(format!(
                        "run_until_stalled() returned although task {t} has been woken (lost wake-up)"
                    ));
                }
            }
            let expect = (w.completions - c0) + (w.stale_pops - s0);
            if w.violations.is_empty() && n as u64 != expect {
                w.violations.push(format!(
                    "run_until_stalled() reported {n} completions, {expect} expected"
                ));
            }
            if exec.wake_count() != 0 && w.violations.is_empty() {
                w.violations.push("wake queue not empty after run_until_stalled()".into());
            }
            return;
        }
        loop {
            if *steps > max_steps {
                world
                    .borrow_mut()
                    .violations
                    .push("step bound exceeded (livelock)".into());
                return;
            }
            {
                let wc = exec.wake_count();
                let m = world.borrow().model.len();
                if wc != m {
                    world.borrow_mut().violations.push(format!(
                        "wake_count() = {wc} but the reference queue holds {m} tasks"
                    ));
                }
            }
            let head = world.borrow().model.front().copied();
            let head_done = head.map(|t| world.borrow().tasks[t].done);
            if head_done == Some(true) {
                // a completed task woken through a stale waker: the executor pops it without polling
                world.borrow_mut().model.pop_front();
                world.borrow_mut().stale_pops += 1;
            }
            world.borrow_mut().polled.clear();
            let r = exec.step();
            *steps += 1;
            let mut w = world.borrow_mut();
            let polled = std::mem::take(&mut w.polled);
            match (head, r) {
                (None, None) => return,
                (None, Some(_)) => {
                    w.violations.push(format!(
                        "executor polled {polled:?} although the reference queue is empty"
                    ));
                    return;
                }
                (Some(t), None) => {
                    w.violations.push(format!(
                        "executor stalled although task {t} has been woken (lost wake-up)"
                    ));
                    return;
                }
                (Some(t), Some(complete)) => {
                    trace.push(t as u8);
                    if head_done == Some(true) {
                        if !polled.is_empty() {
                            w.violations
                                .push(format!("completed task {t} was polled again: {polled:?}"));
                        }
                        if !complete {
                            w.violations
                                .push(format!("step() reported completed task {t} as pending"));
                        }
                    } else {
                        if polled != [t] {
                            w.violations.push(format!(
                                "expected task {t} (head of the FIFO queue) to be polled, executor polled {polled:?}"
                            ));
                        }
                        let done_now = w.tasks[t].done;
                        if polled.first() == Some(&t) && complete != done_now {
                            w.violations.push(format!(
                                "step() returned complete={complete} but task {t} done={done_now}"
                            ));
                        }
                    }
                }
            }
            if !w.violations.is_empty() {
                return;
            }
        }
    };

    let check_stall = |world: &W| {
        // when stalled, every unfinished task is genuinely waiting for something that has not happened
        let mut w = world.borrow_mut();
        let mut bad = Vec::new();
        for (t, info) in w.tasks.iter().enumerate() {
            if info.done {
                continue;
            }
            let ok = match info.blocked_on {
                Some(Act::Wait(k)) => !w.chans[k as usize].signalled,
                Some(Act::Spawn) => info.awaiting.map(|c| !w.tasks[c].done).unwrap_or(false),
                _ => false,
            };
            if !ok {
                bad.push(format!(
                    "stalled, but unfinished task {t} is not waiting for anything (blocked_on={:?})",
                    info.blocked_on
                ));
            }
        }
        w.violations.extend(bad);
    };

    // phase 1: run to stall
    run_until_stalled(&world, &mut steps, &mut trace);
    if world.borrow().violations.is_empty() {
        check_stall(&world);
    }
    // phase 2: wake stashed wakers from outside (spurious wakes, wakes of completed tasks)
    if world.borrow().violations.is_empty() {
        let stash = std::mem::take(&mut world.borrow_mut().stash);
        for (i, (t, waker)) in stash.into_iter().enumerate() {
            if i % 2 == 0 {
                waker.wake();
            } else {
                waker.wake_by_ref();
                drop(waker);
            }
            world.borrow_mut().model_wake(t);
        }
        run_until_stalled(&world, &mut steps, &mut trace);
        if world.borrow().violations.is_empty() {
            check_stall(&world);
        }
    }
    // phase 3: signal every channel from outside (step mode: one at a time with a run in between;
    // batch mode: all at once, so that several woken tasks sit in the queue together)
    for k in 0..NCHAN {
        if !world.borrow().violations.is_empty() {
            break;
        }
        let waiters: Vec<(usize, Waker)> = {
            let mut w = world.borrow_mut();
            w.chans[k].signalled = true;
            w.chans[k].waiters.clone()
        };
        if !waiters.is_empty() {
            stalls_with_waiters += 1;
        }
        for (t, waker) in waiters {
            waker.wake_by_ref();
            world.borrow_mut().model_wake(t);
        }
        if batch && k + 1 < NCHAN {
            continue;
        }
        run_until_stalled(&world, &mut steps, &mut trace);
        if world.borrow().violations.is_empty() {
            check_stall(&world);
        }
    }
    // final: everything completed, every result delivered exactly once
    {
        let mut w = world.borrow_mut();
        if w.violations.is_empty() {
            let mut bad = Vec::new();
            for (t, info) in w.tasks.iter().enumerate() {
                if !info.done {
                    bad.push(format!("task {t} never completed although every channel was signalled"));
                }
            }
            for (id, r) in &receivers {
                match r.try_receive() {
                    Ok(v) if v == 1000 + *id as u64 => {}
                    other => bad.push(format!("result of task {id}: {other:?}")),
                }
                if r.try_receive() != Err(TryReceiveError::AlreadyReceived) {
                    bad.push(format!("result of task {id} delivered twice"));
                }
            }
            w.violations.extend(bad);
        }
    }
    let (violations, polls, wakes) = {
        let mut w = world.borrow_mut();
        // break reference cycles (world -> wakers -> tasks -> futures -> world)
        for c in w.chans.iter_mut() {
            c.waiters.clear();
        }
        w.stash.clear();
        w.spawner = Spawner::dead();
        (
            std::mem::take(&mut w.violations),
            w.tasks.iter().map(|t| t.polls as u64).sum(),
            w.wakes,
        )
    };
    drop(receivers);
    drop(exec);
    Outcome {
        violations,
        polls,
        wakes,
        steps,
        trace: util::fnv(&trace),
        stalls_with_waiters,
    }
}

fn alphabet(nchan: u8, full: bool) -> Vec<Act> {
    let mut a = vec![Act::YieldRef, Act::YieldVal, Act::YieldTwice];
    for k in 0..nchan {
        a.push(Act::Wait(k));
        a.push(Act::Signal(k));
    }
    a.push(Act::Spawn);
    if full {
        a.push(Act::DropClone);
        a.push(Act::Stash);
    }
    a
}

fn all_scripts(alpha: &[Act], maxlen: usize) -> Vec<Vec<Act>> {
    let mut out: Vec<Vec<Act>> = vec![vec![]];
    let mut frontier: Vec<Vec<Act>> = vec![vec![]];
    for _ in 0..maxlen {
        let mut next = Vec::new();
        for s in &frontier {
            for a in alpha {
                let mut t = s.clone();
                t.push(*a);
                next.push(t);
            }
        }
        out.extend(next.iter().cloned());
        frontier = next;
    }
    out
}

fn sys_to_string(s: &[Vec<Act>]) -> String {
    format!("{s:?}")
}

/// Enumerate all systems of `ntasks` scripts drawn from `scripts`; index decoding so that the
/// space can be sharded.
fn system_at(scripts: &[Vec<Act>], ntasks: usize, mut idx: usize) -> Vec<Vec<Act>> {
    let n = scripts.len();
    let mut v = Vec::with_capacity(ntasks);
    for _ in 0..ntasks {
        v.push(scripts[idx % n].clone());
        idx /= n;
    }
    v
}

fn explore_space(ctx: &Ctx, name: &str, scripts: &[Vec<Act>], ntasks: usize) {
    let total = scripts.len().pow(ntasks as u32);
    let chunk = 4096;
    let nchunks = total.div_ceil(chunk);
    ctx.par_for(
        nchunks,
        |c| {
            let mut polls = 0u64;
            let mut wakes = 0u64;
            let mut steps = 0u64;
            let mut stalls = 0u64;
            for idx in c * chunk..((c + 1) * chunk).min(total) {
                let sys = system_at(scripts, ntasks, idx);
                let ob = run_system(&sys, true);
                for v in ob.violations {
                    ctx.violation(
                        sig(&v),
                        format!("task system (one script per task), driven by run_until_stalled(): {}\n{v}", sys_to_string(&sys)),
                    );
                }
                let o = run_system(&sys, false);
                polls += o.polls + ob.polls;
                wakes += o.wakes;
                steps += o.steps;
                stalls += o.stalls_with_waiters as u64;
                ctx.eval();
                if o.polls > sys.len() as u64 {
                    // non-trivial: at least one task was polled more than once
                    ctx.nontrivial(o.trace ^ util::fnv_str(&sys_to_string(&sys)));
                }
                for v in o.violations {
                    ctx.violation(
                        sig(&v),
                        format!("task system (one script per task): {}\n{v}", sys_to_string(&sys)),
                    );
                }
                if idx % 100_003 == 7 {
                    ctx.sample(J::obj(vec![
                        ("space", J::s(name)),
                        ("system", J::s(sys_to_string(&sys))),
                        ("polls", J::I(o.polls as i64)),
                        ("wakes", J::I(o.wakes as i64)),
                    ]));
                }
            }
            ctx.count("polls_observed", polls as i64);
            ctx.count("wakes_observed", wakes as i64);
            ctx.count("executor_steps", steps as i64);
            ctx.count("external_signals_that_woke_waiters", stalls as i64);
        },
        |c, msg| {
            ctx.violation(
                format!("panic:{}", sig(&msg)),
                format!("panic while running chunk {c} of space {name}: {msg}"),
            );
        },
    );
    ctx.count(&format!("systems_{name}"), total as i64);
}

fn sig(v: &str) -> String {
    // strip digits so that the signature names the kind of violation, not the task ids
    v.chars().filter(|c| !c.is_ascii_digit()).take(80).collect()
}

fn random_systems(ctx: &Ctx, n: usize) {
    let alpha = alphabet(NCHAN as u8, true);
    let seed = ctx.seed;
    ctx.par_for(
        n,
        |i| {
            let mut rng = Rng::new(seed.wrapping_mul(1_000_003).wrapping_add(i as u64));
            let nt = rng.range(3, 8);
            let sys: Vec<Vec<Act>> = (0..nt)
                .map(|_| {
                    let len = rng.range(0, 8);
                    (0..len).map(|_| *rng.pick(&alpha)).collect()
                })
                .collect();
            let ob = run_system(&sys, true);
            for v in ob.violations {
                ctx.violation(
                    sig(&v),
                    format!("random task system, driven by run_until_stalled(): {}\n{v}", sys_to_string(&sys)),
                );
            }
            let o = run_system(&sys, false);
            ctx.eval();
            ctx.count("polls_observed", (o.polls + ob.polls) as i64);
            ctx.count("wakes_observed", o.wakes as i64);
            ctx.count("executor_steps", o.steps as i64);
            if o.polls > sys.len() as u64 {
                ctx.nontrivial(o.trace ^ util::fnv_str(&sys_to_string(&sys)));
            }
            for v in o.violations {
                ctx.violation(
                    sig(&v),
                    format!("random task system: {}\n{v}", sys_to_string(&sys)),
                );
            }
            if i % 5000 == 1 {
                ctx.sample(J::obj(vec![
                    ("space", J::s("random")),
                    ("system", J::s(sys_to_string(&sys))),
                    ("polls", J::I(o.polls as i64)),
                ]));
            }
        },
        |i, msg| {
            ctx.violation(format!("panic:{}", sig(&msg)), format!("random system #{i}: {msg}"));
        },
    );
    ctx.count("systems_random", n as i64);
}

fn main() {
    let args: Vec<String> = std::env::args().collect();
    let mut tier = Tier::Quick;
    let mut seed = 1u64;
    let mut miri_slice: Option<usize> = None;
    let mut nshards: usize = 16;
    let mut miri_report: Option<String> = None;
    let mut i = 1;
    while i < args.len() {
        match args[i].as_str() {
            "--tier" => {
                i += 1;
                if args[i] == "thorough" {
                    tier = Tier::Thorough;
                }
            }
            "--seed" => {
                i += 1;
                seed = args[i].parse().unwrap_or(1);
            }
            "--miri-slice" => {
                i += 1;
                let mut it = args[i].split('/');
                miri_slice = Some(it.next().and_then(|x| x.parse().ok()).unwrap_or(0));
                nshards = it.next().and_then(|x| x.parse().ok()).unwrap_or(16);
            }
            "--miri-report" => {
                i += 1;
                miri_report = Some(args[i].clone());
            }
            _ => {}
        }
        i += 1;
    }
    if let Some(shard) = miri_slice {
        // Under Miri: single-threaded, exhaustive over a small space: 2 tasks x <=2 actions over
        // the full alphabet (1 channel), sharded, plus 3-task systems of single actions.
        let alpha = alphabet(1, true);
        let scripts = all_scripts(&alpha, 2);
        let total = scripts.len() * scripts.len();
        let mut n = 0u64;
        let mut polls = 0u64;
        for idx in (shard..total).step_by(nshards) {
            let sys = system_at(&scripts, 2, idx);
            let o = run_system(&sys, idx % 2 == 1);
            n += 1;
            polls += o.polls;
            if let Some(v) = o.violations.first() {
                println!("MIRI-SLICE-VIOLATION system={} {v}", sys_to_string(&sys));
                std::process::exit(1);
            }
        }
        let singles = all_scripts(&alpha, 1);
        let total3 = singles.len().pow(3);
        for idx in (shard..total3).step_by(nshards) {
            let sys = system_at(&singles, 3, idx);
            let o = run_system(&sys, idx % 2 == 1);
            n += 1;
            polls += o.polls;
            if let Some(v) = o.violations.first() {
                println!("MIRI-SLICE-VIOLATION system={} {v}", sys_to_string(&sys));
                std::process::exit(1);
            }
        }
        println!("MIRI-SLICE-OK shard={shard} systems={n} polls={polls}");
        return;
    }

    util::install_panic_hook();
    let mut ctx = Ctx::new("C15", tier, seed);
    ctx.rule = "task systems: one script per task over {YieldVal, YieldRef, YieldTwice, Wait(k), Signal(k), Spawn(child+await Receiver), DropClone, Stash(waker woken later from outside, also after completion)}; exhaustive ordered tuples of scripts for the listed spaces + random larger systems (3-8 tasks, <=8 actions, 3 channels); each system is driven once by step() and once by run_until_stalled(); every poll is compared with a reference FIFO queue with duplicate suppression (which task is polled, wake_count(), completion flag), instrumented futures flag poll-after-ready and re-entrant polls, stalls are checked for genuinely waiting tasks, results must be delivered exactly once; evaluations = task systems run; distinct_nontrivial = distinct (system, poll order) pairs in which some task was polled more than once".into();
    let quick = ctx.quick();
    // exhaustive spaces
    let a1 = alphabet(1, true); // 8 actions
    let a2 = alphabet(2, false); // 8 actions, two channels
    explore_space(&ctx, "2tasks_le3_fullalpha_1chan", &all_scripts(&a1, 3), 2); // 585^2
    explore_space(&ctx, "3tasks_le2_2chan", &all_scripts(&a2, 2), 3); // 73^3
    if !quick {
        explore_space(&ctx, "3tasks_le2_fullalpha_1chan", &all_scripts(&a1, 2), 3);
        explore_space(&ctx, "2tasks_le4_2chan", &all_scripts(&a2, 4), 2); // 4681^2 = 21.9M
        let small = vec![Act::YieldRef, Act::YieldTwice, Act::Wait(0), Act::Signal(0), Act::Spawn, Act::Stash];
        explore_space(&ctx, "4tasks_le2_small", &all_scripts(&small, 2), 4); // 43^4 = 3.4M
        explore_space(&ctx, "3tasks_le3_small", &all_scripts(&small, 3), 3); // 259^3 = 17M
    }
    *ctx.exhaustive.lock().unwrap() = Some(true);
    random_systems(&ctx, if quick { 100_000 } else { 2_000_000 });

    // Miri results gathered by ./check (the interpreter is run as a separate process)
    if let Some(path) = miri_report {
        match std::fs::read_to_string(&path) {
            Ok(text) => {
                let ok = text.lines().filter(|l| l.starts_with("MIRI-SLICE-OK")).count();
                let mut systems = 0i64;
                for l in text.lines().filter(|l| l.starts_with("MIRI-SLICE-OK")) {
                    if let Some(p) = l.split("systems=").nth(1) {
                        systems += p.split_whitespace().next().unwrap_or("0").parse::<i64>().unwrap_or(0);
                    }
                }
                ctx.count("miri_shards_clean", ok as i64);
                ctx.count("miri_systems_interpreted", systems);
                let bad: Vec<&str> = text
                    .lines()
                    .filter(|l| {
                        l.contains("Undefined Behavior")
                            || l.contains("MIRI-SLICE-VIOLATION")
                            || l.contains("memory leaked")
                            || l.starts_with("error")
                    })
                    .collect();
                if !bad.is_empty() {
                    ctx.violation(
                        format!("miri:{}", sig(bad[0])),
                        format!("Miri reported a problem while interpreting the executor:\n{text}"),
                    );
                } else if ok == 0 {
                    ctx.inconclusive.fetch_add(1, std::sync::atomic::Ordering::Relaxed);
                    println!("INCONCLUSIVE: Miri slice produced no result (see {path})");
                    ctx.set_extra("miri", J::s("inconclusive: no shard finished"));
                } else {
                    ctx.set_extra("miri", J::s(format!("{ok} shard(s) interpreted without UB, leak or monitor violation")));
                }
            }
            Err(_) => {
                ctx.set_extra("miri", J::s("not run"));
            }
        }
    }
    ctx.assume("single thread; wakers never leave the thread (the crate's documented contract)");
    ctx.assume("Miri covers only the small slice listed under miri_systems_interpreted");
    let rc = report::finish(&ctx);
    std::process::exit(rc);
}
