//! The stock `yash3` shell built inside the harness workspace.
fn main() {
    yash_cli::main()
}
