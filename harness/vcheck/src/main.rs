//! vcheck — runtime monitors for the properties C01..C20 of yash-rs.
//!
//! usage: vcheck <ID> --tier quick|thorough --seed N [--replay PATH]
//!        vcheck sh [-V] args...        (run the harness shell on the virtual system, for debugging)
//!        vcheck real-shell args...     (run the harness shell on the real system: R back-end)

mod sched;
mod util;
mod vsh;
mod known;
mod report;
mod checks;
mod models;

use util::{Ctx, J, Tier};

fn main() {
    let args: Vec<String> = std::env::args().collect();
    if args.len() < 2 {
        eprintln!("usage: vcheck <ID>|sh|real-shell ...");
        std::process::exit(2);
    }
    match args[1].as_str() {
        "sh" => {
            debug_sh(&args[2..]);
            return;
        }
        "dump-c01" => {
            checks::c01::dump(args[2].parse().unwrap_or(10), args.get(3).and_then(|s| s.parse().ok()).unwrap_or(1));
            return;
        }
        "dump-ctl" => {
            checks::c02::dump(&args[2], args[3].parse().unwrap_or(10), args.get(4).and_then(|s| s.parse().ok()).unwrap_or(1));
            return;
        }
        "real-shell" => {
            checks::real::real_shell_main(args[2..].to_vec());
        }
        _ => {}
    }
    let id = args[1].clone();
    let mut tier = match std::env::var("VERIF_TIER").as_deref() {
        Ok("thorough") => Tier::Thorough,
        _ => Tier::Quick,
    };
    let mut seed: u64 = std::env::var("VERIF_SEED")
        .ok()
        .and_then(|s| s.parse().ok())
        .unwrap_or(1);
    let mut replay = None;
    let mut i = 2;
    while i < args.len() {
        match args[i].as_str() {
            "--tier" => {
                i += 1;
                tier = if args[i] == "thorough" {
                    Tier::Thorough
                } else {
                    Tier::Quick
                };
            }
            "--seed" => {
                i += 1;
                seed = args[i].parse().unwrap_or(1);
            }
            "--replay" => {
                i += 1;
                replay = Some(args[i].clone());
            }
            _ => {}
        }
        i += 1;
    }
    util::install_panic_hook();
    let mut ctx = Ctx::new(&id, tier, seed);
    ctx.replay = replay;
    let found = checks::run(&mut ctx);
    if !found {
        eprintln!("unknown property id {id}");
        std::process::exit(2);
    }
    std::process::exit(report::finish(&ctx));
}

fn debug_sh(args: &[String]) {
    let mut a = vec!["yash".to_string()];
    let mut strat = sched::Strategy::Fifo;
    let mut rest = args;
    if let Some(f) = rest.first() {
        if let Some(seed) = f.strip_prefix("--random=") {
            strat = sched::Strategy::Random {
                seed: seed.parse().unwrap_or(1),
                preempt_pct: 30,
                max_preempt: 50,
            };
            rest = &rest[1..];
        }
    }
    let mut inject: Option<u64> = None;
    let mut feed_lines = false;
    while let Some(f) = rest.first() {
        if let Some(n) = f.strip_prefix("--inject=") {
            inject = n.parse().ok();
            rest = &rest[1..];
        } else if f == "--feed" {
            feed_lines = true;
            rest = &rest[1..];
        } else {
            break;
        }
    }
    a.extend(rest.iter().cloned());
    let mut cfg = vsh::VCfg::with_args(a);
    if let Some(at) = inject {
        cfg.on_step = Some(Box::new(move |state, step| {
            if step == at {
                let mut st = state.borrow_mut();
                if let Some(p) = st.processes.get_mut(&yash_env::job::Pid(2)) {
                    let r = p.raise_signal(yash_env::system::r#virtual::SIGUSR1);
                    eprintln!("[inject at step {step}: {r:?}]");
                }
            }
        }));
    }
    cfg.strategy = strat;
    cfg.extra = vsh::v_probes();
    let mut input = Vec::new();
    if !rest.iter().any(|x| x == "-c") {
        use std::io::Read;
        std::io::stdin().read_to_end(&mut input).ok();
    }
    if feed_lines {
        let text = String::from_utf8_lossy(&input).into_owned();
        cfg.stdin_chunks = Some(text.split_inclusive('\n').map(|l| l.as_bytes().to_vec()).collect());
        input = Vec::new();
    }
    cfg.stdin = input;
    cfg.files.push(("/tmp/ff".into(), vsh::FileSpec::Fifo));
    cfg.keep_state = true;
    let out = vsh::run_v(cfg);
    if let Some(st) = &out.state {
        for (pid, p) in st.borrow().processes.iter() {
            eprintln!(
                "process {} ppid={} state={:?} changed={} pending={:?} blocked={:?}",
                pid.0,
                p.ppid().0,
                p.state(),
                p.state_has_changed(),
                p.pending_signals(),
                p.blocked_signals()
            );
            for (fd, b) in p.fds() {
                let ofd = b.open_file_description.borrow();
                let ino = ofd.inode().borrow();
                eprintln!(
                    "    fd {} ofd={:p} nonblocking={} r={} w={} inode={:p} type={:?} size={}",
                    fd.0,
                    std::rc::Rc::as_ptr(&b.open_file_description),
                    ofd.is_nonblocking(),
                    ofd.is_readable(),
                    ofd.is_writable(),
                    std::rc::Rc::as_ptr(ofd.inode()),
                    ino.body.r#type(),
                    ino.body.size()
                );
            }
        }
    }
    print!("{}", out.out());
    eprint!("{}", out.err());
    for e in &out.events {
        eprintln!("[{}] {} {:?} ?={}", e.pid, e.kind, e.args, e.status);
    }
    eprintln!(
        "end={:?} status={:?} steps={} choices={} preempts={} zombies={:?} alive={:?}",
        out.end,
        out.status,
        out.steps,
        out.choices.len(),
        out.preempts,
        out.zombies,
        out.alive
    );
}
