//! Evidence file + verdict lines (shared by vcheck and execmon).
use crate::util::{Ctx, J, Tier};

/// Write evidence, print verdict lines, return the exit code.
pub fn finish(ctx: &Ctx) -> i32 {
    let known = crate::known::load();
    let viols = ctx.violations.lock().unwrap();
    let mut unknown = 0;
    let mut printed_known = std::collections::BTreeSet::new();
    let verif_dir = std::env::var("VERIF_OUT")
        .or_else(|_| std::env::var("VERIF_DIR"))
        .unwrap_or_else(|_| "/verif".into());
    let replay_dir = format!("{verif_dir}/replay/{}", ctx.id);
    let mut shown = 0;
    // witnesses of an earlier run with the same tier and seed are stale
    if let Ok(rd) = std::fs::read_dir(&replay_dir) {
        let prefix = format!("{}-{}-", tier_name(ctx.tier), ctx.seed);
        for e in rd.flatten() {
            if e.file_name().to_string_lossy().starts_with(&prefix) {
                std::fs::remove_file(e.path()).ok();
            }
        }
    }
    for (n, v) in viols.iter().enumerate() {
        if let Some(k) = known.iter().find(|k| k.matches(&ctx.id, &v.signature)) {
            if printed_known.insert(k.signature.clone()) {
                println!("KNOWN-FINDING: property={} {} [{}]", ctx.id, k.what, k.signature);
            }
            continue;
        }
        unknown += 1;
        if shown < 20 {
            shown += 1;
            std::fs::create_dir_all(&replay_dir).ok();
            let path = format!("{replay_dir}/{}-{}-{}.txt", tier_name(ctx.tier), ctx.seed, n);
            let body = format!(
                "property={}\ntier={}\nseed={}\nsignature={}\n---\n{}\n",
                ctx.id,
                tier_name(ctx.tier),
                ctx.seed,
                v.signature,
                v.detail
            );
            std::fs::write(&path, body).ok();
            println!("VIOLATION property={} replay={}", ctx.id, path);
            println!("  signature: {}", v.signature);
        }
    }
    {
        let mut by_sig: std::collections::BTreeMap<&str, usize> = Default::default();
        for v in viols.iter() {
            *by_sig.entry(v.signature.as_str()).or_insert(0) += 1;
        }
        for (s, n) in by_sig {
            println!("  violations by signature: {n:6} x {s}");
        }
    }
    let evals = ctx.evaluations.load(std::sync::atomic::Ordering::Relaxed);
    let inconcl = ctx.inconclusive.load(std::sync::atomic::Ordering::Relaxed);
    let nontrivial = ctx.nontrivial_count();
    let mut coverage: Vec<(String, J)> = vec![
        ("evaluations".into(), J::I(evals as i64)),
        ("distinct_nontrivial".into(), J::I(nontrivial as i64)),
        ("rule".into(), J::s(ctx.rule.clone())),
    ];
    // samples are filled below
    let samples = ctx_samples(ctx);
    coverage.push(("samples".into(), J::A(samples)));
    if let Some(e) = *ctx.exhaustive.lock().unwrap() {
        coverage.push(("exhaustive".into(), J::B(e)));
    }
    coverage.push(("inconclusive".into(), J::I(inconcl as i64)));
    coverage.push((
        "skipped_unspecified".into(),
        J::I(ctx.skipped_unspecified.load(std::sync::atomic::Ordering::Relaxed) as i64),
    ));
    for (k, v) in ctx.counters.lock().unwrap().iter() {
        coverage.push((k.clone(), J::I(*v)));
    }
    for (k, v) in ctx.extra.lock().unwrap().iter() {
        coverage.push((k.clone(), v.clone()));
    }
    coverage.push((
        "known_findings_reobserved".into(),
        J::arr_s(printed_known.iter().cloned()),
    ));
    let ev = J::obj(vec![
        ("property_id", J::s(ctx.id.clone())),
        ("tier", J::s(tier_name(ctx.tier))),
        ("seed", J::I(ctx.seed as i64)),
        ("level", J::s(ctx.level)),
        ("coverage", J::O(coverage)),
        (
            "assumptions",
            J::arr_s(ctx.assumptions.lock().unwrap().iter().cloned()),
        ),
        ("wall_s", J::F(ctx.elapsed())),
        ("violations", J::I(unknown as i64)),
    ]);
    let harness_ok = evals > 0 && nontrivial >= 2;
    if ctx.replay.is_none() {
        std::fs::create_dir_all(format!("{verif_dir}/evidence")).ok();
        let path = format!("{verif_dir}/evidence/{}.json", ctx.id);
        if harness_ok || unknown > 0 {
            std::fs::write(&path, ev.render() + "\n").expect("write evidence");
        }
    }
    println!(
        "{}: tier={} seed={} evaluations={} distinct_nontrivial={} inconclusive={} violations={} known={} wall={:.1}s",
        ctx.id,
        tier_name(ctx.tier),
        ctx.seed,
        evals,
        nontrivial,
        inconcl,
        unknown,
        printed_known.len(),
        ctx.elapsed()
    );
    for (k, v) in ctx.counters.lock().unwrap().iter() {
        println!("  {k} = {v}");
    }
    if unknown > 0 {
        return 1;
    }
    if ctx.replay.is_some() {
        return 0;
    }
    if !harness_ok {
        println!("INCONCLUSIVE: the check observed nothing (evaluations={evals}, nontrivial={nontrivial})");
        return 2;
    }
    if inconcl * 100 > evals.max(1) {
        println!("INCONCLUSIVE: {inconcl} of {evals} cases were inconclusive (>1%)");
        return 2;
    }
    0
}

fn ctx_samples(ctx: &Ctx) -> Vec<J> {
    ctx.take_samples()
}

fn tier_name(t: Tier) -> &'static str {
    match t {
        Tier::Quick => "quick",
        Tier::Thorough => "thorough",
    }
}

