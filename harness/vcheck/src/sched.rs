//! Scheduler: our own `Executor` for virtual processes.
//!
//! A *schedule* is the sequence of choices made at choice points:
//!  * which runnable task to poll next (arity = number of runnable tasks, only when >= 2);
//!  * at a preemption point (hook in yash-env, feature verif-hooks): preempt or not (arity 2),
//!    offered only while the preemption budget lasts and another task is runnable.
//!
//! The system is deterministic given the choice vector, so replay = same choice vector.

use std::cell::RefCell;
use std::collections::VecDeque;
use std::future::Future;
use std::pin::Pin;
use std::rc::Rc;
use std::sync::atomic::{AtomicBool, Ordering};
use std::sync::{Arc, Mutex};
use std::task::{Context, Poll, Wake, Waker};
use yash_env::system::r#virtual::Executor;

use crate::util::Rng;

#[derive(Clone, Debug)]
pub enum Strategy {
    /// What the repository's test suite sees: strict FIFO, never preempt.
    Fifo,
    /// Random task choice; preempt with probability `preempt_pct`% at each preemption point
    /// (at most `max_preempt` times per run).
    Random {
        seed: u64,
        preempt_pct: u32,
        max_preempt: u32,
    },
    /// Follow `prefix`, then choose 0 (FIFO / no preempt). Used by the DFS driver and for replay.
    Script {
        prefix: Vec<u32>,
        max_preempt: u32,
    },
}

type Task = Pin<Box<dyn Future<Output = ()>>>;

struct Shared {
    queue: Mutex<VecDeque<usize>>,
}

struct TaskWaker {
    id: usize,
    queued: AtomicBool,
    shared: Arc<Shared>,
}

impl Wake for TaskWaker {
    fn wake(self: Arc<Self>) {
        self.wake_by_ref()
    }
    fn wake_by_ref(self: &Arc<Self>) {
        if !self.queued.swap(true, Ordering::SeqCst) {
            self.shared.queue.lock().unwrap().push_back(self.id);
        }
    }
}

pub struct Inner {
    tasks: Vec<Option<Task>>,
    wakers: Vec<Arc<TaskWaker>>,
    strategy: Strategy,
    rng: Rng,
    /// (choice, arity) at each choice point
    pub choices: Vec<(u32, u32)>,
    pub preempts: u32,
    pub preempt_offers: u32,
    pub steps: u64,
    /// task ids in poll order (with a marker for preemptions) – the schedule trace
    pub trace: Vec<u32>,
    current: Option<usize>,
    /// set by a preempt: the next scheduling choice must not be this task
    avoid: Option<usize>,
    pub spawned: usize,
    /// process creations requested by the code under test so far
    pub spawn_calls: usize,
    /// fault injection: the process creation with this index fails (fork reports EAGAIN)
    pub fail_spawn: Option<usize>,
}

#[derive(Clone)]
pub struct Sched {
    pub inner: Rc<RefCell<Inner>>,
    shared: Arc<Shared>,
}

impl std::fmt::Debug for Sched {
    fn fmt(&self, f: &mut std::fmt::Formatter<'_>) -> std::fmt::Result {
        f.write_str("Sched")
    }
}

impl Executor for Sched {
    fn spawn(&self, task: Task) -> Result<(), Box<dyn std::error::Error>> {
        {
            let mut i = self.inner.borrow_mut();
            let k = i.spawn_calls;
            i.spawn_calls += 1;
            if i.fail_spawn == Some(k) {
                return Err("verif: injected process-creation failure".into());
            }
        }
        self.add(task);
        Ok(())
    }
}

#[derive(Clone, Copy, Debug, PartialEq, Eq)]
pub enum StepResult {
    Polled,
    /// nothing is runnable
    Stalled,
}

impl Sched {
    pub fn new(strategy: Strategy) -> Sched {
        let seed = match &strategy {
            Strategy::Random { seed, .. } => *seed,
            _ => 0,
        };
        Sched {
            inner: Rc::new(RefCell::new(Inner {
                tasks: Vec::new(),
                wakers: Vec::new(),
                strategy,
                rng: Rng::new(seed),
                choices: Vec::new(),
                preempts: 0,
                preempt_offers: 0,
                steps: 0,
                trace: Vec::new(),
                current: None,
                avoid: None,
                spawned: 0,
                spawn_calls: 0,
                fail_spawn: None,
            })),
            shared: Arc::new(Shared {
                queue: Mutex::new(VecDeque::new()),
            }),
        }
    }

    pub fn add(&self, task: Task) -> usize {
        let mut inner = self.inner.borrow_mut();
        let id = inner.tasks.len();
        inner.tasks.push(Some(task));
        let w = Arc::new(TaskWaker {
            id,
            queued: AtomicBool::new(false),
            shared: Arc::clone(&self.shared),
        });
        w.wake_by_ref();
        inner.wakers.push(w);
        inner.spawned += 1;
        id
    }

    fn choose(inner: &mut Inner, arity: u32) -> u32 {
        debug_assert!(arity >= 2);
        let idx = inner.choices.len();
        let c = match &inner.strategy {
            Strategy::Fifo => 0,
            Strategy::Random { .. } => inner.rng.below(arity as u64) as u32,
            Strategy::Script { prefix, .. } => {
                if idx < prefix.len() {
                    prefix[idx].min(arity - 1)
                } else {
                    0
                }
            }
        };
        inner.choices.push((c, arity));
        c
    }

    /// Called from the preemption hook. Returns true to preempt.
    pub fn preempt_here(&self, _site: &'static str) -> bool {
        let Ok(mut inner) = self.inner.try_borrow_mut() else {
            return false;
        };
        let inner = &mut *inner;
        let Some(cur) = inner.current else {
            return false;
        };
        // Preempting is pointless unless another task can run.
        let others = {
            let q = self.shared.queue.lock().unwrap();
            q.iter().any(|&t| t != cur)
        };
        if !others {
            return false;
        }
        let (max_preempt, random_pct) = match &inner.strategy {
            Strategy::Fifo => return false,
            Strategy::Random {
                preempt_pct,
                max_preempt,
                ..
            } => (*max_preempt, Some(*preempt_pct)),
            Strategy::Script { max_preempt, .. } => (*max_preempt, None),
        };
        if inner.preempts >= max_preempt {
            return false;
        }
        inner.preempt_offers += 1;
        let yes = match random_pct {
            Some(p) => inner.rng.below(100) < p as u64,
            None => Self::choose(inner, 2) == 1,
        };
        if yes {
            inner.preempts += 1;
            inner.avoid = Some(cur);
            inner.trace.push(u32::MAX);
        }
        yes
    }

    /// Poll one runnable task chosen by the strategy.
    pub fn step(&self) -> StepResult {
        // pick
        let (id, mut task, waker) = {
            let mut inner = self.inner.borrow_mut();
            let inner = &mut *inner;
            let mut q = self.shared.queue.lock().unwrap();
            // drop finished tasks from queue
            q.retain(|&t| inner.tasks[t].is_some());
            if q.is_empty() {
                return StepResult::Stalled;
            }
            let avoid = inner.avoid.take();
            let cands: Vec<usize> = (0..q.len())
                .filter(|&i| Some(q[i]) != avoid || q.len() == 1)
                .collect();
            let pos = if cands.len() >= 2 {
                cands[Self::choose(inner, cands.len() as u32) as usize]
            } else {
                cands[0]
            };
            let id = q.remove(pos).unwrap();
            drop(q);
            inner.wakers[id].queued.store(false, Ordering::SeqCst);
            inner.current = Some(id);
            inner.steps += 1;
            inner.trace.push(id as u32);
            (id, inner.tasks[id].take().unwrap(), Arc::clone(&inner.wakers[id]))
        };
        let waker = Waker::from(waker);
        let mut cx = Context::from_waker(&waker);
        let r = task.as_mut().poll(&mut cx);
        let mut inner = self.inner.borrow_mut();
        inner.current = None;
        match r {
            Poll::Ready(()) => {
                drop(inner);
                drop(task);
            }
            Poll::Pending => inner.tasks[id] = Some(task),
        }
        StepResult::Polled
    }

    pub fn live_tasks(&self) -> usize {
        self.inner.borrow().tasks.iter().filter(|t| t.is_some()).count()
    }

    pub fn is_done(&self, id: usize) -> bool {
        self.inner.borrow().tasks[id].is_none()
    }

    /// Drop all remaining tasks (breaks Rc cycles through the system state).
    pub fn clear(&self) {
        let tasks: Vec<_> = {
            let mut inner = self.inner.borrow_mut();
            inner.tasks.iter_mut().map(|t| t.take()).collect()
        };
        drop(tasks);
        self.shared.queue.lock().unwrap().clear();
    }
}

/// Given the (choice, arity) vector of a finished run, the next DFS prefix, or None if exhausted.
pub fn next_dfs_prefix(choices: &[(u32, u32)]) -> Option<Vec<u32>> {
    let mut i = choices.len();
    while i > 0 {
        i -= 1;
        let (c, a) = choices[i];
        if c + 1 < a {
            let mut p: Vec<u32> = choices[..i].iter().map(|x| x.0).collect();
            p.push(c + 1);
            return Some(p);
        }
    }
    None
}
