//! Small utilities: PRNG, hashing, JSON, parallel map, evidence & verdict plumbing.

use std::collections::{BTreeMap, HashSet};
use std::fmt::Write as _;
use std::panic::{AssertUnwindSafe, catch_unwind};
use std::sync::Mutex;
use std::sync::atomic::{AtomicUsize, Ordering};
use std::time::Instant;

#[derive(Clone, Debug)]
pub struct Rng(u64);

impl Rng {
    pub fn new(seed: u64) -> Rng {
        Rng(seed.wrapping_mul(0x9E3779B97F4A7C15) ^ 0xD1B54A32D192ED03)
    }
    pub fn next(&mut self) -> u64 {
        // splitmix64
        self.0 = self.0.wrapping_add(0x9E3779B97F4A7C15);
        let mut z = self.0;
        z = (z ^ (z >> 30)).wrapping_mul(0xBF58476D1CE4E5B9);
        z = (z ^ (z >> 27)).wrapping_mul(0x94D049BB133111EB);
        z ^ (z >> 31)
    }
    pub fn below(&mut self, n: u64) -> u64 {
        if n == 0 { 0 } else { self.next() % n }
    }
    pub fn range(&mut self, lo: usize, hi_incl: usize) -> usize {
        lo + self.below((hi_incl - lo + 1) as u64) as usize
    }
    pub fn chance(&mut self, pct: u32) -> bool {
        self.below(100) < pct as u64
    }
    pub fn pick<'a, T>(&mut self, xs: &'a [T]) -> &'a T {
        &xs[self.below(xs.len() as u64) as usize]
    }
    pub fn fork(&mut self) -> Rng {
        Rng::new(self.next())
    }
}

pub fn fnv(data: &[u8]) -> u64 {
    let mut h: u64 = 0xcbf29ce484222325;
    for b in data {
        h ^= *b as u64;
        h = h.wrapping_mul(0x100000001b3);
    }
    h
}

pub fn fnv_str(s: &str) -> u64 {
    fnv(s.as_bytes())
}

// ---------------------------------------------------------------- JSON

#[derive(Clone, Debug, PartialEq)]
pub enum J {
    Null,
    B(bool),
    I(i64),
    F(f64),
    S(String),
    A(Vec<J>),
    O(Vec<(String, J)>),
}

impl J {
    pub fn s<T: Into<String>>(x: T) -> J {
        J::S(x.into())
    }
    pub fn obj<K: Into<String>>(kv: Vec<(K, J)>) -> J {
        J::O(kv.into_iter().map(|(k, v)| (k.into(), v)).collect())
    }
    pub fn arr_s<I: IntoIterator<Item = String>>(it: I) -> J {
        J::A(it.into_iter().map(J::S).collect())
    }
    pub fn render(&self) -> String {
        let mut out = String::new();
        self.write(&mut out, 0);
        out
    }
    fn write(&self, out: &mut String, ind: usize) {
        match self {
            J::Null => out.push_str("null"),
            J::B(b) => write!(out, "{b}").unwrap(),
            J::I(i) => write!(out, "{i}").unwrap(),
            J::F(f) => {
                if f.is_finite() {
                    write!(out, "{f:.3}").unwrap()
                } else {
                    out.push_str("0")
                }
            }
            J::S(s) => json_str(s, out),
            J::A(a) => {
                if a.is_empty() {
                    out.push_str("[]");
                    return;
                }
                out.push_str("[\n");
                for (i, x) in a.iter().enumerate() {
                    out.push_str(&" ".repeat(ind + 1));
                    x.write(out, ind + 1);
                    if i + 1 < a.len() {
                        out.push(',');
                    }
                    out.push('\n');
                }
                out.push_str(&" ".repeat(ind));
                out.push(']');
            }
            J::O(o) => {
                if o.is_empty() {
                    out.push_str("{}");
                    return;
                }
                out.push_str("{\n");
                for (i, (k, v)) in o.iter().enumerate() {
                    out.push_str(&" ".repeat(ind + 1));
                    json_str(k, out);
                    out.push_str(": ");
                    v.write(out, ind + 1);
                    if i + 1 < o.len() {
                        out.push(',');
                    }
                    out.push('\n');
                }
                out.push_str(&" ".repeat(ind));
                out.push('}');
            }
        }
    }
}

fn json_str(s: &str, out: &mut String) {
    out.push('"');
    for c in s.chars() {
        match c {
            '"' => out.push_str("\\\""),
            '\\' => out.push_str("\\\\"),
            '\n' => out.push_str("\\n"),
            '\r' => out.push_str("\\r"),
            '\t' => out.push_str("\\t"),
            c if (c as u32) < 0x20 || c == '\u{7f}' => write!(out, "\\u{:04x}", c as u32).unwrap(),
            c => out.push(c),
        }
    }
    out.push('"');
}

pub fn lossy(b: &[u8]) -> String {
    String::from_utf8_lossy(b).into_owned()
}

// ---------------------------------------------------------------- run context

#[derive(Clone, Copy, Debug, PartialEq, Eq)]
pub enum Tier {
    Quick,
    Thorough,
}

pub struct Violation {
    /// short signature used to match known findings
    pub signature: String,
    /// human-readable witness (goes into the replay file)
    pub detail: String,
}

/// Collects what a check observed; written to evidence/<id>.json at the end.
pub struct Ctx {
    pub id: String,
    pub tier: Tier,
    pub seed: u64,
    pub start: Instant,
    pub level: &'static str,
    pub rule: String,
    pub evaluations: AtomicUsize,
    pub inconclusive: AtomicUsize,
    pub skipped_unspecified: AtomicUsize,
    nontrivial: Mutex<HashSet<u64>>,
    samples: Mutex<Vec<J>>,
    pub violations: Mutex<Vec<Violation>>,
    pub counters: Mutex<BTreeMap<String, i64>>,
    pub extra: Mutex<Vec<(String, J)>>,
    pub assumptions: Mutex<Vec<String>>,
    pub exhaustive: Mutex<Option<bool>>,
    pub max_samples: usize,
    pub threads: usize,
    /// replay mode: only this case is run
    pub replay: Option<String>,
}

impl Ctx {
    pub fn new(id: &str, tier: Tier, seed: u64) -> Ctx {
        let threads = std::env::var("VERIF_JOBS")
            .ok()
            .and_then(|s| s.parse().ok())
            .unwrap_or_else(|| {
                std::thread::available_parallelism()
                    .map(|n| n.get())
                    .unwrap_or(4)
            });
        Ctx {
            id: id.to_string(),
            tier,
            seed,
            start: Instant::now(),
            level: "exploration",
            rule: String::new(),
            evaluations: AtomicUsize::new(0),
            inconclusive: AtomicUsize::new(0),
            skipped_unspecified: AtomicUsize::new(0),
            nontrivial: Mutex::new(HashSet::new()),
            samples: Mutex::new(Vec::new()),
            violations: Mutex::new(Vec::new()),
            counters: Mutex::new(BTreeMap::new()),
            extra: Mutex::new(Vec::new()),
            assumptions: Mutex::new(Vec::new()),
            exhaustive: Mutex::new(None),
            max_samples: 12,
            threads,
            replay: None,
        }
    }
    pub fn quick(&self) -> bool {
        self.tier == Tier::Quick
    }
    pub fn eval(&self) {
        self.evaluations.fetch_add(1, Ordering::Relaxed);
    }
    pub fn evals(&self, n: usize) {
        self.evaluations.fetch_add(n, Ordering::Relaxed);
    }
    pub fn nontrivial(&self, key: u64) {
        self.nontrivial.lock().unwrap().insert(key);
    }
    pub fn nontrivial_str(&self, key: &str) {
        self.nontrivial(fnv_str(key));
    }
    pub fn nontrivial_count(&self) -> usize {
        self.nontrivial.lock().unwrap().len()
    }
    pub fn count(&self, key: &str, n: i64) {
        *self.counters.lock().unwrap().entry(key.to_string()).or_insert(0) += n;
    }
    pub fn count_max(&self, key: &str, n: i64) {
        let mut c = self.counters.lock().unwrap();
        let e = c.entry(key.to_string()).or_insert(n);
        if *e < n {
            *e = n;
        }
    }
    pub fn sample(&self, j: J) {
        let mut s = self.samples.lock().unwrap();
        if s.len() < self.max_samples {
            s.push(j);
        }
    }
    /// Keep a sample with probability ~1/every, bounded.
    pub fn sample_sparse(&self, n: usize, every: usize, f: impl FnOnce() -> J) {
        if n % every.max(1) == 0 {
            let full = self.samples.lock().unwrap().len() >= self.max_samples;
            if !full {
                self.sample(f());
            }
        }
    }
    pub fn take_samples(&self) -> Vec<J> {
        self.samples.lock().unwrap().clone()
    }
    pub fn violation(&self, signature: impl Into<String>, detail: impl Into<String>) {
        // at most 10 witnesses per signature, so that a frequent (e.g. known) one cannot crowd out others
        let signature = signature.into();
        let mut v = self.violations.lock().unwrap();
        let same = v.iter().filter(|x| x.signature == signature).count();
        if same < 10 && v.len() < 2000 {
            v.push(Violation {
                signature,
                detail: detail.into(),
            });
        }
    }
    pub fn violation_count(&self) -> usize {
        self.violations.lock().unwrap().len()
    }
    pub fn assume(&self, s: &str) {
        let mut a = self.assumptions.lock().unwrap();
        if !a.iter().any(|x| x == s) {
            a.push(s.to_string());
        }
    }
    pub fn set_extra(&self, k: &str, v: J) {
        let mut e = self.extra.lock().unwrap();
        e.retain(|(kk, _)| kk != k);
        e.push((k.to_string(), v));
    }
    pub fn elapsed(&self) -> f64 {
        self.start.elapsed().as_secs_f64()
    }

    /// Run `f(i)` for i in 0..n on all cores. A panic inside `f` is caught and reported through
    /// `on_panic(i, msg)` (the property-specific code decides whether it is a violation).
    pub fn par_for(
        &self,
        n: usize,
        f: impl Fn(usize) + Sync,
        on_panic: impl Fn(usize, String) + Sync,
    ) {
        let next = AtomicUsize::new(0);
        let nthreads = self.threads.min(n.max(1));
        std::thread::scope(|s| {
            for _ in 0..nthreads {
                std::thread::Builder::new()
                    .stack_size(256 << 20)
                    .spawn_scoped(s, || {
                        loop {
                            let i = next.fetch_add(1, Ordering::Relaxed);
                            if i >= n {
                                break;
                            }
                            let r = catch_unwind(AssertUnwindSafe(|| f(i)));
                            if let Err(e) = r {
                                on_panic(i, panic_msg(&e));
                            }
                        }
                    })
                    .unwrap();
            }
        });
    }
}

thread_local! {
    pub static LAST_PANIC_LOC: std::cell::RefCell<String> = const { std::cell::RefCell::new(String::new()) };
}

/// Install a panic hook that records the location (so monitors can tell /repo panics from
/// harness panics) and stays quiet.
pub fn install_panic_hook() {
    std::panic::set_hook(Box::new(|info| {
        let loc = info
            .location()
            .map(|l| format!("{}:{}", l.file(), l.line()))
            .unwrap_or_default();
        let msg = if let Some(s) = info.payload().downcast_ref::<&str>() {
            s.to_string()
        } else if let Some(s) = info.payload().downcast_ref::<String>() {
            s.clone()
        } else {
            String::new()
        };
        LAST_PANIC_LOC.with(|l| *l.borrow_mut() = format!("{loc}: {msg}"));
    }));
}

pub fn panic_msg(e: &Box<dyn std::any::Any + Send>) -> String {
    let loc = LAST_PANIC_LOC.with(|l| l.borrow().clone());
    if !loc.is_empty() {
        return loc;
    }
    if let Some(s) = e.downcast_ref::<&str>() {
        s.to_string()
    } else if let Some(s) = e.downcast_ref::<String>() {
        s.clone()
    } else {
        "panic".to_string()
    }
}

/// Is the panic location inside the code under test (as opposed to the harness)?
pub fn panic_in_repo(msg: &str) -> bool {
    msg.starts_with("/repo/") || msg.contains("/repo/yash-") || msg.starts_with("yash-")
}

// ---------------------------------------------------------------- CPU-time watchdog
//
// Non-termination is decided on CPU time consumed by the worker thread on one case (independent
// of machine load), not on wall-clock time.

struct GuardSlot {
    clock: libc::clockid_t,
    start_ns: u128,
    desc: String,
    active: bool,
}

static GUARDS: Mutex<Vec<GuardSlot>> = Mutex::new(Vec::new());

thread_local! {
    static GUARD_IDX: std::cell::Cell<Option<usize>> = const { std::cell::Cell::new(None) };
}

fn thread_cpu_ns(clock: libc::clockid_t) -> u128 {
    let mut ts = libc::timespec { tv_sec: 0, tv_nsec: 0 };
    // SAFETY: plain libc call with a valid out pointer
    unsafe { libc::clock_gettime(clock, &mut ts) };
    ts.tv_sec as u128 * 1_000_000_000 + ts.tv_nsec as u128
}

/// Mark the start of a case on the current thread (for the CPU-time watchdog).
pub fn guard_case(desc: impl FnOnce() -> String) {
    let idx = GUARD_IDX.with(|g| g.get());
    let mut guards = GUARDS.lock().unwrap();
    let idx = match idx {
        Some(i) => i,
        None => {
            let mut clock: libc::clockid_t = 0;
            // SAFETY: pthread_self is always valid for the calling thread
            unsafe { libc::pthread_getcpuclockid(libc::pthread_self(), &mut clock) };
            guards.push(GuardSlot {
                clock,
                start_ns: 0,
                desc: String::new(),
                active: false,
            });
            let i = guards.len() - 1;
            GUARD_IDX.with(|g| g.set(Some(i)));
            i
        }
    };
    let clock = guards[idx].clock;
    guards[idx].start_ns = thread_cpu_ns(clock);
    guards[idx].desc = desc();
    guards[idx].active = true;
}

pub fn unguard_case() {
    if let Some(i) = GUARD_IDX.with(|g| g.get()) {
        GUARDS.lock().unwrap()[i].active = false;
    }
}

/// Start the watchdog: a case that consumes more than `limit_s` seconds of CPU on its thread is a
/// non-termination violation: written to a replay file, reported, and the process exits with 1.
pub fn start_watchdog(property: String, limit_s: u64) {
    std::thread::spawn(move || {
        loop {
            std::thread::sleep(std::time::Duration::from_millis(500));
            let guards = GUARDS.lock().unwrap();
            for g in guards.iter() {
                if !g.active {
                    continue;
                }
                let used = thread_cpu_ns(g.clock).saturating_sub(g.start_ns);
                if used > limit_s as u128 * 1_000_000_000 {
                    let dir = std::env::var("VERIF_OUT").or_else(|_| std::env::var("VERIF_DIR")).unwrap_or_else(|_| "/verif".into());
                    let path = format!("{dir}/replay/{property}/cpu-budget-exceeded.txt");
                    std::fs::create_dir_all(format!("{dir}/replay/{property}")).ok();
                    std::fs::write(
                        &path,
                        format!("property={property}\nsignature=cpu-budget-exceeded\n---\na single case consumed more than {limit_s} s of CPU time on its thread (non-termination):\n{}\n", g.desc),
                    )
                    .ok();
                    println!("VIOLATION property={property} replay={path}");
                    println!("  signature: cpu-budget-exceeded");
                    std::process::exit(1);
                }
            }
        }
    });
}

/// Make the child start with every signal at its default action and nothing blocked, whatever this
/// process inherited from whoever launched the check (`nohup`, a background job of a
/// non-interactive shell, ... leave HUP / INT / QUIT ignored): the verdicts must not depend on it.
pub fn start_with_default_signals(cmd: &mut std::process::Command) {
    use std::os::unix::process::CommandExt;
    // SAFETY: signal(2) and sigprocmask(2) are async-signal-safe; nothing else runs between fork and exec
    unsafe {
        cmd.pre_exec(|| {
            for s in 1..32 {
                if s != libc::SIGKILL && s != libc::SIGSTOP {
                    libc::signal(s, libc::SIG_DFL);
                }
            }
            let mut set: libc::sigset_t = std::mem::zeroed();
            libc::sigemptyset(&mut set);
            libc::sigprocmask(libc::SIG_SETMASK, &set, std::ptr::null_mut());
            Ok(())
        });
    }
}

/// Run a child process in its own process group with its standard input fed from `input`, under a
/// generous wall-clock watchdog (expiry = `Err`, to be counted as inconclusive, never a verdict);
/// whatever is left of the process group is killed afterwards.
pub fn run_child(mut cmd: std::process::Command, input: Option<Vec<u8>>, limit_secs: u64) -> Result<std::process::Output, String> {
    use std::os::unix::process::CommandExt;
    use std::process::Stdio;
    cmd.process_group(0);
    cmd.stdin(if input.is_some() { Stdio::piped() } else { Stdio::null() }).stdout(Stdio::piped()).stderr(Stdio::piped());
    let mut child = cmd.spawn().map_err(|e| e.to_string())?;
    let si = child.stdin.take();
    let t0 = std::thread::spawn(move || {
        if let (Some(mut si), Some(data)) = (si, input) {
            let _ = std::io::Write::write_all(&mut si, &data);
        }
    });
    let mut so = child.stdout.take().unwrap();
    let mut se = child.stderr.take().unwrap();
    let t1 = std::thread::spawn(move || {
        let mut v = Vec::new();
        std::io::Read::read_to_end(&mut so, &mut v).ok();
        v
    });
    let t2 = std::thread::spawn(move || {
        let mut v = Vec::new();
        std::io::Read::read_to_end(&mut se, &mut v).ok();
        v
    });
    let start = std::time::Instant::now();
    let status = loop {
        match child.try_wait() {
            Ok(Some(s)) => break Ok(s),
            Ok(None) => {
                if start.elapsed().as_secs() > limit_secs {
                    // slow (loaded machine) or blocked for ever? A process group that has used
                    // almost no CPU during the whole limit is blocked
                    break Err(match group_cpu_ticks(child.id()) {
                        Some(t) if t < 100 => format!("BLOCKED: still alive after {limit_secs} s having used {t} clock ticks of CPU"),
                        _ => format!("still running after {limit_secs} s (wall-clock watchdog)"),
                    });
                }
                std::thread::sleep(std::time::Duration::from_millis(2));
            }
            Err(e) => break Err(e.to_string()),
        }
    };
    // SAFETY: plain kill(2) on the child's own process group
    let _ = unsafe { libc::kill(-(child.id() as i32), libc::SIGKILL) };
    if status.is_err() {
        let _ = child.kill();
        let _ = child.wait();
    }
    let _ = t0.join();
    let stdout = t1.join().unwrap_or_default();
    let stderr = t2.join().unwrap_or_default();
    status.map(|status| std::process::Output { status, stdout, stderr })
}

/// CPU time (clock ticks, user + system) used so far by the live processes of a process group.
pub fn group_cpu_ticks(pgid: u32) -> Option<u64> {
    let mut total = 0u64;
    let mut seen = false;
    for e in std::fs::read_dir("/proc").ok()?.flatten() {
        let name = e.file_name();
        let Some(pid) = name.to_str().and_then(|s| s.parse::<u32>().ok()) else { continue };
        let Ok(stat) = std::fs::read_to_string(format!("/proc/{pid}/stat")) else { continue };
        let Some(rest) = stat.rsplit_once(") ").map(|x| x.1) else { continue };
        let f: Vec<&str> = rest.split(' ').collect();
        // rest[0]=state [1]=ppid [2]=pgrp ... [11]=utime [12]=stime
        if f.len() > 12 && f[2].parse::<u32>().ok() == Some(pgid) {
            seen = true;
            total += f[11].parse::<u64>().unwrap_or(0) + f[12].parse::<u64>().unwrap_or(0);
        }
    }
    seen.then_some(total)
}
