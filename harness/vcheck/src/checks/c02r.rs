//! C02, real-system slice: the `PATH` step of command search.
//!
//! The virtual system cannot run external utilities, so the last step of the search order
//! (special built-in, function, other built-in, `PATH`) is exercised here on the real system:
//! a scratch directory holds three `PATH` directories p1 p2 p3, each containing for the command
//! name either nothing, a *directory* of that name, a regular file without execute permission, or
//! an executable script exiting with a status of its own. Oracle: the first executable regular
//! file in `PATH` order runs (its status and output); a function of the same name wins over
//! `PATH`; a name containing a slash is not searched.

use crate::util::{Ctx, J, Rng};
use std::os::unix::fs::PermissionsExt;

#[derive(Clone, Copy, PartialEq, Debug)]
enum Entry {
    Nothing,
    Directory,
    NotExecutable,
    Script(u8),
}

/// Creating an executable file and spawning a process must not overlap between threads: a child
/// forked by another thread would hold the script open for writing until its exec, and running the
/// script in that window fails with ETXTBSY.
static SPAWN_LOCK: std::sync::Mutex<()> = std::sync::Mutex::new(());

pub fn run(ctx: &Ctx) {
    let n = if ctx.quick() { 400 } else { 4000 };
    let seed = ctx.seed;
    let base = std::fs::canonicalize(std::env::temp_dir()).unwrap_or_else(|_| "/tmp".into());
    let pid = std::process::id();
    let base = &base;
    ctx.par_for(
        n,
        |i| {
            let mut rng = Rng::new(seed.wrapping_mul(0xC02).wrapping_add(i as u64));
            let dir = base.join(format!("verif-c02r-{pid}-{i}"));
            let _ = std::fs::remove_dir_all(&dir);
            let mut entries = [Entry::Nothing; 3];
            for (k, e) in entries.iter_mut().enumerate() {
                *e = match rng.below(5) {
                    0 => Entry::Nothing,
                    1 | 2 => Entry::Directory,
                    3 => Entry::NotExecutable,
                    _ => Entry::Script(10 + k as u8 * 10 + rng.below(5) as u8),
                };
            }
            // at least one executable somewhere in most cases
            if rng.chance(70) && !entries.iter().any(|e| matches!(e, Entry::Script(_))) {
                entries[2] = Entry::Script(33);
            }
            let name = *rng.pick(&["cmdx", "my-tool", "x.y"]);
            // XBD 8.3: a zero-length PATH component (leading colon, two adjacent colons, trailing colon)
            // names the current working directory; 0 = no such component
            let empty_at = if rng.chance(50) { rng.range(1, 4) } else { 0 };
            let cwd_entry = if empty_at == 0 {
                Entry::Nothing
            } else {
                match rng.below(4) {
                    0 => Entry::Nothing,
                    1 => Entry::NotExecutable,
                    _ => Entry::Script(70 + rng.below(5) as u8),
                }
            };
            // other spellings of a component: relative to the working directory, with a trailing slash
            let relative = rng.chance(30);
            let setup = || -> std::io::Result<()> {
                for (k, e) in entries.iter().enumerate() {
                    let p = dir.join(format!("p{}", k + 1));
                    std::fs::create_dir_all(&p)?;
                    let f = p.join(name);
                    match e {
                        Entry::Nothing => {}
                        Entry::Directory => {
                            std::fs::create_dir(&f)?;
                            std::fs::set_permissions(&f, std::fs::Permissions::from_mode(0o755))?;
                        }
                        Entry::NotExecutable => {
                            std::fs::write(&f, "#!/bin/sh\necho not-executable\nexit 99\n")?;
                            std::fs::set_permissions(&f, std::fs::Permissions::from_mode(0o644))?;
                        }
                        Entry::Script(st) => {
                            std::fs::write(&f, format!("#!/bin/sh\necho ran-p{} \"$@\"\nexit {st}\n", k + 1))?;
                            std::fs::set_permissions(&f, std::fs::Permissions::from_mode(0o755))?;
                        }
                    }
                }
                match cwd_entry {
                    Entry::NotExecutable => {
                        std::fs::write(dir.join(name), "#!/bin/sh\necho not-executable\nexit 99\n")?;
                        std::fs::set_permissions(dir.join(name), std::fs::Permissions::from_mode(0o644))?;
                    }
                    Entry::Script(st) => {
                        std::fs::write(dir.join(name), format!("#!/bin/sh\necho ran-p0 \"$@\"\nexit {st}\n"))?;
                        std::fs::set_permissions(dir.join(name), std::fs::Permissions::from_mode(0o755))?;
                    }
                    _ => {}
                }
                Ok(())
            };
            let guard = SPAWN_LOCK.lock().unwrap();
            let made = setup();
            drop(guard);
            if made.is_err() {
                ctx.inconclusive.fetch_add(1, std::sync::atomic::Ordering::Relaxed);
                let _ = std::fs::remove_dir_all(&dir);
                return;
            }
            // search order: p1 p2 p3 (then /bin:/usr/bin, which do not have the name), with the working
            // directory (reported as p0) where the empty component stands: 1 = first, 2 = between p1 and
            // p2, 3 = last of all
            let mut order: Vec<(usize, Entry)> = entries.iter().enumerate().map(|(k, e)| (k + 1, *e)).collect();
            match empty_at {
                1 => order.insert(0, (0, cwd_entry)),
                2 => order.insert(1, (0, cwd_entry)),
                3 => order.push((0, cwd_entry)),
                _ => {}
            }
            let winner = order.iter().find_map(|(k, e)| if let Entry::Script(st) = e { Some((*k, *st)) } else { None });
            let entries_all: Vec<Entry> = order.iter().map(|x| x.1).collect();
            let with_function = rng.chance(25);
            let mut script = String::new();
            let mut expect = String::new();
            script.push_str(&format!("{name} a b; echo \"st=$?\"\n"));
            match winner {
                Some((k, st)) => expect.push_str(&format!("ran-p{k} a b\nst={st}\n")),
                None => {
                    // not found (127); a file that exists but cannot be executed may give 126
                    expect.push_str(if entries_all.contains(&Entry::NotExecutable) { "st=126|127\n" } else { "st=127\n" });
                }
            }
            // command -v prints the path that would be used
            script.push_str(&format!("command -v {name}; echo \"st=$?\"\n"));
            match winner {
                // (how a path found through an empty or relative component is spelled is not prescribed)
                Some((0, _)) => expect.push_str("<any line>\nst=0\n"),
                Some((_, _)) if relative => expect.push_str("<any line>\nst=0\n"),
                Some((k, _)) => expect.push_str(&format!("{}/p{k}/{name}\nst=0\n", dir.display())),
                None => expect.push_str("st=1\n"),
            }
            if with_function {
                script.push_str(&format!("{name}() {{ echo function \"$@\"; return 5; }}\n{name} c; echo \"st=$?\"\n"));
                expect.push_str("function c\nst=5\n");
                // `command` skips the function
                script.push_str(&format!("command {name} d; echo \"st=$?\"\n"));
                match winner {
                    Some((k, st)) => expect.push_str(&format!("ran-p{k} d\nst={st}\n")),
                    None => expect.push_str(if entries_all.contains(&Entry::NotExecutable) { "st=126|127\n" } else { "st=127\n" }),
                }
            }
            // a name with a slash is used as is
            if let Some(k) = (0..3).find(|k| matches!(entries[*k], Entry::Script(_))) {
                let Entry::Script(st) = entries[k] else { unreachable!() };
                script.push_str(&format!("./p{}/{name} e; echo \"st=$?\"\n", k + 1));
                expect.push_str(&format!("ran-p{} e\nst={st}\n", k + 1));
            }
            // a name with a slash whose prefix is a regular file: nothing to execute, not found (127;
            // the project documents 127 for both ENOENT and ENOTDIR)
            if let Some(k) = (0..3).find(|k| matches!(entries[*k], Entry::Script(_) | Entry::NotExecutable)) {
                script.push_str(&format!("./p{}/{name}/sub f; echo \"st=$?\"\n", k + 1));
                expect.push_str("st=127\n");
            }
            script.push_str("./p1/missing/sub; echo \"st=$?\"\n");
            expect.push_str("st=127\n");
            let exe = std::env::current_exe().unwrap();
            let comp = |k: usize| -> String {
                if relative {
                    match k {
                        1 => "p1".to_string(),
                        2 => "./p2/".to_string(),
                        _ => format!("{}/p2/../p3/", dir.display()),
                    }
                } else {
                    format!("{}/p{k}", dir.display())
                }
            };
            let path = match empty_at {
                1 => format!(":{}:{}:{}:/bin:/usr/bin", comp(1), comp(2), comp(3)),
                2 => format!("{}::{}:{}:/bin:/usr/bin", comp(1), comp(2), comp(3)),
                3 => format!("{}:{}:{}:/bin:/usr/bin:", comp(1), comp(2), comp(3)),
                _ => format!("{}:{}:{}:/bin:/usr/bin", comp(1), comp(2), comp(3)),
            };
            ctx.count(&format!("real_searches_with_empty_component_at_{empty_at}"), 1);
            let guard = SPAWN_LOCK.lock().unwrap();
            let child = std::process::Command::new(exe)
                .args(["real-shell", "-c", &script])
                .current_dir(&dir)
                .env_clear()
                .env("PATH", &path)
                .env("LANG", "C")
                .stdin(std::process::Stdio::null())
                .stdout(std::process::Stdio::piped())
                .stderr(std::process::Stdio::piped())
                .spawn();
            drop(guard);
            let out = child.and_then(|c| c.wait_with_output());
            let _ = std::fs::remove_dir_all(&dir);
            let Ok(out) = out else {
                ctx.inconclusive.fetch_add(1, std::sync::atomic::Ordering::Relaxed);
                return;
            };
            ctx.eval();
            ctx.count("real_system_command_searches", 1);
            let got = String::from_utf8_lossy(&out.stdout).into_owned();
            let ok = {
                let g: Vec<&str> = got.lines().collect();
                let e: Vec<&str> = expect.lines().collect();
                g.len() == e.len() && g.iter().zip(e.iter()).all(|(a, b)| a == b || (*b == "<any line>" && a.ends_with(name)) || (*b == "st=126|127" && (*a == "st=126" || *a == "st=127")))
            };
            if !ok {
                let class = if empty_at != 0 {
                    "empty-component"
                } else if winner.is_some() && entries.iter().take_while(|e| !matches!(e, Entry::Script(_))).any(|e| *e == Entry::Directory) {
                    "directory-before-executable"
                } else if winner.is_some() {
                    "search-order"
                } else {
                    "not-found"
                };
                ctx.violation(
                    format!("real:path-search:{class}"),
                    format!(
                        "real system, PATH={path}, entries p1..p3 hold {entries:?} for `{name}`, the working directory holds {cwd_entry:?}\nscript:\n{script}expected stdout:\n{expect}actual stdout:\n{got}stderr:\n{}",
                        String::from_utf8_lossy(&out.stderr)
                    ),
                );
            } else {
                ctx.nontrivial(crate::util::fnv_str(&format!("{entries:?}{with_function}{empty_at}{cwd_entry:?}{relative}")));
            }
            if i % (n / 3).max(1) == 0 {
                ctx.sample(J::obj(vec![("part", J::s("real-system PATH search")), ("entries", J::s(format!("{entries:?}"))), ("script", J::s(script.clone()))]));
            }
        },
        |i, msg| ctx.violation("harness-panic", format!("real path search {i}: {msg}")),
    );
}
