//! Shared runner for the control-flow family (C02, C10, C16 part B): render a generated program,
//! run it on the virtual system, compare the probe trace (per lane), `$?` at every probe, the
//! final exit status, and (for variable programs) the environments handed to executed programs.

use crate::models::ctl::{self as m, Cmd, Ev};
use crate::sched::Strategy;
use crate::util::{Ctx, Rng};
use crate::vsh;
use std::collections::BTreeMap;

pub struct Prog {
    pub lines: Vec<Cmd>,
    /// install `trap 'probe -s 0 kT' EXIT`
    pub trap: bool,
    /// number of lines after which a line with a syntax error is planted
    pub syntax_error_after: Option<usize>,
    pub with_readonly: bool,
    /// start with `set -m` (job control on: pipelines and subshells get their own process groups)
    pub monitor: bool,
    /// feed the script through standard input (a regular file) while standard error is a terminal:
    /// the shell must still be non-interactive
    pub stdin_tty_stderr: bool,
}

pub const TRAP_ID: u32 = 999_999;

pub fn render(p: &Prog, rng: &mut Rng) -> String {
    let mut s = String::new();
    if p.monitor {
        s.push_str("set -m\n");
    }
    if p.with_readonly {
        s.push_str("readonly ro=1\n");
    }
    if p.trap {
        s.push_str("trap 'probe -s 0 k999999' EXIT\n");
    }
    let mut r = m::Render { rng };
    for (i, l) in p.lines.iter().enumerate() {
        if p.syntax_error_after == Some(i) {
            s.push_str(["probe k999998; fi\n", "probe k999998 ;;\n", "probe k999998; done\n", "if probe k999998; then; fi\n"][i % 4]);
        }
        s.push_str(&r.at(l, 3));
        s.push('\n');
    }
    if p.syntax_error_after == Some(p.lines.len()) {
        s.push_str("probe k999998; }\n");
    }
    s
}

/// static lane of every probe id
fn lanes(c: &Cmd, cur: u32, map: &mut BTreeMap<u32, u32>) {
    match c {
        Cmd::Probe { id, .. }
        | Cmd::ProbeIter { id, .. }
        | Cmd::ProbeVar { id, .. }
        | Cmd::ProbePos { id }
        | Cmd::RedirFail { id }
        | Cmd::ExpansionErr { id } => {
            map.insert(*id, cur);
        }
        Cmd::ProbeBang { id, .. } | Cmd::ProbeS { id, .. } | Cmd::ReadProbe { id, .. } => {
            map.insert(*id, cur);
        }
        Cmd::Async { body, .. } => lanes(body, m::lane_of_stage(cur, body), map),
        Cmd::CmdSubst { body, .. } => lanes(body, cur, map),
        Cmd::Loop { id, body, .. } => {
            map.insert(*id, cur);
            lanes(body, cur, map);
        }
        Cmd::For { body, .. } => lanes(body, cur, map),
        Cmd::Seq(cs) => cs.iter().for_each(|c| lanes(c, cur, map)),
        Cmd::Pipe(stages) => {
            let n = stages.len();
            for (i, s) in stages.iter().enumerate() {
                let l = if i + 1 < n { m::lane_of_stage(cur, s) } else { cur };
                lanes(s, l, map);
            }
        }
        Cmd::AndOr(a, rest) => {
            lanes(a, cur, map);
            rest.iter().for_each(|(_, c)| lanes(c, cur, map));
        }
        Cmd::Not(c) | Cmd::Brace(c) | Cmd::Subshell(c) | Cmd::FuncDef(_, c) | Cmd::Dot { body: c, .. } => lanes(c, cur, map),
        Cmd::If(arms, els) => {
            for (a, b) in arms {
                lanes(a, cur, map);
                lanes(b, cur, map);
            }
            if let Some(e) = els {
                lanes(e, cur, map);
            }
        }
        Cmd::Case { items, .. } => items.iter().for_each(|(_, b)| lanes(b, cur, map)),
        Cmd::Temp { cmd, .. } => lanes(cmd, cur, map),
        _ => {}
    }
}

#[derive(Default)]
pub struct Verdict {
    pub ok: bool,
    pub signature: String,
    pub detail: String,
    pub events: usize,
    pub choices: Vec<(u32, u32)>,
    pub trace_hash: u64,
    pub spawned: usize,
    pub preempts: u32,
    pub steps: u64,
}

#[derive(Clone, Copy, Default)]
pub struct Opts {
    pub compare_execs: bool,
    /// every child of the shell must be dead and reaped when the shell exits
    pub check_reaped: bool,
}

fn fmt_ev(e: &Ev) -> String {
    let st = if e.st == m::NZ { "nonzero".to_string() } else { e.st.to_string() };
    if e.args.is_empty() {
        format!("k{}[$?={st}]", e.id)
    } else {
        format!("k{}{:?}[$?={st}]", e.id, e.args)
    }
}

/// Run the program under `strategy` and compare with the model.
pub fn check(p: &Prog, text: &str, strategy: Strategy, compare_execs: bool) -> Verdict {
    check_opts(
        p,
        text,
        strategy,
        Opts {
            compare_execs,
            check_reaped: false,
        },
    )
}

pub fn check_opts(p: &Prog, text: &str, strategy: Strategy, opts: Opts) -> Verdict {
    let compare_execs = opts.compare_execs;
    let mut v = check_inner(p, text, strategy, opts);
    let _ = compare_execs;
    if !v.ok && v.signature.is_empty() {
        v.signature = "unknown".into();
    }
    v
}

fn check_inner(p: &Prog, text: &str, strategy: Strategy, opts: Opts) -> Verdict {
    let compare_execs = opts.compare_execs;
    // model
    let run_lines: &[Cmd] = match p.syntax_error_after {
        Some(k) => &p.lines[..k],
        None => &p.lines[..],
    };
    let mut want = m::run_program(run_lines, None);
    let reached_end = {
        // did the model run off the end of the lines (as opposed to exit/abort)?
        // re-run with a sentinel: cheap way is to compare with a program that appends a probe
        let mut l2 = run_lines.to_vec();
        l2.push(Cmd::Probe { id: 999_997, st: 0 });
        m::run_program(&l2, None).events.iter().any(|e| e.id == 999_997)
    };
    if p.syntax_error_after.is_some() && reached_end {
        // the shell reaches the line with the syntax error: abort with a non-zero status
        want.status = m::NZ;
    }
    if p.trap {
        want.events.push(Ev {
            lane: 0,
            id: TRAP_ID,
            st: want.status,
            args: vec![],
        });
    }
    // implementation
    let mut cfg = if p.stdin_tty_stderr {
        let mut c = vsh::VCfg::stdin_script(text);
        c.setup = Some(Box::new(|st| {
            if let Ok(f) = st.file_system.get("/dev/stderr") {
                f.borrow_mut().body = yash_env::system::r#virtual::FileBody::Terminal { content: Vec::new() };
            }
        }));
        c
    } else {
        vsh::VCfg::script(text)
    };
    cfg.strategy = strategy;
    cfg.extra = vsh::v_probes();
    cfg.keep_state = compare_execs;
    let out = vsh::run_v(cfg);
    let script_dump = || format!("script:\n{text}\n");
    if out.end != vsh::End::Done {
        return Verdict {
            ok: false,
            signature: format!("no-termination:{:?}", out.end),
            detail: format!("{}the shell did not terminate: {:?} after {} steps\nstderr:\n{}", script_dump(), out.end, out.steps, out.err()),
            events: out.events.len(),
            choices: out.choices.clone(),
            trace_hash: out.trace_hash,
            spawned: out.spawned,
            preempts: out.preempts,
            steps: out.steps,
        };
    }
    // lanes
    let mut lane_of: BTreeMap<u32, u32> = BTreeMap::new();
    for l in &p.lines {
        lanes(l, 0, &mut lane_of);
    }
    lane_of.insert(TRAP_ID, 0);
    let mut got: BTreeMap<u32, Vec<(u32, i32, Vec<String>)>> = BTreeMap::new();
    for e in &out.events {
        let Some(id) = e.args.first().and_then(|a| a.strip_prefix('k')).and_then(|n| n.parse::<u32>().ok()) else {
            return Verdict {
                ok: false,
                signature: "alien-event".into(),
                detail: format!("{}unexpected probe event {:?}", script_dump(), e.args),
                events: out.events.len(),
                choices: out.choices.clone(),
                trace_hash: out.trace_hash,
                spawned: out.spawned,
                preempts: out.preempts,
                steps: out.steps,
            };
        };
        let lane = lane_of.get(&id).copied().unwrap_or(u32::MAX);
        got.entry(lane).or_default().push((id, e.status, e.args[1..].to_vec()));
    }
    let mut exp: BTreeMap<u32, Vec<&Ev>> = BTreeMap::new();
    for e in &want.events {
        exp.entry(e.lane).or_default().push(e);
    }
    let all_lanes: std::collections::BTreeSet<u32> = got.keys().chain(exp.keys()).copied().collect();
    for lane in all_lanes {
        let g = got.get(&lane).cloned().unwrap_or_default();
        let e = exp.get(&lane).cloned().unwrap_or_default();
        let mut i = 0;
        loop {
            match (g.get(i), e.get(i)) {
                (None, None) => break,
                (Some(ge), Some(ee)) if ge.0 == ee.id && m::st_matches(ee.st, ge.1) && ge.2 == ee.args => {}
                // `probe k "$!" "$p"`: both must name the same (non-empty) pid
                (Some(ge), Some(ee))
                    if ge.0 == ee.id
                        && m::st_matches(ee.st, ge.1)
                        && ee.args.first().map(|s| s.as_str()) == Some("<pid>")
                        && ge.2.len() == 2
                        && ge.2[0] == ge.2[1]
                        && !ge.2[0].is_empty() => {}
                (ge, ee) => {
                    let kind = match (ge, ee) {
                        (Some(_), None) => "extra-command-ran".to_string(),
                        (None, Some(_)) => "command-did-not-run".to_string(),
                        (Some(g1), Some(e1)) if g1.0 == e1.id && g1.2 == e1.args => "wrong-$?".to_string(),
                        (Some(g1), Some(e1)) if g1.0 == e1.id => "wrong-value".to_string(),
                        _ => "wrong-order".to_string(),
                    };
                    let exp_s: Vec<String> = e.iter().map(|x| fmt_ev(x)).collect();
                    let got_s: Vec<String> = g
                        .iter()
                        .map(|x| if x.2.is_empty() { format!("k{}[$?={}]", x.0, x.1) } else { format!("k{}{:?}[$?={}]", x.0, x.2, x.1) })
                        .collect();
                    return Verdict {
                        ok: false,
                        signature: kind,
                        detail: format!(
                            "{}lane {lane} (0 = main shell and its sequential subshells), first difference at event #{i}\nPOSIX trace: {}\nyash trace:  {}\nstderr:\n{}",
                            script_dump(),
                            exp_s.join(" "),
                            got_s.join(" "),
                            out.err()
                        ),
                        events: out.events.len(),
                        choices: out.choices.clone(),
                        trace_hash: out.trace_hash,
                        spawned: out.spawned,
                        preempts: out.preempts,
                        steps: out.steps,
                    };
                }
            }
            i += 1;
        }
    }
    match out.exit_code() {
        Some(code) if m::st_matches(want.status, code) => {}
        other => {
            return Verdict {
                ok: false,
                signature: "exit-status".into(),
                detail: format!(
                    "{}trace agrees; exit status of the shell: yash {other:?}, POSIX {}\nstderr:\n{}",
                    script_dump(),
                    if want.status == m::NZ { "non-zero".to_string() } else { want.status.to_string() },
                    out.err()
                ),
                events: out.events.len(),
                choices: out.choices.clone(),
                trace_hash: out.trace_hash,
                spawned: out.spawned,
                preempts: out.preempts,
                steps: out.steps,
            };
        }
    }
    if compare_execs {
        if let Some(state) = &out.state {
            let st = state.borrow();
            let mut got_execs: Vec<Vec<String>> = Vec::new();
            for (_pid, proc_) in st.processes.iter() {
                if let Some((_path, _args, envs)) = proc_.last_exec() {
                    let mut e: Vec<String> = envs
                        .iter()
                        .map(|c| c.to_string_lossy().into_owned())
                        .filter(|s| !s.starts_with("PATH=") && !s.starts_with("PWD=") && !s.starts_with("OLDPWD="))
                        .collect();
                    e.sort();
                    got_execs.push(e);
                }
            }
            if got_execs != want.execs {
                return Verdict {
                    ok: false,
                    signature: "exec-environment".into(),
                    detail: format!(
                        "{}environments handed to `ext` (in order): yash {got_execs:?}, model {:?}",
                        script_dump(),
                        want.execs
                    ),
                    events: out.events.len(),
                    ..Default::default()
                };
            }
        }
        if let Some(state) = out.state {
            state.borrow_mut().executor = None;
        }
    }
    if opts.check_reaped && (!out.zombies.is_empty() || !out.alive.is_empty()) {
        return Verdict {
            ok: false,
            signature: "unreaped-child".into(),
            detail: format!(
                "{}trace and statuses agree, but when the shell exited its children {:?} were dead and unreaped (zombies) and {:?} were still alive, although every job was waited for",
                script_dump(),
                out.zombies,
                out.alive
            ),
            events: out.events.len(),
            choices: out.choices.clone(),
            trace_hash: out.trace_hash,
            spawned: out.spawned,
            preempts: out.preempts,
            steps: out.steps,
        };
    }
    Verdict {
        ok: true,
        signature: String::new(),
        detail: String::new(),
        events: out.events.len(),
        choices: out.choices.clone(),
        trace_hash: out.trace_hash,
        spawned: out.spawned,
        preempts: out.preempts,
        steps: out.steps,
    }
}

/// Common driver: generate `n` programs with `cfg`, run, report.
pub fn drive(
    ctx: &Ctx,
    n: usize,
    cfg: m::GenCfg,
    what: &'static str,
    trap: bool,
    syntax_errors: bool,
    schedules: u32,
    seed_salt: u64,
) {
    let seed = ctx.seed;
    ctx.par_for(
        n,
        |i| {
            let mut rng = Rng::new(seed.wrapping_mul(0x9E37_79B9).wrapping_add(seed_salt).wrapping_add(i as u64));
            let budget = rng.range(6, 40) as i32;
            let nlines = rng.range(1, 5);
            let lines = {
                let mut g = m::Gen::new(&mut rng, cfg, budget);
                g.program(nlines)
            };
            let p = Prog {
                syntax_error_after: (syntax_errors && rng.chance(25)).then(|| rng.range(0, lines.len())),
                lines,
                trap,
                with_readonly: cfg.errors || cfg.vars,
                monitor: cfg.errors && rng.chance(25),
                stdin_tty_stderr: cfg.errors && rng.chance(15),
            };
            let text = render(&p, &mut rng);
            for k in 0..=schedules {
                let strategy = if k == 0 {
                    Strategy::Fifo
                } else {
                    Strategy::Random {
                        seed: rng.next(),
                        preempt_pct: 30,
                        max_preempt: 20,
                    }
                };
                ctx.eval();
                let v = check(&p, &text, strategy.clone(), cfg.vars);
                ctx.count("probe_events_compared", v.events as i64);
                if !v.ok {
                    ctx.violation(
                        format!("{what}:{}", v.signature),
                        format!("{what} program #{i} (schedule {strategy:?})\n{}", v.detail),
                    );
                    break;
                }
            }
            let mut paths = Vec::new();
            for l in &p.lines {
                m::nesting_paths(l, &mut Vec::new(), &mut paths);
            }
            for pth in paths {
                ctx.nontrivial_str(&pth);
            }
            if i % (n / 6).max(1) == 0 {
                ctx.sample(crate::util::J::obj(vec![("kind", crate::util::J::s(what)), ("script", crate::util::J::s(text))]));
            }
        },
        |i, msg| {
            if crate::util::panic_in_repo(&msg) {
                ctx.violation(format!("{what}:panic:{}", msg.split(": ").next().unwrap_or("")), format!("{what} program #{i}: {msg}"));
            } else if msg.contains("event limit exceeded") {
                ctx.violation(format!("{what}:runaway-loop"), format!("{what} program #{i}: {msg}"));
            } else {
                ctx.violation("harness-panic", format!("{what} program #{i}: {msg}"));
            }
        },
    );
}
