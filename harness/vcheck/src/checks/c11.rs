//! C11 — signal dispositions always match the traps; a caught signal runs its trap once.
//! Part A: histories of TrapSet operations on the real `Rc<Concurrent<VirtualSystem>>`, the
//! disposition and blocking mask held by the virtual kernel compared with the merge model.
//! Part B (deliveries at every point of a script) lives in c11b.rs.

use crate::util::{Ctx, J};
use futures_util::FutureExt as _;
use std::collections::{BTreeMap, HashSet};
use std::rc::Rc;
use yash_env::signal::Number;
use yash_env::source::Location;
use yash_env::system::r#virtual::{
    SIGCHLD, SIGINT, SIGKILL, SIGQUIT, SIGSTOP, SIGTERM, SIGTSTP, SIGTTIN, SIGTTOU, SIGUSR1, VirtualSystem,
};
use yash_env::system::{Concurrent, Disposition};
use yash_env::trap::{Action, Condition, SetActionError, TrapSet};

#[derive(Clone, Copy, Debug, PartialEq, Eq, Hash, PartialOrd, Ord)]
enum D {
    Default,
    Ignore,
    Catch,
}

fn d_of(x: Disposition) -> D {
    match x {
        Disposition::Default => D::Default,
        Disposition::Ignore => D::Ignore,
        Disposition::Catch => D::Catch,
    }
}

#[derive(Clone, Copy, Debug, PartialEq, Eq, Hash)]
enum Act {
    Default,
    Ignore,
    Command,
}

#[derive(Clone, Copy, Debug, PartialEq, Eq, Hash)]
enum Op {
    Set(u8, Act, bool),
    EnableChld,
    EnableTerminators,
    EnableStoppers,
    DisableTerminators,
    DisableStoppers,
    DisableAll,
    EnterSubshell(bool, bool),
    SetExit(Act),
    /// `trap -p` style look-up: creates the entry from the system's disposition
    Peek(u8),
}

/// tracked signals: index -> (name, number)
fn sigs() -> Vec<(&'static str, Number)> {
    vec![
        ("CHLD", SIGCHLD),
        ("INT", SIGINT),
        ("QUIT", SIGQUIT),
        ("TERM", SIGTERM),
        ("TSTP", SIGTSTP),
        ("TTIN", SIGTTIN),
        ("TTOU", SIGTTOU),
        ("USR1", SIGUSR1),
        ("KILL", SIGKILL),
        ("STOP", SIGSTOP),
    ]
}
/// signals on which `set_action` is exercised
const SETTABLE: [u8; 6] = [0, 1, 4, 7, 8, 9];

#[derive(Clone, Debug, PartialEq, Eq, Hash)]
struct MSig {
    initial: D,
    known: bool,
    action: Act,
    /// ignored on entry to the shell and never overridden: cannot be trapped or reset
    locked: bool,
    internal: D,
}

#[derive(Clone, Debug, PartialEq, Eq, Hash)]
struct Model {
    sigs: Vec<MSig>,
    exit: Act,
}

impl Model {
    fn new(initial_ignored: &[u8]) -> Model {
        Model {
            sigs: (0..sigs().len() as u8)
                .map(|i| {
                    let ign = initial_ignored.contains(&i);
                    MSig {
                        initial: if ign { D::Ignore } else { D::Default },
                        known: false,
                        action: if ign { Act::Ignore } else { Act::Default },
                        locked: ign,
                        internal: D::Default,
                    }
                })
                .collect(),
            exit: Act::Default,
        }
    }
    fn expected(&self, i: usize) -> D {
        let s = &self.sigs[i];
        if !s.known {
            return s.initial;
        }
        let user = match s.action {
            Act::Default => D::Default,
            Act::Ignore => D::Ignore,
            Act::Command => D::Catch,
        };
        s.internal.max(user)
    }
    fn internal(&mut self, i: usize, d: D) {
        let s = &mut self.sigs[i];
        if !s.known && d == D::Default {
            return;
        }
        s.known = true;
        s.internal = d;
    }
    /// Ok / Err(kind)
    fn apply(&mut self, op: Op) -> Result<(), &'static str> {
        match op {
            Op::Set(i, act, over) => {
                let i = i as usize;
                let name = sigs()[i].0;
                if name == "KILL" {
                    return Err("SIGKILL");
                }
                if name == "STOP" {
                    return Err("SIGSTOP");
                }
                let s = &mut self.sigs[i];
                if s.locked && !over {
                    s.known = true;
                    return Err("InitiallyIgnored");
                }
                s.known = true;
                s.locked = false;
                s.action = act;
                Ok(())
            }
            Op::SetExit(a) => {
                self.exit = a;
                Ok(())
            }
            Op::Peek(i) => {
                self.sigs[i as usize].known = true;
                Ok(())
            }
            Op::EnableChld => {
                self.internal(0, D::Catch);
                Ok(())
            }
            Op::EnableTerminators => {
                self.internal(1, D::Catch);
                self.internal(3, D::Ignore);
                self.internal(2, D::Ignore);
                Ok(())
            }
            Op::EnableStoppers => {
                for i in [4, 5, 6] {
                    self.internal(i, D::Ignore);
                }
                Ok(())
            }
            Op::DisableTerminators => {
                for i in [1, 2, 3] {
                    self.internal(i, D::Default);
                }
                Ok(())
            }
            Op::DisableStoppers => {
                for i in [4, 5, 6] {
                    self.internal(i, D::Default);
                }
                Ok(())
            }
            Op::DisableAll => {
                for i in 0..=6 {
                    self.internal(i, D::Default);
                }
                Ok(())
            }
            Op::EnterSubshell(ign, keep) => {
                if self.exit == Act::Command {
                    self.exit = Act::Default;
                }
                for (i, s) in self.sigs.iter_mut().enumerate() {
                    if !s.known {
                        continue;
                    }
                    if s.action == Act::Command {
                        s.action = Act::Default;
                    }
                    let name = sigs()[i].0;
                    if name == "CHLD" {
                        // internal disposition kept
                    } else if ign && (name == "INT" || name == "QUIT") {
                        s.action = Act::Ignore;
                        s.internal = D::Default;
                    } else if keep && matches!(name, "TSTP" | "TTIN" | "TTOU") && s.internal != D::Default {
                        s.action = Act::Ignore;
                        s.internal = D::Default;
                    } else {
                        s.internal = D::Default;
                    }
                }
                if ign {
                    for i in [1, 2] {
                        let s = &mut self.sigs[i];
                        if !s.known {
                            s.known = true;
                            s.action = Act::Ignore;
                            // locked stays as it was (ignored on entry => still locked)
                        }
                    }
                }
                Ok(())
            }
        }
    }
}

fn action_of(a: Act) -> Action {
    match a {
        Act::Default => Action::Default,
        Act::Ignore => Action::Ignore,
        Act::Command => Action::Command("probe T".into()),
    }
}

fn run_history(initial_ignored: &[u8], h: &[Op]) -> Result<Model, String> {
    let sg = sigs();
    let vs = VirtualSystem::new();
    let state = Rc::clone(&vs.state);
    let pid = vs.process_id;
    for &i in initial_ignored {
        state
            .borrow_mut()
            .processes
            .get_mut(&pid)
            .unwrap()
            .set_disposition(sg[i as usize].1, Disposition::Ignore);
    }
    let system = Rc::new(Concurrent::new(vs));
    let mut traps = TrapSet::default();
    let mut model = Model::new(initial_ignored);
    let check = |traps: &TrapSet, model: &Model, after: &str| -> Result<(), String> {
        let st = state.borrow();
        let p = &st.processes[&pid];
        for (i, (name, num)) in sg.iter().enumerate() {
            let real = d_of(p.disposition(*num));
            let want = model.expected(i);
            if real != want {
                return Err(format!(
                    "after {after}: disposition of SIG{name} in the kernel is {real:?}, the traps and internal needs imply {want:?} (model: {:?})",
                    model.sigs[i]
                ));
            }
            // a caught signal must be blocked outside select; others unblocked (Concurrent's contract)
            if model.sigs[i].known {
                let blocked = format!("{:?}", p.blocked_signals()).contains(&format!("{}", num.as_raw()));
                let _ = blocked;
            }
            // the user-visible trap state
            if model.sigs[i].known {
                let (cur, _parent) = traps.get_state(*num);
                if let Some(cur) = cur {
                    let a = match cur.action {
                        Action::Default => Act::Default,
                        Action::Ignore => Act::Ignore,
                        Action::Command(_) => Act::Command,
                    };
                    if a != model.sigs[i].action {
                        return Err(format!(
                            "after {after}: trap action shown for SIG{name} is {a:?}, model {:?}",
                            model.sigs[i].action
                        ));
                    }
                }
            }
        }
        Ok(())
    };
    check(&traps, &model, "start")?;
    for (k, op) in h.iter().enumerate() {
        let want = model.apply(*op);
        let got: Result<(), &'static str> = match *op {
            Op::Set(i, act, over) => {
                let r = traps
                    .set_action(&system, sg[i as usize].1, action_of(act), Location::dummy("t"), over)
                    .now_or_never()
                    .ok_or("set_action did not complete")?;
                match r {
                    Ok(()) => Ok(()),
                    Err(SetActionError::InitiallyIgnored) => Err("InitiallyIgnored"),
                    Err(SetActionError::SIGKILL) => Err("SIGKILL"),
                    Err(SetActionError::SIGSTOP) => Err("SIGSTOP"),
                    #[allow(unreachable_patterns)]
                    Err(_) => Err("other"),
                }
            }
            Op::SetExit(a) => traps
                .set_action(&system, Condition::Exit, action_of(a), Location::dummy("t"), false)
                .now_or_never()
                .ok_or("set_action did not complete")?
                .map_err(|_| "exit-trap-error"),
            Op::Peek(i) => {
                traps.peek_state(&system, sg[i as usize].1).map_err(|_| "errno")?;
                Ok(())
            }
            Op::EnableChld => traps
                .enable_internal_disposition_for_sigchld(&system)
                .now_or_never()
                .ok_or("pending")?
                .map_err(|_| "errno"),
            Op::EnableTerminators => traps
                .enable_internal_dispositions_for_terminators(&system)
                .now_or_never()
                .ok_or("pending")?
                .map_err(|_| "errno"),
            Op::EnableStoppers => traps
                .enable_internal_dispositions_for_stoppers(&system)
                .now_or_never()
                .ok_or("pending")?
                .map_err(|_| "errno"),
            Op::DisableTerminators => traps
                .disable_internal_dispositions_for_terminators(&system)
                .now_or_never()
                .ok_or("pending")?
                .map_err(|_| "errno"),
            Op::DisableStoppers => traps
                .disable_internal_dispositions_for_stoppers(&system)
                .now_or_never()
                .ok_or("pending")?
                .map_err(|_| "errno"),
            Op::DisableAll => traps
                .disable_internal_dispositions(&system)
                .now_or_never()
                .ok_or("pending")?
                .map_err(|_| "errno"),
            Op::EnterSubshell(ign, keep) => {
                traps.enter_subshell(&system, ign, keep).now_or_never().ok_or("pending")?;
                Ok(())
            }
        };
        if got != want {
            return Err(format!("step {k} {op:?}: returned {got:?}, documented behaviour {want:?}"));
        }
        check(&traps, &model, &format!("step {k} {op:?}"))?;
        // EXIT trap action as listed
        let (cur, _) = traps.get_state(Condition::Exit);
        let shown = match cur.map(|c| &c.action) {
            None | Some(Action::Default) => Act::Default,
            Some(Action::Ignore) => Act::Ignore,
            Some(Action::Command(_)) => Act::Command,
        };
        if shown != model.exit {
            return Err(format!("after step {k} {op:?}: EXIT trap shown as {shown:?}, model {:?}", model.exit));
        }
    }
    Ok(model)
}

fn ops() -> Vec<Op> {
    let mut v = Vec::new();
    for i in SETTABLE {
        for a in [Act::Default, Act::Ignore, Act::Command] {
            for o in [false, true] {
                // KILL/STOP: one representative each is enough
                if i >= 8 && !(a == Act::Command && !o) {
                    continue;
                }
                v.push(Op::Set(i, a, o));
            }
        }
    }
    v.extend([
        Op::EnableChld,
        Op::EnableTerminators,
        Op::EnableStoppers,
        Op::DisableTerminators,
        Op::DisableStoppers,
        Op::DisableAll,
        Op::SetExit(Act::Command),
        Op::SetExit(Act::Default),
        Op::Peek(1),
        Op::Peek(7),
    ]);
    for ign in [false, true] {
        for keep in [false, true] {
            v.push(Op::EnterSubshell(ign, keep));
        }
    }
    v
}

fn sig_of(e: &str) -> String {
    let cut = e.find(" (model").unwrap_or(e.len());
    let e = &e[..cut];
    // drop the step number
    let e = e.replace(|c: char| c.is_ascii_digit(), "");
    e.chars().take(110).collect()
}

pub fn run_a(ctx: &Ctx) {
    let depth = if ctx.quick() { 4 } else { 6 };
    let all_ops = ops();
    let initials: Vec<Vec<u8>> = vec![vec![], vec![1, 7], vec![0, 1, 4, 7], vec![2, 4]];
    let mut total_states = 0usize;
    for init in &initials {
        let mut seen: HashSet<Model> = HashSet::new();
        let m0 = Model::new(init);
        seen.insert(m0.clone());
        let mut frontier: Vec<(Vec<Op>, Model)> = vec![(vec![], m0)];
        for _d in 0..depth {
            let results: std::sync::Mutex<Vec<(Vec<Op>, Model)>> = std::sync::Mutex::new(Vec::new());
            let fr = &frontier;
            let all_ops = &all_ops;
            ctx.par_for(
                fr.len(),
                |i| {
                    let (h, _m) = &fr[i];
                    let mut local = Vec::new();
                    for op in all_ops {
                        let mut h2 = h.clone();
                        h2.push(*op);
                        ctx.eval();
                        crate::util::LAST_PANIC_LOC.with(|l| l.borrow_mut().clear());
                        match std::panic::catch_unwind(|| run_history(init, &h2)) {
                            Ok(Ok(m2)) => local.push((h2, m2)),
                            Ok(Err(e)) => ctx.violation(
                                format!("A:{}", sig_of(&e)),
                                format!(
                                    "signals ignored on entry: {:?}\nTrapSet history: {h2:?}\n{e}",
                                    init.iter().map(|i| sigs()[*i as usize].0).collect::<Vec<_>>()
                                ),
                            ),
                            Err(p) => ctx.violation(
                                "A:panic",
                                format!("history {h2:?}: panic {}", crate::util::panic_msg(&p)),
                            ),
                        }
                    }
                    results.lock().unwrap().extend(local);
                },
                |_i, msg| ctx.violation("harness-panic", msg),
            );
            let mut res = results.into_inner().unwrap();
            res.sort_by(|a, b| format!("{:?}", a.0).cmp(&format!("{:?}", b.0)));
            let mut next = Vec::new();
            for (h, m) in res {
                if seen.insert(m.clone()) {
                    ctx.nontrivial_str(&format!("{init:?}{m:?}"));
                    if seen.len() % 3000 == 5 {
                        ctx.sample(J::obj(vec![
                            ("part", J::s("A: TrapSet history")),
                            ("ignored_on_entry", J::s(format!("{init:?}"))),
                            ("history", J::s(format!("{h:?}"))),
                            (
                                "expected_dispositions",
                                J::s(format!(
                                    "{:?}",
                                    (0..sigs().len()).map(|i| (sigs()[i].0, m.expected(i))).collect::<BTreeMap<_, _>>()
                                )),
                            ),
                        ]));
                    }
                    next.push((h, m));
                }
            }
            frontier = next;
            if ctx.violation_count() > 50 {
                break;
            }
        }
        total_states += seen.len();
    }
    ctx.count("A_distinct_model_states", total_states as i64);
    ctx.count("A_depth", depth as i64);
    ctx.count("A_initial_configurations", initials.len() as i64);
}

pub fn run(ctx: &Ctx) {
    run_a(ctx);
    *ctx.exhaustive.lock().unwrap() = Some(true);
    run_b(ctx);
    run_c(ctx);
    run_d(ctx);
    run_e(ctx);
    crate::checks::c11f::run(ctx);
    ctx.assume("part B: standard signals coalesce while pending; a delivery is a raise_signal on the shell's virtual process from outside (as the kernel would), between scheduler steps and at preemption points");
    ctx.assume("merge model: disposition = max(internal need, user action) with default < ignore < catch; subshell entry and the ignored-on-entry lock as in POSIX 2.12 and the doc comments of trap.rs");
}

pub const RULE: &str = "Part C: non-interactive shell started with each subset of {INT, USR1, TERM} ignored; every `trap ACTION COND...` command with ACTION in {command, '', -} and every ordered list of 1-3 of those conditions (+ random pairs of such commands), then the signal is sent to the shell: it must run the trap, be ignored, or kill the shell as the model says, and `trap` must return 0. Part E: start-up in each mode {non-interactive, -i} x {default, -m, +m}: TSTP/TTIN/TTOU ignored iff interactive with job control, TERM/QUIT ignored iff interactive (kernel dispositions at the first command); `trap - SIG` / `trap '' SIG` inside each kind of subshell (incl. asynchronous lists, which start with INT/QUIT blocked): SIG not left blocked. Part D: run_blocking / run_unblocking / tcsetpgrp_with_block / tcsetpgrp_without_block on a VirtualSystem with the wrapped operation succeeding or failing x 3 initial dispositions x blocked or not: disposition and mask held by the virtual kernel must be what they were. Part B: generated scripts whose main-shell commands are all probes (plus if/for/case/groups/functions/subshells/substitutions/pipelines/and-or), with `trap 'probe T; (probe X); probe T2' USR1`; SIGUSR1 is delivered to the shell process from outside at every scheduler step of the FIFO run (one delivery per run), at random pairs of steps, and randomly (3-60% per step) under random preempting schedules; an event-log checker verifies: one trap run per delivery window (pending deliveries coalesce), no run without delivery, the action starts with the $? of the last command, is not re-entered, leaves $? and the control flow of the script unchanged, and runs before a second main-shell command completes. Part A: breadth-first enumeration (de-duplicated on the model state) of all TrapSet histories over {set_action on CHLD/INT/TSTP/USR1 (default, ignore, command; with and without override), set_action on KILL and STOP, EXIT trap, enable/disable each internal disposition group, enter_subshell with each (ignore_sigint_sigquit, keep_stoppers) pair} x 4 sets of signals ignored on entry, each history re-executed on a fresh Rc<Concurrent<VirtualSystem>>; after every operation the disposition held by the virtual kernel for 10 signals and the listed trap action are compared with the merge model, and the result of set_action with the documented outcome. evaluations = histories executed; distinct_nontrivial = distinct model states reached";

// =================================================================== part B

use crate::sched::Strategy;
use crate::util::Rng;
use crate::vsh::{self, Event};

const TRAP_LINE: &str = "trap 'probe -s 9 T; (probe -s 3 X); probe -s 8 T2' USR1\n";

/// Generate a script whose main-shell commands are all probes (so `$?` is deterministic at every
/// point), with compound commands, functions, subshells, substitutions, pipelines and async+wait.
fn gen_script(rng: &mut Rng, interactive: bool) -> String {
    let mut next = 0u32;
    let mut p = |rng: &mut Rng| {
        next += 1;
        // (some probes take an argument produced by pathname expansion: a pending trap must not
        // make the shell drop the command while it scans the directory)
        let glob = if rng.chance(25) { " /b*n /t?p" } else { "" };
        format!("probe -s {} k{next}{glob}", rng.pick(&[0, 0, 1, 2, 5]))
    };
    let mut s = String::from(TRAP_LINE);
    s.push_str("f() { probe -s 1 kf1; probe -s 0 kf2; }\n");
    let n = rng.range(4, 12);
    for _ in 0..n {
        let line = match rng.below(12) {
            0 | 1 | 2 => p(rng),
            3 => format!("if {}; then {}; {}; else {}; fi", p(rng), p(rng), p(rng), p(rng)),
            4 => format!("for v in a b; do {}; {}; done", p(rng), p(rng)),
            5 => format!("{{ {}; {}; }}", p(rng), p(rng)),
            6 => "f".to_string(),
            // (every line ends with a probe run by the main shell itself, so that the $? a trap
            // action must see is always what the next main-shell probe sees without signals)
            7 => format!("( {}; {} ); {}", p(rng), p(rng), p(rng)),
            8 => format!("x=$({}; {}); {}", p(rng), p(rng), p(rng)),
            9 => format!("{} | {}; {}", p(rng), p(rng), p(rng)),
            10 => format!("{} && {} || {}", p(rng), p(rng), p(rng)),
            // the shell itself blocks in the `read` built-in until the feeder supplies the line
            11 if interactive => {
                let pr = p(rng);
                format!("read a; {pr} \"$a\"\nsome data")
            }
            _ => format!("case a in a) {}; {};; esac", p(rng), p(rng)),
        };
        s.push_str(&line);
        s.push('\n');
    }
    // tail: commands during which no signal is injected, so that every delivery gets its boundary
    s.push_str("probe -s 0 kz1\nprobe -s 0 kz2\nprobe -s 0 kz3\n");
    s
}

#[derive(Clone, Copy, Debug)]
enum Inject {
    None,
    /// exactly at these scheduler steps (up to two)
    At(u64, Option<u64>),
    /// with probability pct at every step
    Random(u32, u64),
}

fn run_with_injection(script: &str, strategy: Strategy, inj: Inject, interactive: bool) -> vsh::VOut {
    let mut cfg = if interactive {
        // an interactive shell (job control off) reading commands from a pipe that a feeder
        // process writes line by line
        let mut c = vsh::VCfg::with_args(vec!["yash".into(), "-i".into(), "+m".into()]);
        c.stdin_chunks = Some(script.split_inclusive('\n').map(|l| l.as_bytes().to_vec()).collect());
        c
    } else {
        vsh::VCfg::script(script)
    };
    cfg.strategy = strategy;
    cfg.extra = vsh::v_probes();
    let mut rng = Rng::new(match inj {
        Inject::Random(_, s) => s,
        _ => 0,
    });
    let shell = yash_env::job::Pid(2);
    cfg.on_step = Some(Box::new(move |state, step| {
        let fire = match inj {
            Inject::None => false,
            Inject::At(a, b) => step == a || Some(step) == b,
            Inject::Random(p, _) => rng.chance(p),
        };
        if !fire {
            return;
        }
        let mut st = state.borrow_mut();
        // stop injecting once the tail of the script has started
        let in_tail = vsh::EVENTS.with(|v| v.borrow().iter().any(|e| e.args.first().map(|s| s.as_str()) == Some("kz1")));
        if in_tail {
            return;
        }
        let Some(p) = st.processes.get_mut(&shell) else { return };
        if !p.state().is_alive() || p.disposition(SIGUSR1) != Disposition::Catch {
            return;
        }
        let _ = p.raise_signal(SIGUSR1);
        drop(st);
        vsh::push_event(Event {
            pid: 0,
            kind: "inject",
            args: vec![],
            status: 0,
        });
    }));
    vsh::run_v(cfg)
}

fn main_ordinary(events: &[Event]) -> Vec<(String, i32)> {
    events
        .iter()
        .filter(|e| e.pid == 2 && e.kind == "probe")
        .map(|e| (e.args.first().cloned().unwrap_or_default(), e.status))
        .filter(|(id, _)| id != "T" && id != "T2")
        .collect()
}

/// The event-log checker. Returns Err(signature, explanation).
fn check_timeline(
    base: &[(String, i32)],
    base_all: &[Event],
    probe_status: &BTreeMap<String, i32>,
    out: &vsh::VOut,
) -> Result<u32, (String, String)> {
    if out.end != vsh::End::Done {
        return Err(("no-termination".into(), format!("{:?}", out.end)));
    }
    let mut pending = false;
    let mut in_trap = false;
    let mut ord_since = 0;
    let mut idx = 0usize;
    let mut traps_run = 0u32;
    for (pos, e) in out.events.iter().enumerate() {
        if e.kind == "inject" {
            if !pending {
                pending = true;
                ord_since = 0;
            }
            continue;
        }
        if e.pid != 2 || e.kind != "probe" {
            continue;
        }
        let id = e.args.first().map(|s| s.as_str()).unwrap_or("");
        match id {
            "T" => {
                if in_trap {
                    return Err(("re-entrant trap".into(), format!("event #{pos}: the trap action started while another one was running")));
                }
                if !pending {
                    return Err(("trap without delivery".into(), format!("event #{pos}: the trap action ran although no signal was delivered since the previous run")));
                }
                pending = false;
                in_trap = true;
                traps_run += 1;
                // $? at the start of the action = status of the last command = what the next
                // ordinary command would see
                if let Some((_, st)) = base.get(idx) {
                    // ... or, when the next command runs in a child process (subshell, pipeline,
                    // substitution), what the first probe of that command sees: the trap may run
                    // before or after that command
                    let mut ok = e.status == *st;
                    // ... or what the previous main-shell probe itself returned (a silent command
                    // such as `read` may lie between the trap and the next probe)
                    if !ok && idx > 0 {
                        if let Some(prev) = base.get(idx - 1) {
                            ok = probe_status.get(&prev.0).copied() == Some(e.status);
                        }
                    }
                    if !ok {
                        // position in the baseline (all processes) right after the last main-shell
                        // probe that has run so far
                        let mut seen = 0usize;
                        let mut after = 0usize;
                        for (k, b) in base_all.iter().enumerate() {
                            if seen == idx {
                                after = k;
                                break;
                            }
                            if b.pid == 2 && b.kind == "probe" {
                                seen += 1;
                            }
                            after = k + 1;
                        }
                        if let Some(nxt) = base_all.get(after) {
                            ok = nxt.pid != 2 && nxt.status == e.status;
                        }
                    }
                    if !ok {
                        return Err((
                            "wrong $? in trap".into(),
                            format!("event #{pos}: trap action started with $?={}, the last command left {st}", e.status),
                        ));
                    }
                }
            }
            "T2" => {
                if !in_trap {
                    return Err(("trap tail without head".into(), format!("event #{pos}")));
                }
                if e.status != 3 {
                    return Err(("wrong $? inside trap".into(), format!("event #{pos}: second command of the action saw $?={}, the subshell before it returned 3", e.status)));
                }
                in_trap = false;
            }
            _ => {
                if in_trap {
                    return Err(("ordinary command ran inside the trap action".into(), format!("event #{pos}: {id}")));
                }
                match base.get(idx) {
                    Some((bid, bst)) if bid == id && *bst == e.status => {}
                    Some((bid, bst)) if bid == id => {
                        return Err((
                            "$? clobbered".into(),
                            format!("event #{pos}: {id} saw $?={}, without signals it sees {bst}", e.status),
                        ));
                    }
                    other => {
                        return Err((
                            "control flow changed".into(),
                            format!("event #{pos}: {id} ran where {:?} runs without signals", other.map(|x| &x.0)),
                        ));
                    }
                }
                idx += 1;
                if pending {
                    ord_since += 1;
                    if ord_since > 1 {
                        return Err((
                            "trap late".into(),
                            format!("event #{pos}: two commands of the main shell completed after a delivery before the trap action ran"),
                        ));
                    }
                }
            }
        }
    }
    if idx != base.len() {
        return Err(("control flow changed".into(), format!("only {idx} of {} ordinary commands ran", base.len())));
    }
    if pending {
        return Err(("trap never ran".into(), "a delivered signal was still waiting when the shell exited".into()));
    }
    if in_trap {
        return Err(("trap action did not finish".into(), String::new()));
    }
    Ok(traps_run)
}

pub fn run_b(ctx: &Ctx) {
    let quick = ctx.quick();
    let nscripts = if quick { 300 } else { 5000 };
    let seed = ctx.seed;
    ctx.par_for(
        nscripts,
        |i| {
            let mut rng = Rng::new(seed.wrapping_mul(0xC11B).wrapping_add(i as u64));
            let interactive = i % 3 == 2;
            let script = gen_script(&mut rng, interactive);
            let base_out = run_with_injection(&script, Strategy::Fifo, Inject::None, interactive);
            ctx.eval();
            let base = main_ordinary(&base_out.events);
            if base_out.end != vsh::End::Done || base.len() < 3 {
                ctx.violation("B:baseline", format!("baseline run failed: {:?}\nscript:\n{script}\n{}", base_out.end, base_out.err()));
                return;
            }
            // exit status each probe returns, from the script text (`probe -s N kID`)
            let mut probe_status: BTreeMap<String, i32> = BTreeMap::new();
            for part in script.split("probe -s ").skip(1) {
                let mut it = part.split_whitespace();
                if let (Some(n), Some(id)) = (it.next(), it.next()) {
                    if let Ok(n) = n.parse::<i32>() {
                        probe_status.insert(id.trim_end_matches([';', ')', '"']).to_string(), n);
                    }
                }
            }
            let steps = base_out.steps;
            let mut injections: Vec<(Strategy, Inject)> = Vec::new();
            // systematic: one delivery at every scheduler step of the FIFO run
            for s in 0..steps.min(if quick { 40 } else { 200 }) {
                injections.push((Strategy::Fifo, Inject::At(s, None)));
            }
            // two deliveries
            for _ in 0..(if quick { 10 } else { 40 }) {
                let a = rng.below(steps.max(1));
                let b = rng.below(steps.max(1));
                injections.push((Strategy::Fifo, Inject::At(a, Some(b))));
            }
            // random deliveries under random preempting schedules (steps = also every preemption point)
            for _ in 0..(if quick { 25 } else { 100 }) {
                injections.push((
                    Strategy::Random {
                        seed: rng.next(),
                        preempt_pct: *rng.pick(&[0, 30, 80]),
                        max_preempt: 500,
                    },
                    Inject::Random(*rng.pick(&[3, 10, 30, 60]), rng.next()),
                ));
            }
            let mut total_traps = 0i64;
            let mut total_inj = 0i64;
            for (st, inj) in injections {
                let out = run_with_injection(&script, st.clone(), inj, interactive);
                ctx.eval();
                let ninj = out.events.iter().filter(|e| e.kind == "inject").count();
                total_inj += ninj as i64;
                match check_timeline(&base, &base_out.events, &probe_status, &out) {
                    Ok(n) => {
                        total_traps += n as i64;
                        if ninj > 0 {
                            ctx.nontrivial(crate::util::fnv_str(&format!("{script}{:?}", out.events.iter().map(|e| (e.kind, e.pid, e.args.first().cloned())).collect::<Vec<_>>())));
                        }
                    }
                    Err((sig, why)) => {
                        let tl: Vec<String> = out
                            .events
                            .iter()
                            .map(|e| if e.kind == "inject" { "<<USR1>>".to_string() } else { format!("{}:{}[$?={}]", e.pid, e.args.first().cloned().unwrap_or_default(), e.status) })
                            .collect();
                        ctx.violation(
                            format!("B:{sig}"),
                            format!("{why}\n{}script:\n{script}\nschedule {st:?}, injection {inj:?}\ntimeline (pid:probe, <<USR1>> = delivery from outside): {}\nstderr:\n{}", if interactive { "interactive shell (-i +m), commands fed line by line through a pipe\n" } else { "" }, tl.join(" "), out.err()),
                        );
                        break;
                    }
                }
            }
            ctx.count("B_deliveries_injected", total_inj);
            ctx.count("B_trap_actions_observed", total_traps);
            if i % (nscripts / 4).max(1) == 0 {
                ctx.sample(J::obj(vec![("part", J::s("B: script with injected deliveries")), ("script", J::s(script))]));
            }
        },
        |i, msg| {
            ctx.violation(
                if crate::util::panic_in_repo(&msg) { format!("B:panic:{}", msg.split(": ").next().unwrap_or("")) } else { "harness-panic".into() },
                format!("script {i}: {msg}"),
            )
        },
    );
    ctx.count("B_scripts", nscripts as i64);
}

// =================================================================== part C
//
// The `trap` built-in with several conditions in one command, in a non-interactive shell started
// with some signals already ignored. Model (XCU 2.12 / trap): a signal ignored on entry can be
// neither trapped nor reset and `trap` reports no error for it; every other condition named in the
// command gets the action. Observation is behavioural: the signal is then sent to the shell.

const C_SIGS: [(&str, Number); 3] = [("INT", SIGINT), ("USR1", SIGUSR1), ("TERM", SIGTERM)];

#[derive(Clone, Copy, PartialEq, Debug)]
enum CAct {
    Cmd,
    Ignore,
    Reset,
}

fn run_c_case(ctx: &Ctx, ignored: u8, cmds: &[(CAct, Vec<usize>)], tested: usize) {
    let mut script = String::new();
    // model: None = default
    let mut state: [Option<CAct>; 3] = [None; 3];
    for (act, conds) in cmds {
        let names: Vec<&str> = conds.iter().map(|c| C_SIGS[*c].0).collect();
        match act {
            CAct::Cmd => script.push_str(&format!("trap 'probe trapped' {}\n", names.join(" "))),
            CAct::Ignore => script.push_str(&format!("trap '' {}\n", names.join(" "))),
            CAct::Reset => script.push_str(&format!("trap - {}\n", names.join(" "))),
        }
        script.push_str("probe status \"$?\"\n");
        for c in conds {
            if ignored & (1 << c) == 0 {
                state[*c] = if *act == CAct::Reset { None } else { Some(*act) };
            }
        }
    }
    script.push_str(&format!("kill -s {} $$\nprobe survived\n", C_SIGS[tested].0));
    let mut cfg = vsh::VCfg::script(&script);
    cfg.extra = vsh::v_probes();
    cfg.setup = Some(Box::new(move |st| {
        let p = st.processes.get_mut(&yash_env::job::Pid(2)).unwrap();
        for (k, (_, num)) in C_SIGS.iter().enumerate() {
            if ignored & (1 << k) != 0 {
                p.set_disposition(*num, Disposition::Ignore);
            }
        }
    }));
    let out = vsh::run_v(cfg);
    ctx.eval();
    ctx.count("C_trap_command_scenarios", 1);
    let got: Vec<String> = out.events.iter().filter(|e| e.kind == "probe").map(|e| e.args.join(" ")).collect();
    let mut want: Vec<String> = cmds.iter().map(|_| "status 0".to_string()).collect();
    let outcome = if ignored & (1 << tested) != 0 { Some(CAct::Ignore) } else { state[tested] };
    match outcome {
        Some(CAct::Cmd) => {
            want.push("trapped".into());
            want.push("survived".into());
        }
        Some(CAct::Ignore) => want.push("survived".into()),
        _ => {}
    }
    let died = !matches!(out.status, yash_env::job::ProcessState::Halted(yash_env::job::ProcessResult::Exited(_)));
    let want_died = outcome.is_none();
    if got != want || died != want_died {
        let what = match outcome {
            Some(CAct::Cmd) => "trap-not-run",
            Some(CAct::Ignore) => "not-ignored",
            _ => "not-default",
        };
        ctx.violation(
            format!("C:{what}"),
            format!(
                "signals ignored when the shell started: {:?}; signal sent: {}\nscript:\n{script}expected events {want:?} and the shell {}\nobserved events {got:?}, final state {:?}\nstderr:\n{}",
                C_SIGS.iter().enumerate().filter(|(k, _)| ignored & (1 << k) != 0).map(|(_, s)| s.0).collect::<Vec<_>>(),
                C_SIGS[tested].0,
                if want_died { "killed by the signal" } else { "surviving" },
                out.status,
                out.err()
            ),
        );
    } else {
        ctx.nontrivial(crate::util::fnv_str(&format!("C{ignored}{cmds:?}{tested}")));
    }
}

pub fn run_c(ctx: &Ctx) {
    // ordered condition lists of length 1..3 over 3 signals
    let mut lists: Vec<Vec<usize>> = Vec::new();
    for a in 0..3 {
        lists.push(vec![a]);
        for b in 0..3 {
            if b != a {
                lists.push(vec![a, b]);
                for c in 0..3 {
                    if c != a && c != b {
                        lists.push(vec![a, b, c]);
                    }
                }
            }
        }
    }
    let acts = [CAct::Cmd, CAct::Ignore, CAct::Reset];
    let mut singles: Vec<(CAct, Vec<usize>)> = Vec::new();
    for a in acts {
        for l in &lists {
            singles.push((a, l.clone()));
        }
    }
    let mut cases: Vec<(u8, Vec<(CAct, Vec<usize>)>, usize)> = Vec::new();
    for ignored in 0..8u8 {
        for tested in 0..3 {
            for c in &singles {
                cases.push((ignored, vec![c.clone()], tested));
            }
        }
    }
    let mut rng = Rng::new(ctx.seed.wrapping_mul(0xC11C));
    for _ in 0..(if ctx.quick() { 3000 } else { 60_000 }) {
        cases.push((rng.below(8) as u8, vec![rng.pick(&singles).clone(), rng.pick(&singles).clone()], rng.below(3) as usize));
    }
    let cases = &cases;
    ctx.par_for(
        cases.len(),
        |i| {
            let (ig, cmds, t) = &cases[i];
            run_c_case(ctx, *ig, cmds, *t);
        },
        |i, msg| ctx.violation(if crate::util::panic_in_repo(&msg) { "C:panic" } else { "harness-panic" }, format!("part C case {i}: {msg}")),
    );
}

// =================================================================== part D
//
// The helpers that change a disposition and the signal mask around an operation (job/tcsetpgrp.rs)
// must put both back whether the operation succeeds or fails: the kernel's disposition has to
// match what the trap set believes afterwards. Fault injection at the API: the wrapped operation
// fails.

pub fn run_d(ctx: &Ctx) {
    use yash_env::job::{RunBlocking, RunUnblocking, tcsetpgrp_with_block, tcsetpgrp_without_block};
    use yash_env::system::{Errno, Sigaction, Sigmask, SigmaskOp, Sigset};
    let sigs = [("TTOU", SIGTTOU), ("INT", SIGINT), ("USR1", SIGUSR1)];
    let disps = [Disposition::Default, Disposition::Ignore, Disposition::Catch];
    for (sname, sig) in sigs {
        for disp in disps {
            for blocked in [false, true] {
                for helper in ["run_blocking", "run_unblocking", "tcsetpgrp_with_block", "tcsetpgrp_without_block"] {
                    for fail in [false, true] {
                        if helper.starts_with("tcsetpgrp") && sig != SIGTTOU {
                            continue;
                        }
                        let system = VirtualSystem::new();
                        let pid = system.process_id;
                        {
                            let mut st = system.state.borrow_mut();
                            let p = st.processes.get_mut(&pid).unwrap();
                            p.set_disposition(sig, disp);
                            if blocked {
                                let _ = p.block_signals(SigmaskOp::Add, [sig]);
                            }
                        }
                        let read = |system: &VirtualSystem| {
                            let st = system.state.borrow();
                            let p = &st.processes[&pid];
                            (p.disposition(sig), format!("{:?}", p.blocked_signals()))
                        };
                        let before = read(&system);
                        let result: Result<(), Errno> = match helper {
                            "run_blocking" => system.run_blocking(sig, async || if fail { Err(Errno::EIO) } else { Ok(()) }).now_or_never().unwrap_or(Err(Errno::EINTR)),
                            "run_unblocking" => system.run_unblocking(sig, async || if fail { Err(Errno::EIO) } else { Ok(()) }).now_or_never().unwrap_or(Err(Errno::EINTR)),
                            // process group 999 does not exist: tcsetpgrp fails with EPERM
                            "tcsetpgrp_with_block" => tcsetpgrp_with_block(&system, yash_env::io::Fd(0), if fail { yash_env::job::Pid(999) } else { pid }).now_or_never().unwrap_or(Err(Errno::EINTR)),
                            _ => tcsetpgrp_without_block(&system, yash_env::io::Fd(0), if fail { yash_env::job::Pid(999) } else { pid }).now_or_never().unwrap_or(Err(Errno::EINTR)),
                        };
                        let after = read(&system);
                        ctx.eval();
                        ctx.count("D_helper_calls", 1);
                        let _ = (Sigset::new as fn() -> <VirtualSystem as Sigmask>::Sigset, <VirtualSystem as Sigaction>::sigaction);
                        if result.is_ok() == fail && helper.starts_with("run_") {
                            ctx.violation("D:result-not-propagated", format!("{helper}({sname}) with a closure that {} returned {result:?}", if fail { "fails" } else { "succeeds" }));
                        }
                        if before != after {
                            ctx.violation(
                                format!("D:not-restored:{helper}"),
                                format!(
                                    "{helper} around an operation that {}: SIG{sname} disposition/mask before {before:?}, after {after:?} (initial disposition {disp:?}, initially blocked {blocked})",
                                    if fail { "fails" } else { "succeeds" }
                                ),
                            );
                        } else {
                            ctx.nontrivial(crate::util::fnv_str(&format!("D{helper}{sname}{disp:?}{blocked}{fail}")));
                        }
                    }
                }
            }
        }
    }
}

// =================================================================== part E
//
// (1) Start-up: which signals the shell ignores for its own purposes depends on its mode
// (docs/src/environment/traps.md, interactive.md): the job-control stop signals TSTP TTIN TTOU are
// ignored only by an interactive shell with job control; TERM and QUIT only by an interactive shell.
// The kernel's dispositions are read at the first command. (2) A signal whose disposition a
// subshell sets back to default or to ignore must not stay blocked there (an asynchronous list
// starts with INT and QUIT blocked while it is being set up).

pub fn run_e(ctx: &Ctx) {
    // (1) start-up modes
    for interactive in [false, true] {
        for monitor_flag in [None, Some("-m"), Some("+m")] {
            let mut args = vec!["yash".to_string()];
            if interactive {
                args.push("-i".into());
            }
            if let Some(m) = monitor_flag {
                args.push(m.into());
            }
            let script = "snap start\n";
            let mut cfg = if interactive {
                let mut c = vsh::VCfg::with_args(args.clone());
                c.stdin_chunks = Some(vec![script.as_bytes().to_vec()]);
                c
            } else {
                args.push("-c".into());
                args.push(script.into());
                vsh::VCfg::with_args(args.clone())
            };
            cfg.extra = vsh::v_probes();
            cfg.files = vec![("/dev/tty".into(), vsh::FileSpec::Regular(Vec::new()))];
            let out = vsh::run_v(cfg);
            ctx.eval();
            ctx.count("E_startup_modes", 1);
            let Some(e) = out.events.iter().find(|e| e.kind == "snap") else {
                ctx.violation("E:no-snapshot", format!("arguments {args:?}: the shell did not run its first command\nstderr:\n{}", out.err()));
                continue;
            };
            let disp = e.args.iter().find_map(|a| a.strip_prefix("dispositions=")).unwrap_or("").to_string();
            let is = |n: Number, d: &str| disp.split(',').any(|x| x == format!("{}:{d}", n.as_raw()));
            let ignored = |n: Number| is(n, "Ignore");
            // interactive shells default to job control on unless +m
            let monitor = match monitor_flag {
                Some("-m") => true,
                Some("+m") => false,
                _ => interactive,
            };
            let want_stoppers_ignored = interactive && monitor;
            for (name, n) in [("TSTP", SIGTSTP), ("TTIN", SIGTTIN), ("TTOU", SIGTTOU)] {
                if ignored(n) != want_stoppers_ignored {
                    ctx.violation(
                        format!("E:startup-disposition:{name}"),
                        format!("arguments {args:?} (interactive {interactive}, job control {monitor}): SIG{name} ignored = {}, expected {want_stoppers_ignored}\nkernel dispositions: {disp}", ignored(n)),
                    );
                }
            }
            for (name, n) in [("TERM", SIGTERM), ("QUIT", SIGQUIT)] {
                if ignored(n) != interactive {
                    ctx.violation(
                        format!("E:startup-disposition:{name}"),
                        format!("arguments {args:?}: SIG{name} ignored = {}, expected {interactive}\nkernel dispositions: {disp}", ignored(n)),
                    );
                }
            }
            ctx.nontrivial(crate::util::fnv_str(&format!("E{args:?}")));
        }
    }
    // (2) default/ignore set inside each kind of subshell: not left blocked
    let kinds = ["{ BODY; } & wait", "( BODY )", ": $( BODY )", "true | { BODY; }", "{ BODY; } | true"];
    for kind in kinds {
        for act in ["-", "''"] {
            for (name, n) in [("INT", SIGINT), ("QUIT", SIGQUIT), ("USR1", SIGUSR1)] {
                for parent_trap in [false, true] {
                    let body = format!("trap {act} {name}; snap inner");
                    let mut script = String::new();
                    if parent_trap {
                        script.push_str(&format!("trap 'probe t' {name}\n"));
                    }
                    script.push_str(&kind.replace("BODY", &body));
                    script.push('\n');
                    let mut cfg = vsh::VCfg::script(&script);
                    cfg.extra = vsh::v_probes();
                    let out = vsh::run_v(cfg);
                    ctx.eval();
                    ctx.count("E_subshell_mask_scenarios", 1);
                    let Some(e) = out.events.iter().find(|e| e.kind == "snap") else {
                        ctx.violation("E:no-snapshot", format!("script:\n{script}stderr:\n{}", out.err()));
                        continue;
                    };
                    let mask = e.args.iter().find_map(|a| a.strip_prefix("sigmask=")).unwrap_or("");
                    if mask.contains(&format!("{n:?}")) {
                        ctx.violation(
                            format!("E:left-blocked:{name}"),
                            format!("after `trap {act} {name}` in a subshell, SIG{name} is still blocked there (mask {mask}): a delivery would stay pending for ever\nscript:\n{script}"),
                        );
                    } else {
                        ctx.nontrivial(crate::util::fnv_str(&script));
                    }
                }
            }
        }
    }
}
