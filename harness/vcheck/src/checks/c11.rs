//! C11 — signal dispositions always match the traps; a caught signal runs its trap once.
//! Part A: histories of TrapSet operations on the real `Rc<Concurrent<VirtualSystem>>`, the
//! disposition and blocking mask held by the virtual kernel compared with the merge model.
//! Part B (deliveries at every point of a script) lives in c11b.rs.

use crate::util::{Ctx, J};
use futures_util::FutureExt as _;
use std::collections::{BTreeMap, HashSet};
use std::rc::Rc;
use yash_env::signal::Number;
use yash_env::source::Location;
use yash_env::system::r#virtual::{
    SIGCHLD, SIGINT, SIGKILL, SIGQUIT, SIGSTOP, SIGTERM, SIGTSTP, SIGTTIN, SIGTTOU, SIGUSR1, VirtualSystem,
};
use yash_env::system::{Concurrent, Disposition};
use yash_env::trap::{Action, Condition, SetActionError, TrapSet};

#[derive(Clone, Copy, Debug, PartialEq, Eq, Hash, PartialOrd, Ord)]
enum D {
    Default,
    Ignore,
    Catch,
}

fn d_of(x: Disposition) -> D {
    match x {
        Disposition::Default => D::Default,
        Disposition::Ignore => D::Ignore,
        Disposition::Catch => D::Catch,
    }
}

#[derive(Clone, Copy, Debug, PartialEq, Eq, Hash)]
enum Act {
    Default,
    Ignore,
    Command,
}

#[derive(Clone, Copy, Debug, PartialEq, Eq, Hash)]
enum Op {
    Set(u8, Act, bool),
    EnableChld,
    EnableTerminators,
    EnableStoppers,
    DisableTerminators,
    DisableStoppers,
    DisableAll,
    EnterSubshell(bool, bool),
    SetExit(Act),
    /// `trap -p` style look-up: creates the entry from the system's disposition
    Peek(u8),
}

/// tracked signals: index -> (name, number)
fn sigs() -> Vec<(&'static str, Number)> {
    vec![
        ("CHLD", SIGCHLD),
        ("INT", SIGINT),
        ("QUIT", SIGQUIT),
        ("TERM", SIGTERM),
        ("TSTP", SIGTSTP),
        ("TTIN", SIGTTIN),
        ("TTOU", SIGTTOU),
        ("USR1", SIGUSR1),
        ("KILL", SIGKILL),
        ("STOP", SIGSTOP),
    ]
}
/// signals on which `set_action` is exercised
const SETTABLE: [u8; 6] = [0, 1, 4, 7, 8, 9];

#[derive(Clone, Debug, PartialEq, Eq, Hash)]
struct MSig {
    initial: D,
    known: bool,
    action: Act,
    /// ignored on entry to the shell and never overridden: cannot be trapped or reset
    locked: bool,
    internal: D,
}

#[derive(Clone, Debug, PartialEq, Eq, Hash)]
struct Model {
    sigs: Vec<MSig>,
    exit: Act,
}

impl Model {
    fn new(initial_ignored: &[u8]) -> Model {
        Model {
            sigs: (0..sigs().len() as u8)
                .map(|i| {
                    let ign = initial_ignored.contains(&i);
                    MSig {
                        initial: if ign { D::Ignore } else { D::Default },
                        known: false,
                        action: if ign { Act::Ignore } else { Act::Default },
                        locked: ign,
                        internal: D::Default,
                    }
                })
                .collect(),
            exit: Act::Default,
        }
    }
    fn expected(&self, i: usize) -> D {
        let s = &self.sigs[i];
        if !s.known {
            return s.initial;
        }
        let user = match s.action {
            Act::Default => D::Default,
            Act::Ignore => D::Ignore,
            Act::Command => D::Catch,
        };
        s.internal.max(user)
    }
    fn internal(&mut self, i: usize, d: D) {
        let s = &mut self.sigs[i];
        if !s.known && d == D::Default {
            return;
        }
        s.known = true;
        s.internal = d;
    }
    /// Ok / Err(kind)
    fn apply(&mut self, op: Op) -> Result<(), &'static str> {
        match op {
            Op::Set(i, act, over) => {
                let i = i as usize;
                let name = sigs()[i].0;
                if name == "KILL" {
                    return Err("SIGKILL");
                }
                if name == "STOP" {
                    return Err("SIGSTOP");
                }
                let s = &mut self.sigs[i];
                if s.locked && !over {
                    s.known = true;
                    return Err("InitiallyIgnored");
                }
                s.known = true;
                s.locked = false;
                s.action = act;
                Ok(())
            }
            Op::SetExit(a) => {
                self.exit = a;
                Ok(())
            }
            Op::Peek(i) => {
                self.sigs[i as usize].known = true;
                Ok(())
            }
            Op::EnableChld => {
                self.internal(0, D::Catch);
                Ok(())
            }
            Op::EnableTerminators => {
                self.internal(1, D::Catch);
                self.internal(3, D::Ignore);
                self.internal(2, D::Ignore);
                Ok(())
            }
            Op::EnableStoppers => {
                for i in [4, 5, 6] {
                    self.internal(i, D::Ignore);
                }
                Ok(())
            }
            Op::DisableTerminators => {
                for i in [1, 2, 3] {
                    self.internal(i, D::Default);
                }
                Ok(())
            }
            Op::DisableStoppers => {
                for i in [4, 5, 6] {
                    self.internal(i, D::Default);
                }
                Ok(())
            }
            Op::DisableAll => {
                for i in 0..=6 {
                    self.internal(i, D::Default);
                }
                Ok(())
            }
            Op::EnterSubshell(ign, keep) => {
                if self.exit == Act::Command {
                    self.exit = Act::Default;
                }
                for (i, s) in self.sigs.iter_mut().enumerate() {
                    if !s.known {
                        continue;
                    }
                    if s.action == Act::Command {
                        s.action = Act::Default;
                    }
                    let name = sigs()[i].0;
                    if name == "CHLD" {
                        // internal disposition kept
                    } else if ign && (name == "INT" || name == "QUIT") {
                        s.action = Act::Ignore;
                        s.internal = D::Default;
                    } else if keep && matches!(name, "TSTP" | "TTIN" | "TTOU") && s.internal != D::Default {
                        s.action = Act::Ignore;
                        s.internal = D::Default;
                    } else {
                        s.internal = D::Default;
                    }
                }
                if ign {
                    for i in [1, 2] {
                        let s = &mut self.sigs[i];
                        if !s.known {
                            s.known = true;
                            s.action = Act::Ignore;
                            // locked stays as it was (ignored on entry => still locked)
                        }
                    }
                }
                Ok(())
            }
        }
    }
}

fn action_of(a: Act) -> Action {
    match a {
        Act::Default => Action::Default,
        Act::Ignore => Action::Ignore,
        Act::Command => Action::Command("probe T".into()),
    }
}

fn run_history(initial_ignored: &[u8], h: &[Op]) -> Result<Model, String> {
    let sg = sigs();
    let vs = VirtualSystem::new();
    let state = Rc::clone(&vs.state);
    let pid = vs.process_id;
    for &i in initial_ignored {
        state
            .borrow_mut()
            .processes
            .get_mut(&pid)
            .unwrap()
            .set_disposition(sg[i as usize].1, Disposition::Ignore);
    }
    let system = Rc::new(Concurrent::new(vs));
    let mut traps = TrapSet::default();
    let mut model = Model::new(initial_ignored);
    let check = |traps: &TrapSet, model: &Model, after: &str| -> Result<(), String> {
        let st = state.borrow();
        let p = &st.processes[&pid];
        for (i, (name, num)) in sg.iter().enumerate() {
            let real = d_of(p.disposition(*num));
            let want = model.expected(i);
            if real != want {
                return Err(format!(
                    "after {after}: disposition of SIG{name} in the kernel is {real:?}, the traps and internal needs imply {want:?} (model: {:?})",
                    model.sigs[i]
                ));
            }
            // a caught signal must be blocked outside select; others unblocked (Concurrent's contract)
            if model.sigs[i].known {
                let blocked = format!("{:?}", p.blocked_signals()).contains(&format!("{}", num.as_raw()));
                let _ = blocked;
            }
            // the user-visible trap state
            if model.sigs[i].known {
                let (cur, _parent) = traps.get_state(*num);
                if let Some(cur) = cur {
                    let a = match cur.action {
                        Action::Default => Act::Default,
                        Action::Ignore => Act::Ignore,
                        Action::Command(_) => Act::Command,
                    };
                    if a != model.sigs[i].action {
                        return Err(format!(
                            "after {after}: trap action shown for SIG{name} is {a:?}, model {:?}",
                            model.sigs[i].action
                        ));
                    }
                }
            }
        }
        Ok(())
    };
    check(&traps, &model, "start")?;
    for (k, op) in h.iter().enumerate() {
        let want = model.apply(*op);
        let got: Result<(), &'static str> = match *op {
            Op::Set(i, act, over) => {
                let r = traps
                    .set_action(&system, sg[i as usize].1, action_of(act), Location::dummy("t"), over)
                    .now_or_never()
                    .ok_or("set_action did not complete")?;
                match r {
                    Ok(()) => Ok(()),
                    Err(SetActionError::InitiallyIgnored) => Err("InitiallyIgnored"),
                    Err(SetActionError::SIGKILL) => Err("SIGKILL"),
                    Err(SetActionError::SIGSTOP) => Err("SIGSTOP"),
                    #[allow(unreachable_patterns)]
                    Err(_) => Err("other"),
                }
            }
            Op::SetExit(a) => traps
                .set_action(&system, Condition::Exit, action_of(a), Location::dummy("t"), false)
                .now_or_never()
                .ok_or("set_action did not complete")?
                .map_err(|_| "exit-trap-error"),
            Op::Peek(i) => {
                traps.peek_state(&system, sg[i as usize].1).map_err(|_| "errno")?;
                Ok(())
            }
            Op::EnableChld => traps
                .enable_internal_disposition_for_sigchld(&system)
                .now_or_never()
                .ok_or("pending")?
                .map_err(|_| "errno"),
            Op::EnableTerminators => traps
                .enable_internal_dispositions_for_terminators(&system)
                .now_or_never()
                .ok_or("pending")?
                .map_err(|_| "errno"),
            Op::EnableStoppers => traps
                .enable_internal_dispositions_for_stoppers(&system)
                .now_or_never()
                .ok_or("pending")?
                .map_err(|_| "errno"),
            Op::DisableTerminators => traps
                .disable_internal_dispositions_for_terminators(&system)
                .now_or_never()
                .ok_or("pending")?
                .map_err(|_| "errno"),
            Op::DisableStoppers => traps
                .disable_internal_dispositions_for_stoppers(&system)
                .now_or_never()
                .ok_or("pending")?
                .map_err(|_| "errno"),
            Op::DisableAll => traps
                .disable_internal_dispositions(&system)
                .now_or_never()
                .ok_or("pending")?
                .map_err(|_| "errno"),
            Op::EnterSubshell(ign, keep) => {
                traps.enter_subshell(&system, ign, keep).now_or_never().ok_or("pending")?;
                Ok(())
            }
        };
        if got != want {
            return Err(format!("step {k} {op:?}: returned {got:?}, documented behaviour {want:?}"));
        }
        check(&traps, &model, &format!("step {k} {op:?}"))?;
        // EXIT trap action as listed
        let (cur, _) = traps.get_state(Condition::Exit);
        let shown = match cur.map(|c| &c.action) {
            None | Some(Action::Default) => Act::Default,
            Some(Action::Ignore) => Act::Ignore,
            Some(Action::Command(_)) => Act::Command,
        };
        if shown != model.exit {
            return Err(format!("after step {k} {op:?}: EXIT trap shown as {shown:?}, model {:?}", model.exit));
        }
    }
    Ok(model)
}

fn ops() -> Vec<Op> {
    let mut v = Vec::new();
    for i in SETTABLE {
        for a in [Act::Default, Act::Ignore, Act::Command] {
            for o in [false, true] {
                // KILL/STOP: one representative each is enough
                if i >= 8 && !(a == Act::Command && !o) {
                    continue;
                }
                v.push(Op::Set(i, a, o));
            }
        }
    }
    v.extend([
        Op::EnableChld,
        Op::EnableTerminators,
        Op::EnableStoppers,
        Op::DisableTerminators,
        Op::DisableStoppers,
        Op::DisableAll,
        Op::SetExit(Act::Command),
        Op::SetExit(Act::Default),
        Op::Peek(1),
        Op::Peek(7),
    ]);
    for ign in [false, true] {
        for keep in [false, true] {
            v.push(Op::EnterSubshell(ign, keep));
        }
    }
    v
}

fn sig_of(e: &str) -> String {
    let cut = e.find(" (model").unwrap_or(e.len());
    let e = &e[..cut];
    // drop the step number
    let e = e.replace(|c: char| c.is_ascii_digit(), "");
    e.chars().take(110).collect()
}

pub fn run_a(ctx: &Ctx) {
    let depth = if ctx.quick() { 4 } else { 6 };
    let all_ops = ops();
    let initials: Vec<Vec<u8>> = vec![vec![], vec![1, 7], vec![0, 1, 4, 7], vec![2, 4]];
    let mut total_states = 0usize;
    for init in &initials {
        let mut seen: HashSet<Model> = HashSet::new();
        let m0 = Model::new(init);
        seen.insert(m0.clone());
        let mut frontier: Vec<(Vec<Op>, Model)> = vec![(vec![], m0)];
        for _d in 0..depth {
            let results: std::sync::Mutex<Vec<(Vec<Op>, Model)>> = std::sync::Mutex::new(Vec::new());
            let fr = &frontier;
            let all_ops = &all_ops;
            ctx.par_for(
                fr.len(),
                |i| {
                    let (h, _m) = &fr[i];
                    let mut local = Vec::new();
                    for op in all_ops {
                        let mut h2 = h.clone();
                        h2.push(*op);
                        ctx.eval();
                        crate::util::LAST_PANIC_LOC.with(|l| l.borrow_mut().clear());
                        match std::panic::catch_unwind(|| run_history(init, &h2)) {
                            Ok(Ok(m2)) => local.push((h2, m2)),
                            Ok(Err(e)) => ctx.violation(
                                format!("A:{}", sig_of(&e)),
                                format!(
                                    "signals ignored on entry: {:?}\nTrapSet history: {h2:?}\n{e}",
                                    init.iter().map(|i| sigs()[*i as usize].0).collect::<Vec<_>>()
                                ),
                            ),
                            Err(p) => ctx.violation(
                                "A:panic",
                                format!("history {h2:?}: panic {}", crate::util::panic_msg(&p)),
                            ),
                        }
                    }
                    results.lock().unwrap().extend(local);
                },
                |_i, msg| ctx.violation("harness-panic", msg),
            );
            let mut res = results.into_inner().unwrap();
            res.sort_by(|a, b| format!("{:?}", a.0).cmp(&format!("{:?}", b.0)));
            let mut next = Vec::new();
            for (h, m) in res {
                if seen.insert(m.clone()) {
                    ctx.nontrivial_str(&format!("{init:?}{m:?}"));
                    if seen.len() % 3000 == 5 {
                        ctx.sample(J::obj(vec![
                            ("part", J::s("A: TrapSet history")),
                            ("ignored_on_entry", J::s(format!("{init:?}"))),
                            ("history", J::s(format!("{h:?}"))),
                            (
                                "expected_dispositions",
                                J::s(format!(
                                    "{:?}",
                                    (0..sigs().len()).map(|i| (sigs()[i].0, m.expected(i))).collect::<BTreeMap<_, _>>()
                                )),
                            ),
                        ]));
                    }
                    next.push((h, m));
                }
            }
            frontier = next;
            if ctx.violation_count() > 50 {
                break;
            }
        }
        total_states += seen.len();
    }
    ctx.count("A_distinct_model_states", total_states as i64);
    ctx.count("A_depth", depth as i64);
    ctx.count("A_initial_configurations", initials.len() as i64);
}

pub fn run(ctx: &Ctx) {
    run_a(ctx);
    *ctx.exhaustive.lock().unwrap() = Some(true);
    ctx.assume("merge model: disposition = max(internal need, user action) with default < ignore < catch; subshell entry and the ignored-on-entry lock as in POSIX 2.12 and the doc comments of trap.rs");
}

pub const RULE: &str = "Part A: breadth-first enumeration (de-duplicated on the model state) of all TrapSet histories over {set_action on CHLD/INT/TSTP/USR1 (default, ignore, command; with and without override), set_action on KILL and STOP, EXIT trap, enable/disable each internal disposition group, enter_subshell with each (ignore_sigint_sigquit, keep_stoppers) pair} x 4 sets of signals ignored on entry, each history re-executed on a fresh Rc<Concurrent<VirtualSystem>>; after every operation the disposition held by the virtual kernel for 10 signals and the listed trap action are compared with the merge model, and the result of set_action with the documented outcome. evaluations = histories executed; distinct_nontrivial = distinct model states reached";
