//! C18 — input is consumed line by line, no further than the running command needs.
//!
//! Line-based sequential model: the script is a list of items whose expected probe events are
//! known by construction (commands, `read`s that consume the following input lines, alias and
//! option changes that affect later lines, multi-line compound commands, here-documents, a
//! syntax error planted at a later line). The same script is fed as a regular file on fd 0 (with
//! file-offset probes), as a pipe written by a scheduler-controlled feeder in every split into
//! <= 3 chunks and in random chunkings, as a `-c` string and through `.`; the trace must be the
//! same everywhere.

use crate::sched::Strategy;
use crate::util::{Ctx, J, Rng, fnv};
use crate::vsh::{self, FileSpec};

#[derive(Clone, Debug)]
enum Item {
    Probe(u32),
    Two(u32, u32),
    /// `read a; probe kN "$a"` + one data line
    Read(u32, String),
    /// `read a; read b; probe kN "$a" "$b"` + two data lines
    Read2(u32, String, String),
    /// `for i in 1 2; do read a; probe kN "$a"; done` + two data lines
    ReadLoop(u32, String, String),
    /// `{ read a` / `probe kN "$a"; }` over two lines: the data line follows the closing brace
    ReadInGroup(u32, String),
    AliasDef(u32),
    AliasUse(u32),
    /// `set -f` / `set +f` then a probe with a glob pattern
    SetNoglob(bool),
    GlobProbe(u32),
    MultiIf(u32, u32, u32),
    MultiFor(u32),
    FuncDef(u32),
    FuncCall(u32),
    HereDoc(u32, Vec<String>),
    /// a here-document command followed on the same line by a `read`: the data line comes after
    /// the delimiter line (the here-document reader must not look past its delimiter)
    HereDocThenRead(u32, u32, Vec<String>, String),
    Comment,
    Blank,
    Continuation(u32),
    /// `pos kN 0` (only meaningful when fd 0 is a regular file)
    Pos(u32),
    /// `set -o portable` / `set +o portable`: changes how later lines are parsed
    SetPortable(bool),
    /// a line using the `;;&` case terminator, which is a syntax error in portable mode
    PortableSensitive(u32, u32),
    /// `set -m` / `set +m`
    SetMonitor(bool),
    /// a command reading its standard input inside an asynchronous list that is not under job
    /// control: its standard input is /dev/null, the rest of the script stays with the shell
    AsyncReader(u32, u8),
    /// a multi-command pipeline whose *first* stage is still busy when the last one has finished and
    /// then reads the shell's standard input: the shell waits for every stage, so the data line
    /// after the pipeline goes to that `read`, not to the parser
    PipeReader(u32, String, u8),
    /// a here-document operator on a line that ends with `|`: the body follows that line, the rest
    /// of the pipeline follows the delimiter
    HereDocPipe(u32, Vec<String>, u8),
}

struct Rendered {
    /// the script ends in a syntax error (planted, or a non-portable construct in portable mode)
    syntax_error: bool,
    text: String,
    /// expected events: (id, args after the id); for Pos the arg is filled with the byte offset
    expect: Vec<(String, Vec<String>)>,
}

fn render(items: &[Item], with_reads: bool, with_pos: bool, syntax_error_at: Option<usize>) -> Rendered {
    let mut text = String::new();
    let mut expect: Vec<(String, Vec<String>)> = Vec::new();
    let mut noglob = false;
    let mut portable = false;
    let mut monitor = false;
    let mut aliases: Vec<u32> = Vec::new();
    // a trailing `;` must not make the shell read ahead
    let mut semi_rng = Rng::new(items.len() as u64 * 31 + syntax_error_at.unwrap_or(0) as u64);
    for (i, it) in items.iter().enumerate() {
        if syntax_error_at == Some(i) {
            text.push_str("probe k9998; fi\nprobe k9999\n");
            return Rendered { syntax_error: true, text, expect };
        }
        let semi = if semi_rng.chance(30) { ";" } else { "" };
        match it {
            Item::SetPortable(b) => {
                text.push_str(if *b { "set -o portable\n" } else { "set +o portable\n" });
                portable = *b;
            }
            Item::SetMonitor(b) => {
                text.push_str(if *b { "set -m\n" } else { "set +m\n" });
                monitor = *b;
            }
            Item::AsyncReader(n, form) => {
                // (with job control on, an asynchronous list of the main shell is a job of its own
                // and keeps the standard input: only the forms inside a subshell are used then)
                let form = if monitor && *form % 2 == 0 { form + 1 } else { *form };
                let empty = vec!["0".to_string(), format!("{:016x}", fnv(b"")), "ok".to_string()];
                match form % 6 {
                    0 => {
                        text.push_str(&format!("sink k{n} & wait{semi}\n"));
                        expect.push((format!("k{n}"), empty));
                    }
                    1 => {
                        text.push_str(&format!("( sink k{n} & wait ){semi}\n"));
                        expect.push((format!("k{n}"), empty));
                    }
                    2 => {
                        text.push_str(&format!("{{ read a; probe k{n} \"$a\"; }} & wait\n"));
                        expect.push((format!("k{n}"), vec!["".into()]));
                    }
                    3 => {
                        text.push_str(&format!("x=$(sink k{n} & wait){semi}\n"));
                        expect.push((format!("k{n}"), empty));
                    }
                    4 => {
                        text.push_str(&format!("relay & wait; probe k{n}\n"));
                        expect.push((format!("k{n}"), vec![]));
                    }
                    _ => {
                        text.push_str(&format!("( {{ read a; probe k{n} \"$a\"; }} & wait; ) | relay\n"));
                        expect.push((format!("k{n}"), vec!["".into()]));
                    }
                }
            }
            Item::PortableSensitive(a, b) => {
                text.push_str(&format!("case x in x) probe k{a} ;;& *) probe k{b} ;; esac\nprobe k9995\n"));
                if portable {
                    return Rendered { syntax_error: true, text, expect };
                }
                expect.push((format!("k{a}"), vec![]));
                expect.push((format!("k{b}"), vec![]));
                expect.push(("k9995".into(), vec![]));
            }
            Item::Probe(n) => {
                text.push_str(&format!("probe k{n}{semi}\n"));
                expect.push((format!("k{n}"), vec![]));
            }
            Item::Two(a, b) => {
                text.push_str(&format!("probe k{a}; probe k{b}\n"));
                expect.push((format!("k{a}"), vec![]));
                expect.push((format!("k{b}"), vec![]));
            }
            Item::Read(n, d) if with_reads => {
                text.push_str(&format!("read a; probe k{n} \"$a\"{semi}\n{d}\n"));
                expect.push((format!("k{n}"), vec![d.clone()]));
            }
            Item::Read2(n, d1, d2) if with_reads => {
                text.push_str(&format!("read a; read b; probe k{n} \"$a\" \"$b\"\n{d1}\n{d2}\n"));
                expect.push((format!("k{n}"), vec![d1.clone(), d2.clone()]));
            }
            Item::ReadLoop(n, d1, d2) if with_reads => {
                text.push_str(&format!("for i in 1 2; do read a; probe k{n} \"$a\"; done\n{d1}\n{d2}\n"));
                expect.push((format!("k{n}"), vec![d1.clone()]));
                expect.push((format!("k{n}"), vec![d2.clone()]));
            }
            Item::ReadInGroup(n, d) if with_reads => {
                text.push_str(&format!("{{ read a\nprobe k{n} \"$a\"; }}\n{d}\n"));
                expect.push((format!("k{n}"), vec![d.clone()]));
            }
            Item::Read(..) | Item::Read2(..) | Item::ReadLoop(..) | Item::ReadInGroup(..) => {}
            Item::AliasDef(n) => {
                text.push_str(&format!("alias a{n}='probe k{n} from-alias'{semi}\n"));
                aliases.push(*n);
            }
            Item::AliasUse(n) => {
                if aliases.contains(n) {
                    text.push_str(&format!("a{n}\n"));
                    expect.push((format!("k{n}"), vec!["from-alias".into()]));
                }
            }
            Item::SetNoglob(b) => {
                text.push_str(if *b { "set -f\n" } else { "set +f\n" });
                noglob = *b;
            }
            Item::GlobProbe(n) => {
                text.push_str(&format!("probe k{n} /b*n\n"));
                expect.push((format!("k{n}"), vec![if noglob { "/b*n".into() } else { "/bin".into() }]));
            }
            Item::MultiIf(a, b, c) => {
                text.push_str(&format!("if probe k{a}\nthen\n  probe k{b}\nelse probe k9997\nfi; probe k{c}\n"));
                for x in [a, b, c] {
                    expect.push((format!("k{x}"), vec![]));
                }
            }
            Item::MultiFor(n) => {
                text.push_str(&format!("for v in x y\ndo\nprobe k{n} $v\ndone\n"));
                expect.push((format!("k{n}"), vec!["x".into()]));
                expect.push((format!("k{n}"), vec!["y".into()]));
            }
            Item::FuncDef(n) => {
                text.push_str(&format!("f{n}()\n{{\n  probe k{n} in-function\n}}\n"));
            }
            Item::FuncCall(n) => {
                text.push_str(&format!("f{n}\n"));
                expect.push((format!("k{n}"), vec!["in-function".into()]));
            }
            Item::HereDoc(n, lines) => {
                text.push_str(&format!("sink k{n} <<'E_O_F'\n"));
                let mut body = String::new();
                for l in lines {
                    body.push_str(l);
                    body.push('\n');
                }
                text.push_str(&body);
                text.push_str("E_O_F\n");
                expect.push((
                    format!("k{n}"),
                    vec![body.len().to_string(), format!("{:016x}", fnv(body.as_bytes())), "ok".into()],
                ));
            }
            Item::HereDocThenRead(n, m, lines, d) => {
                if with_reads {
                    text.push_str(&format!("sink k{n} <<'E_O_F'; read a; probe k{m} \"$a\"\n"));
                    let mut body = String::new();
                    for l in lines {
                        body.push_str(l);
                        body.push('\n');
                    }
                    text.push_str(&body);
                    text.push_str("E_O_F\n");
                    text.push_str(d);
                    text.push('\n');
                    expect.push((format!("k{n}"), vec![body.len().to_string(), format!("{:016x}", fnv(body.as_bytes())), "ok".into()]));
                    expect.push((format!("k{m}"), vec![d.clone()]));
                }
            }
            Item::PipeReader(n, d, form) => {
                if with_reads {
                    let first = format!("{{ {}read a; probe k{n} \"$a\"; }}", ["(:); (:); ", ": $(:); ", "(:); ( (:) ); : | :; "][(*form % 3) as usize]);
                    let rest = ["| :", "| { :; }", "| : | :", "| true"][(*form / 3 % 4) as usize];
                    text.push_str(&format!("{first} {rest}\n{d}\n"));
                    expect.push((format!("k{n}"), vec![d.clone()]));
                }
            }
            Item::HereDocPipe(n, lines, form) => {
                let mut body = String::new();
                for l in lines {
                    body.push_str(l);
                    body.push('\n');
                }
                text.push_str("relay <<'E_O_F' |\n");
                text.push_str(&body);
                text.push_str("E_O_F\n");
                text.push_str(["", "\n", "# comment between the stages\n", "\n\n"][(*form % 4) as usize]);
                text.push_str(&format!("{}sink k{n}\n", if *form >= 4 { "relay |\n" } else { "" }));
                expect.push((format!("k{n}"), vec![body.len().to_string(), format!("{:016x}", fnv(body.as_bytes())), "ok".into()]));
            }
            Item::Comment => text.push_str("# a comment line with a quote ' and a brace {\n"),
            Item::Blank => text.push_str("\n"),
            Item::Continuation(n) => {
                text.push_str(&format!("probe \\\nk{n} con\\\ntinued\n"));
                expect.push((format!("k{n}"), vec!["continued".into()]));
            }
            Item::Pos(n) => {
                if with_pos {
                    text.push_str(&format!("pos k{n} 0\n"));
                    expect.push((format!("k{n}"), vec![text.len().to_string()]));
                }
            }
        }
    }
    let mut syntax_error = false;
    if syntax_error_at == Some(items.len()) {
        text.push_str("probe k9998; fi\n");
        syntax_error = true;
    }
    Rendered { syntax_error, text, expect }
}

fn gen_items(rng: &mut Rng) -> Vec<Item> {
    let mut next = 0u32;
    let mut id = || {
        next += 1;
        next
    };
    let data = |rng: &mut Rng| -> String {
        // data lines that would be harmful or visible if executed as commands
        rng.pick(&["probe k9990 executed-data", "exit 9", "fi", "data line", "alias x=y", "'unterminated quote", "probe k9991 #"]).to_string()
    };
    let n = rng.range(3, 10);
    let mut items = Vec::new();
    let mut defs: Vec<u32> = Vec::new();
    let mut funcs: Vec<u32> = Vec::new();
    for _ in 0..n {
        let it = match rng.below(33) {
            29 | 30 => Item::PipeReader(id(), data(rng), rng.below(12) as u8),
            31 | 32 => Item::HereDocPipe(id(), (0..rng.range(0, 3)).map(|_| data(rng)).collect(), rng.below(8) as u8),
            26 => Item::SetMonitor(rng.chance(60)),
            27 | 28 => Item::AsyncReader(id(), rng.below(6) as u8),
            24 | 25 => Item::HereDocThenRead(id(), id(), (0..rng.range(0, 2)).map(|_| data(rng)).collect(), data(rng)),
            0 | 1 => Item::Probe(id()),
            2 => Item::Two(id(), id()),
            3 | 4 => Item::Read(id(), data(rng)),
            5 => Item::Read2(id(), data(rng), data(rng)),
            6 => Item::ReadLoop(id(), data(rng), data(rng)),
            7 => Item::ReadInGroup(id(), data(rng)),
            8 | 9 => {
                let n = id();
                defs.push(n);
                Item::AliasDef(n)
            }
            10 | 11 if !defs.is_empty() => Item::AliasUse(*rng.pick(&defs)),
            12 => Item::SetNoglob(rng.chance(50)),
            13 => Item::GlobProbe(id()),
            14 => Item::MultiIf(id(), id(), id()),
            15 => Item::MultiFor(id()),
            16 => {
                let n = id();
                funcs.push(n);
                Item::FuncDef(n)
            }
            17 if !funcs.is_empty() => Item::FuncCall(*rng.pick(&funcs)),
            18 => Item::HereDoc(id(), (0..rng.range(0, 3)).map(|_| data(rng)).collect()),
            19 => {
                if rng.chance(50) {
                    Item::Comment
                } else {
                    Item::Blank
                }
            }
            20 => Item::Continuation(id()),
            21 => Item::SetPortable(rng.chance(60)),
            22 => Item::PortableSensitive(id(), id()),
            _ => Item::Pos(id()),
        };
        items.push(it);
    }
    items.push(Item::Pos(id()));
    items.push(Item::Probe(id()));
    items
}

struct Mode {
    name: &'static str,
    cfg: vsh::VCfg,
}

fn events_of(out: &vsh::VOut) -> Vec<(String, Vec<String>)> {
    out.events
        .iter()
        .filter(|e| e.kind == "probe")
        .map(|e| (e.args.first().cloned().unwrap_or_default(), e.args[1..].to_vec()))
        .collect()
}

fn compare(ctx: &Ctx, what: &str, r: &Rendered, out: &vsh::VOut, _planted: bool, detail: &str) -> bool {
    let syntax_error = r.syntax_error;
    let got = events_of(out);
    let ctxt = || format!("{what}: {detail}\nscript:\n{}\nexpected events: {:?}\nobserved events: {:?}\nstderr:\n{}", r.text, r.expect, got, out.err());
    if out.end != vsh::End::Done {
        ctx.violation(format!("{what}:no-termination"), format!("{:?}\n{}", out.end, ctxt()));
        return false;
    }
    if let Some(e) = out.events.iter().find(|e| e.kind == "stdin-nonblocking") {
        ctx.violation(format!("{what}:stdin-left-nonblocking"), format!("the command `probe {:?}` found standard input in non-blocking mode\n{}", e.args, ctxt()));
        return false;
    }
    if got != r.expect {
        let kind = if got.len() < r.expect.len() {
            "commands-missing"
        } else if got.len() > r.expect.len() {
            "extra-commands"
        } else {
            "different-events"
        };
        ctx.violation(format!("{what}:{kind}"), ctxt());
        return false;
    }
    let code = out.exit_code();
    if syntax_error && code == Some(0) || !syntax_error && code != Some(0) {
        ctx.violation(format!("{what}:exit-status"), format!("exit status {code:?}\n{}", ctxt()));
        return false;
    }
    true
}

fn base_cfg(args: Vec<String>) -> vsh::VCfg {
    let mut cfg = vsh::VCfg::with_args(args);
    cfg.extra = vsh::v_probes();
    cfg
}

/// all ways to split `n` bytes into at most 3 non-empty chunks (positions of the cuts)
fn splits(n: usize) -> Vec<Vec<usize>> {
    let mut v = vec![vec![]];
    for a in 1..n {
        v.push(vec![a]);
    }
    for a in 1..n {
        for b in a + 1..n {
            v.push(vec![a, b]);
        }
    }
    v
}

fn chunks_of(text: &str, cuts: &[usize]) -> Vec<Vec<u8>> {
    let b = text.as_bytes();
    let mut out = Vec::new();
    let mut prev = 0;
    for &c in cuts {
        out.push(b[prev..c].to_vec());
        prev = c;
    }
    out.push(b[prev..].to_vec());
    out
}

pub fn run(ctx: &Ctx) {
    // a foreground command that is stopped and continued from outside is still the current
    // command: the next line is not read before it has finished
    crate::checks::c13::stop_continue_slice(ctx, "C18");
    let quick = ctx.quick();
    let nscripts = if quick { 250 } else { 4000 };
    let seed = ctx.seed;
    ctx.par_for(
        nscripts,
        |i| {
            let mut rng = Rng::new(seed.wrapping_mul(0xC18).wrapping_add(i as u64));
            let items = gen_items(&mut rng);
            let syn = rng.chance(30).then(|| rng.range(1, items.len()));
            let mut runs = 0usize;
            // A. regular file on fd 0, with offset probes
            let r = render(&items, true, true, syn);
            let mut cfg = base_cfg(vec!["yash".into()]);
            cfg.stdin = r.text.as_bytes().to_vec();
            if r.text.is_empty() {
                return;
            }
            let out = vsh::run_v(cfg);
            runs += 1;
            let mut ok = compare(ctx, "file", &r, &out, syn.is_some(), "standard input is a regular file; `pos` probes report the offset of fd 0");
            // B. pipe, chunked
            let rp = render(&items, true, false, syn);
            if ok {
                let n = rp.text.len();
                let mut cutsets: Vec<Vec<usize>> = Vec::new();
                if n <= (if quick { 60 } else { 120 }) {
                    cutsets = splits(n);
                } else {
                    cutsets.push(vec![]);
                    // every single cut, plus random pairs
                    for a in 1..n {
                        cutsets.push(vec![a]);
                    }
                    for _ in 0..(if quick { 60 } else { 400 }) {
                        let a = rng.range(1, n - 2);
                        let b = rng.range(a + 1, n - 1);
                        cutsets.push(vec![a, b]);
                    }
                }
                // random fine-grained chunkings
                for _ in 0..(if quick { 20 } else { 100 }) {
                    let mut cuts: Vec<usize> = (1..n).filter(|_| rng.chance(25)).collect();
                    cuts.dedup();
                    cutsets.push(cuts);
                }
                // one byte at a time
                cutsets.push((1..n).collect());
                for (k, cuts) in cutsets.iter().enumerate() {
                    let mut cfg = base_cfg(vec!["yash".into()]);
                    cfg.stdin_chunks = Some(chunks_of(&rp.text, cuts));
                    cfg.strategy = if k % 3 == 0 {
                        Strategy::Fifo
                    } else {
                        Strategy::Random {
                            seed: rng.next(),
                            preempt_pct: 40,
                            max_preempt: 1000,
                        }
                    };
                    let out = vsh::run_v(cfg);
                    runs += 1;
                    if !compare(ctx, "pipe", &rp, &out, syn.is_some(), &format!("standard input is a pipe written in chunks cut at byte offsets {cuts:?}")) {
                        ok = false;
                        break;
                    }
                }
                ctx.count("pipe_chunkings_run", cutsets.len() as i64);
            }
            // C. -c string and D. dot script: `read` would read the (empty) standard input there,
            // so the same items without reads
            if ok {
                let rc = render(&items, false, false, syn);
                let mut cfg = base_cfg(vec!["yash".into(), "-c".into(), rc.text.clone()]);
                cfg.strategy = Strategy::Fifo;
                let out = vsh::run_v(cfg);
                runs += 1;
                ok = compare(ctx, "-c", &rc, &out, syn.is_some(), "script passed as a -c string");
                if ok {
                    let mut cfg = base_cfg(vec!["yash".into(), "-c".into(), ". /tmp/script".into()]);
                    cfg.files.push(("/tmp/script".into(), FileSpec::Regular(rc.text.as_bytes().to_vec())));
                    let out = vsh::run_v(cfg);
                    runs += 1;
                    ok = compare(ctx, "dot", &rc, &out, syn.is_some(), "script read by the . built-in");
                }
                if ok {
                    let mut cfg = base_cfg(vec!["yash".into(), "/tmp/script".into()]);
                    cfg.files.push(("/tmp/script".into(), FileSpec::Regular(rc.text.as_bytes().to_vec())));
                    let out = vsh::run_v(cfg);
                    runs += 1;
                    compare(ctx, "file-operand", &rc, &out, syn.is_some(), "script file given as operand");
                }
            }
            ctx.evals(runs);
            ctx.nontrivial(crate::util::fnv_str(&r.text));
            if i % (nscripts / 5).max(1) == 0 {
                ctx.sample(J::obj(vec![("script", J::s(r.text.clone())), ("expected_events", J::s(format!("{:?}", r.expect))), ("runs", J::I(runs as i64))]));
            }
        },
        |i, msg| {
            ctx.violation(
                if crate::util::panic_in_repo(&msg) { format!("panic:{}", msg.split(": ").next().unwrap_or("")) } else { "harness-panic".into() },
                format!("script {i}: {msg}"),
            )
        },
    );
    ctx.count("scripts", nscripts as i64);
    ctx.assume("aliases and option changes are only used on lines after the line that makes them");
    ctx.assume("the feeder writes one chunk per scheduling turn; the scheduler decides when the feeder and the shell run");
}

pub const RULE: &str = "generated scripts of 5-12 items (probes, `read` consuming the following 1-2 input lines incl. inside a loop and a multi-line group, alias definitions used on later lines, set -f/+f observed by a later glob, multi-line if/for/function definitions, quoted here-documents, comments, blank lines, line continuations, fd-0 offset probes) with data lines that would be visible or fatal if executed, optionally a syntax error planted at a later line; each script is run with standard input as a regular file (offsets checked), as a pipe in every split into <= 3 chunks (scripts <= 60/120 bytes; otherwise every single cut + random pairs) plus random fine chunkings and one-byte chunks under FIFO and random schedules, as a -c string, through `.` and as a script operand; the probe trace (and here-document bytes) must equal the line-based sequential model in every run. evaluations = runs; distinct_nontrivial = distinct scripts";
