//! C20 — built-ins accept every equivalent spelling of an invocation, and only those.
//! Part A: `parse_arguments` against the reference parser, exhaustively over small specs/argvs.
//! Part B (catalogue of real built-ins, all equivalent spellings) lives in c20b.rs.

use crate::models::optparse::{self as m, MErr, MSpec};
use crate::util::{Ctx, J};
use yash_builtin::common::syntax::{
    Mode, OptionArgumentSpec, OptionSpec, OptionSpelling, ParseError, parse_arguments,
};
use yash_env::semantics::Field;

fn pool() -> Vec<MSpec> {
    vec![
        MSpec { short: Some('a'), long: None, arg: false },
        MSpec { short: Some('b'), long: Some("bar"), arg: false },
        MSpec { short: Some('o'), long: None, arg: true },
        MSpec { short: None, long: Some("long"), arg: false },
        MSpec { short: None, long: Some("lot"), arg: false },
        MSpec { short: None, long: Some("lo"), arg: false },
        MSpec { short: Some('p'), long: Some("opt"), arg: true },
    ]
}

fn argv_tokens(full: bool) -> Vec<&'static str> {
    let mut t = vec![
        "-", "--", "-a", "-ab", "-b", "-oX", "-o", "-ao", "--long", "--lo", "--l", "--long=X", "--opt", "--opt=X", "X",
    ];
    if full {
        t.extend(["-ba", "-aoX", "-x", "--op=", "--lot", "--b", "-p", "-pX", "--o", "--bar=X", "--opt=X=Y", "--long=", "--opt="]);
    }
    t
}

fn to_real(specs: &[MSpec]) -> Vec<OptionSpec<'static>> {
    specs
        .iter()
        .map(|s| {
            let mut o = OptionSpec::new();
            if let Some(c) = s.short {
                o = o.short(c);
            }
            if let Some(l) = s.long {
                o = o.long(l);
            }
            if s.arg {
                o = o.argument(OptionArgumentSpec::Required);
            }
            o
        })
        .collect()
}

fn classify(e: &ParseError) -> MErr {
    match e {
        ParseError::UnknownShortOption(c, _) => MErr::UnknownShort(*c),
        ParseError::UnknownLongOption(_) => MErr::UnknownLong,
        ParseError::AmbiguousLongOption(..) => MErr::Ambiguous,
        ParseError::MissingOptionArgument(..) => MErr::Missing,
        ParseError::UnexpectedOptionArgument(..) => MErr::Unexpected,
        ParseError::NonPortableShortOption(..)
        | ParseError::NonPortableLongOption(..)
        | ParseError::UnseparatedOptionArgument(..) => MErr::NonPortable,
        _ => MErr::UnknownLong,
    }
}

fn check_one(ctx: &Ctx, mspecs: &[MSpec], rspecs: &[OptionSpec<'static>], ext: bool, argv: &[String]) {
    let want = m::parse(mspecs, ext, argv);
    let mode = if ext { Mode::with_extensions() } else { Mode::default() };
    let got = parse_arguments(rspecs, mode, Field::dummies(argv.iter().cloned()));
    let got_m: m::MResult = match &got {
        Ok((occ, operands)) => Ok((
            occ.iter()
                .map(|o| m::MOcc {
                    spec: rspecs.iter().position(|s| std::ptr::eq(s, o.spec)).unwrap_or(usize::MAX),
                    arg: o.argument.as_ref().map(|f| f.value.clone()),
                    long_spelling: matches!(o.spelling, OptionSpelling::Long),
                })
                .collect(),
            operands.iter().map(|f| f.value.clone()).collect(),
        )),
        Err(e) => Err(classify(e)),
    };
    if got_m != want {
        let kind = match (&want, &got_m) {
            (Ok(_), Ok(_)) => "different-parse".to_string(),
            (Ok(_), Err(e)) => format!("spurious-error:{e:?}"),
            (Err(e), Ok(_)) => format!("accepted-malformed:{e:?}"),
            (Err(a), Err(b)) => format!("wrong-error:{a:?}/{b:?}"),
        };
        ctx.violation(
            format!("A:{kind}"),
            format!(
                "option specs {mspecs:?}\nmode: {}\nargv {argv:?}\nreference parser: {want:?}\nparse_arguments: {got_m:?}",
                if ext { "with extensions" } else { "portable" }
            ),
        );
    }
    if let Ok((occ, ops)) = &want {
        if occ.len() >= 2 || occ.iter().any(|o| o.arg.is_some()) || (!occ.is_empty() && !ops.is_empty()) {
            ctx.nontrivial(crate::util::fnv_str(&format!("{mspecs:?}{ext}{argv:?}")));
        }
    }
}

pub fn run_a(ctx: &Ctx) {
    let pool = pool();
    let toks = argv_tokens(true);
    let maxlen = if ctx.quick() { 4 } else { 5 };
    // all subsets of the pool with at most 3 options
    let mut sets: Vec<Vec<MSpec>> = Vec::new();
    for mask in 0u32..(1 << pool.len()) {
        if mask.count_ones() <= 3 {
            sets.push((0..pool.len()).filter(|i| mask & (1 << i) != 0).map(|i| pool[i]).collect());
        }
    }
    let nt = toks.len();
    let total_argv: usize = (0..=maxlen).map(|l| nt.pow(l as u32)).sum();
    let sets = &sets;
    let toks = &toks;
    ctx.par_for(
        sets.len() * 2,
        |job| {
            let mspecs = &sets[job / 2];
            let ext = job % 2 == 0;
            let rspecs = to_real(mspecs);
            let mut n = 0usize;
            for len in 0..=maxlen {
                let count = nt.pow(len as u32);
                for mut idx in 0..count {
                    let mut argv = Vec::with_capacity(len);
                    for _ in 0..len {
                        argv.push(toks[idx % nt].to_string());
                        idx /= nt;
                    }
                    check_one(ctx, mspecs, &rspecs, ext, &argv);
                    n += 1;
                    if n % 200_003 == 0 && job % 16 == 0 {
                        ctx.sample(J::obj(vec![
                            ("part", J::s("A: parse_arguments")),
                            ("specs", J::s(format!("{mspecs:?}"))),
                            ("extensions", J::B(ext)),
                            ("argv", J::s(format!("{argv:?}"))),
                            ("reference", J::s(format!("{:?}", m::parse(mspecs, ext, &argv)))),
                        ]));
                    }
                }
            }
            ctx.evals(n);
        },
        |i, msg| {
            ctx.violation(
                if crate::util::panic_in_repo(&msg) { "A:panic" } else { "harness-panic" },
                format!("spec-set job {i}: {msg}"),
            )
        },
    );
    ctx.count("A_spec_sets", sets.len() as i64);
    ctx.count("A_argvs_per_spec_set_and_mode", total_argv as i64);
}

pub fn run(ctx: &Ctx) {
    run_a(ctx);
    crate::checks::c20b::run_b(ctx);
    crate::checks::c20b::run_c(ctx);
    ctx.assume("models/optparse.rs: XBD 12.2 + documented extensions; an empty long-option name (`--=X`) is not generated");
}

pub const RULE: &str = "Part A: every subset of at most 3 options from a pool of 7 (flags, option with argument, long-only options sharing prefixes, short+long pairs) x both modes (portable / with extensions) x every argument vector up to length 4 (quick) / 5 over the token alphabet {-, --, -a, -ab, -b, -oX, -o, -ao, --long, --lo, --l, --long=X, --opt, --opt=X, X + 11 more: -ba -aoX -x --op= --lot --b -p -pX --o --bar=X --opt=X=Y --long= --opt=}: yash_builtin::common::syntax::parse_arguments vs the reference parser (options in order with arguments and spelling, operands, error class). evaluations = (spec set, mode, argv) triples; distinct_nontrivial = distinct triples whose reference parse has >=2 options, an option-argument, or options and operands";
