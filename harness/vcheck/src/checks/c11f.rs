//! C11 part F: the signal state a program finds when the stock shell (real system, `yash_cli::main`)
//! starts it - through `exec`, as an ordinary command, in subshells, asynchronous lists, pipelines
//! and command substitutions - after every kind of `trap` set-up and after the shell has installed
//! its internal handlers. The kernel is the monitor: `/proc/self/status` of the started program
//! shows the blocked and ignored sets it inherited. Expected: nothing blocked, ignored exactly what
//! the shell found ignored + the signals with `trap ''` (+ INT and QUIT for an asynchronous list
//! without job control). Also: an interactive shell whose `exec` failed goes on with the handlers
//! it needs (TERM/QUIT/INT do not kill it).

use crate::util::Ctx;

const OBS: &str = "/bin/cat /proc/self/status";

fn bit(sig: u32) -> u64 {
    1u64 << (sig - 1)
}
const INT: u32 = 2;
const QUIT: u32 = 3;
const USR1: u32 = 10;
const USR2: u32 = 12;
const TERM: u32 = 15;
const HUP: u32 = 1;
const CHLD: u32 = 17;

struct Obs {
    blk: u64,
    ign: u64,
}

fn parse(text: &str) -> Vec<(String, Vec<Obs>)> {
    // "@TAG" lines followed by any number of status dumps
    let mut out: Vec<(String, Vec<Obs>)> = Vec::new();
    let mut blk: Option<u64> = None;
    for l in text.lines() {
        if let Some(t) = l.strip_prefix('@') {
            out.push((t.to_string(), Vec::new()));
        } else if let Some(v) = l.strip_prefix("SigBlk:") {
            blk = u64::from_str_radix(v.trim(), 16).ok();
        } else if let Some(v) = l.strip_prefix("SigIgn:") {
            if let (Some(b), Ok(i), Some(last)) = (blk.take(), u64::from_str_radix(v.trim(), 16), out.last_mut()) {
                last.1.push(Obs { blk: b, ign: i });
            }
        }
    }
    out
}

pub fn run(ctx: &Ctx) {
    let Some(stock) = std::env::current_exe().ok().and_then(|e| e.parent().map(|d| d.join("yash3w"))).filter(|p| p.exists()) else {
        ctx.inconclusive.fetch_add(1, std::sync::atomic::Ordering::Relaxed);
        return;
    };
    // what the shell itself inherits from this harness
    // (every child of this part starts with default dispositions and an empty mask - see
    // util::start_with_default_signals - so `base` is what such a start looks like from inside)
    let base = {
        let mut c = std::process::Command::new("/bin/cat");
        c.arg("/proc/self/status").env_clear().stdin(std::process::Stdio::null());
        crate::util::start_with_default_signals(&mut c);
        c.output()
    };
    let Some(base) = base.ok().map(|o| parse(&format!("@base\n{}", String::from_utf8_lossy(&o.stdout)))).and_then(|mut v| v.pop()).and_then(|(_, mut o)| o.pop()) else {
        ctx.inconclusive.fetch_add(1, std::sync::atomic::Ordering::Relaxed);
        return;
    };
    // (trap set-up, signals ignored by it)
    let traps: Vec<(&str, u64)> = vec![
        ("", 0),
        ("trap '/bin/echo t' USR1", 0),
        ("trap '' USR2", bit(USR2)),
        ("trap '/bin/echo t' INT", 0),
        ("trap ':' CHLD", 0),
        ("trap '/bin/echo t' USR1; trap - USR1", 0),
        ("trap '/bin/echo t' USR1 TERM HUP; trap '' QUIT", bit(QUIT)),
        ("trap '' USR1; trap '/bin/echo t' USR1", 0),
        ("trap '/bin/echo t' USR2; trap '' USR2", bit(USR2)),
        ("trap '/bin/echo t' EXIT", 0),
    ];
    let warmups = ["", "/bin/true", "/bin/true & wait", "x=$(/bin/echo)", "/bin/true | /bin/true", "kill -s USR1 $$"];
    // (form, is the observed program part of an asynchronous list?)
    // Not generated: a command substitution in an interactive job-control shell - that subshell is
    // not a job of its own and deliberately keeps TSTP/TTIN/TTOU ignored (trap.rs enter_subshell,
    // `keep_internal_dispositions_for_stoppers`), as other shells do.
    let forms: Vec<(&str, bool)> = vec![
        ("OBS", false),
        ("exec OBS", false),
        ("(OBS)", false),
        ("(exec OBS)", false),
        ("OBS & wait", true),
        ("{ OBS; } & wait", true),
        ("(OBS) & wait", true),
        ("x=$(OBS); /bin/echo \"$x\"", false),
        ("OBS | /bin/cat", false),
        ("/bin/cat /dev/null | OBS", false),
        ("command OBS", false),
        ("f() { OBS; }; f", false),
        ("eval 'OBS'", false),
        ("if OBS; then :; fi", false),
        ("{ OBS | /bin/cat; } & wait", true),
    ];
    let modes: [(&str, &[&str]); 3] = [("non-interactive", &[]), ("non-interactive -m", &["-m"]), ("-i", &["-i"])];
    let (nt, nw, nf) = (traps.len(), warmups.len(), forms.len());
    let jobs: Vec<(usize, usize, usize, usize)> = (0..nt).flat_map(|t| (0..nw).flat_map(move |w| (0..nf).flat_map(move |f| (0..3usize).map(move |m| (t, w, f, m))))).collect();
    let per = if ctx.quick() { 3 } else { 1 };
    let (jobs, stock, traps, forms, base) = (&jobs, &stock, &traps, &forms, &base);
    ctx.par_for(
        jobs.len(),
        |i| {
            // quick: a third of the matrix, chosen by the seed
            if ((i as u64).wrapping_mul(0x9E37_79B9_7F4A_7C15).rotate_left(17) ^ ctx.seed.wrapping_mul(0xD6E8_FEB8_6659_FD93)) % per != 0 {
                return;
            }
            let (t, w, f, m) = jobs[i];
            let (trap, ign) = traps[t];
            let (form, asynchronous) = forms[f];
            let (mname, margs) = modes[m];
            if form.contains("$(") && m == 2 {
                return;
            }
            // `kill -s USR1 $$` as a warm-up only makes sense with a USR1 command trap
            if warmups[w].starts_with("kill") && !(trap.contains("USR1") && !trap.contains("- USR1") && !trap.starts_with("trap '' USR1")) {
                return;
            }
            let script = format!("{trap}\n{}\n/bin/echo @obs\n{}\n", warmups[w], form.replace("OBS", OBS));
            let mut cmd = std::process::Command::new(stock);
            cmd.args(margs).env_clear().env("PATH", "/bin:/usr/bin").env("LANG", "C");
            crate::util::start_with_default_signals(&mut cmd);
            let out = crate::util::run_child(cmd, Some(script.clone().into_bytes()), 60);
            let Ok(out) = out else {
                ctx.inconclusive.fetch_add(1, std::sync::atomic::Ordering::Relaxed);
                return;
            };
            ctx.eval();
            ctx.count("exec_boundary_runs", 1);
            let text = String::from_utf8_lossy(&out.stdout).into_owned();
            let obs = parse(&text);
            let ctxt = || format!("stock shell ({mname}), script on standard input:\n{script}stdout (status lines only):\n{}\nstderr:\n{}", text.lines().filter(|l| l.starts_with('@') || l.starts_with("SigBlk") || l.starts_with("SigIgn") || l.starts_with("SigCgt")).collect::<Vec<_>>().join("\n"), String::from_utf8_lossy(&out.stderr));
            let Some((_, o)) = obs.iter().find(|(t, _)| t == "obs") else {
                ctx.violation("exec-boundary:no-observation", ctxt());
                return;
            };
            if o.len() != 1 {
                ctx.violation("exec-boundary:no-observation", format!("{} status dumps\n{}", o.len(), ctxt()));
                return;
            }
            let o = &o[0];
            // an asynchronous list ignores INT and QUIT unless job control is active for it
            // (job control: -m; an interactive shell turns it on by default)
            let job_control = m != 0;
            let want_ign = base.ign | ign | if asynchronous && !job_control { bit(INT) | bit(QUIT) } else { 0 };
            let shown = [INT, QUIT, USR1, USR2, TERM, HUP, CHLD, 20, 21, 22];
            let names = |mask: u64| -> String {
                let mut v: Vec<String> = Vec::new();
                for s in 1..=64u32 {
                    if mask & bit(s) != 0 {
                        v.push(match s {
                            1 => "HUP".into(),
                            2 => "INT".into(),
                            3 => "QUIT".into(),
                            10 => "USR1".into(),
                            12 => "USR2".into(),
                            13 => "PIPE".into(),
                            15 => "TERM".into(),
                            17 => "CHLD".into(),
                            20 => "TSTP".into(),
                            21 => "TTIN".into(),
                            22 => "TTOU".into(),
                            n => n.to_string(),
                        });
                    }
                }
                let _ = shown;
                format!("{{{}}}", v.join(","))
            };
            let mut ok = true;
            if o.blk != base.blk {
                ok = false;
                ctx.violation(
                    format!("exec-boundary:blocked:{}", names(o.blk ^ base.blk)),
                    format!("the started program finds {} blocked (the shell itself was started with {})\n{}", names(o.blk), names(base.blk), ctxt()),
                );
            }
            if o.ign != want_ign {
                ok = false;
                ctx.violation(
                    format!("exec-boundary:ignored:{}", names(o.ign ^ want_ign)),
                    format!("the started program finds {} ignored, expected {}\n{}", names(o.ign), names(want_ign), ctxt()),
                );
            }
            if ok {
                ctx.nontrivial_str(&format!("execb|{t}|{w}|{f}|{m}"));
            }
        },
        |i, msg| ctx.violation("harness-panic", format!("exec-boundary case {i}: {msg}")),
    );

    // an interactive shell survives a failed exec with its handlers in place (with and without job control)
    for (k, sig) in ["TERM", "QUIT", "INT"].iter().enumerate() {
        for pre in ["", "/bin/true\n", "trap '/bin/echo t' USR1\n", "set +m\n", "set +m\n/bin/true\n", "set -m\n"] {
            let script = format!("{pre}exec /nonexistent/cmd\nkill -s {sig} $$\n/bin/echo @survived\n");
            let mut cmd = std::process::Command::new(stock);
            cmd.arg("-i").env_clear().env("PATH", "/bin:/usr/bin").env("LANG", "C");
            crate::util::start_with_default_signals(&mut cmd);
            let out = crate::util::run_child(cmd, Some(script.clone().into_bytes()), 60);
            let Ok(out) = out else {
                ctx.inconclusive.fetch_add(1, std::sync::atomic::Ordering::Relaxed);
                continue;
            };
            ctx.eval();
            ctx.count("failed_exec_runs", 1);
            let text = String::from_utf8_lossy(&out.stdout);
            if !text.contains("@survived") {
                ctx.violation(
                    format!("failed-exec:interactive-shell-killed-by:{sig}"),
                    format!("an interactive shell whose exec failed was ended by SIG{sig} ({:?}), which it ignores or catches otherwise\nscript on standard input (-i):\n{script}stdout:\n{text}\nstderr:\n{}", out.status, String::from_utf8_lossy(&out.stderr)),
                );
            } else {
                ctx.nontrivial_str(&format!("failedexec|{k}|{pre}"));
            }
        }
    }

    // The stop signals TSTP/TTIN/TTOU are ignored by an interactive shell exactly while job control
    // (monitor) is on - whatever else the same `set` command changes, and in whatever order the
    // options are spelled. The kernel is the monitor: SigIgn of the shell itself (/proc/$$/status).
    // Lines of one group must leave the same ignored set; the first line of each group is the plain
    // spelling, whose stop-signal bits are pinned (all three set / all three clear).
    let stop_bits = bit(20) | bit(21) | bit(22);
    let groups: [(&str, bool, &[&str]); 4] = [
        ("-i", true, &["set -m", "set -mC", "set -Cm", "set -m -C", "set -C -m", "set -o monitor -C", "set -m +C", "set -mu", "set -m -o noclobber", "set -m --"]),
        ("-i", false, &["set +m", "set +m -C", "set -C +m", "set +mC", "set +o monitor -C", "set +m +C", "set +m -u", "set +m --"]),
        ("-i +m", true, &["set -m", "set -mC", "set -Cm", "set -m -C", "set -C -m", "set -m -u"]),
        ("-i +m", false, &["set +m", "set +m -C", "set -C +m", "set -C"]),
    ];
    for (args, monitor_on, lines) in groups {
        let mut reference: Option<u64> = None;
        for (k, line) in lines.iter().enumerate() {
            let script = format!("{line}\n/bin/echo @shell\n/bin/grep Sig /proc/$$/status\n");
            let mut cmd = std::process::Command::new(stock);
            cmd.args(args.split(' ')).env_clear().env("PATH", "/bin:/usr/bin").env("LANG", "C");
            crate::util::start_with_default_signals(&mut cmd);
            let Ok(out) = crate::util::run_child(cmd, Some(script.clone().into_bytes()), 60) else {
                ctx.inconclusive.fetch_add(1, std::sync::atomic::Ordering::Relaxed);
                continue;
            };
            ctx.eval();
            ctx.count("stop_signal_runs", 1);
            let text = String::from_utf8_lossy(&out.stdout).into_owned();
            let ign = text.lines().find_map(|l| l.strip_prefix("SigIgn:")).and_then(|v| u64::from_str_radix(v.trim(), 16).ok());
            let ctxt = || format!("stock shell ({args}), script on standard input:\n{script}stdout:\n{text}\nstderr:\n{}", String::from_utf8_lossy(&out.stderr));
            let Some(ign) = ign else {
                ctx.violation("stop-signals:no-observation", ctxt());
                continue;
            };
            // /proc masks: bit n-1 stands for signal n
            let stops = ign & (stop_bits >> 0);
            let want = if monitor_on { stop_bits } else { 0 };
            if stops != want {
                ctx.violation(
                    format!("stop-signals:{}:{}", if monitor_on { "not-ignored-with-job-control" } else { "ignored-without-job-control" }, if k == 0 { "plain" } else { "combined-set" }),
                    format!("after `{line}` job control is {} but the shell's SigIgn is {ign:016x} (TSTP/TTIN/TTOU bits {stops:x}, expected {want:x})\n{}", if monitor_on { "on" } else { "off" }, ctxt()),
                );
                continue;
            }
            match reference {
                None => reference = Some(ign),
                Some(r) if r != ign => ctx.violation("stop-signals:spelling-differs", format!("`{}` leaves SigIgn {r:016x}, `{line}` leaves {ign:016x}\n{}", lines[0], ctxt())),
                _ => ctx.nontrivial_str(&format!("stops|{args}|{line}")),
            }
        }
    }
}
