//! C14 on the real system: the harness shell (real kernel pipes: 64 KiB, PIPE_BUF 4096) moves
//! payloads of sizes around those boundaries through pipelines that mix built-ins of the shell
//! (whose I/O goes through `Concurrent`: temporary non-blocking mode, select) with external
//! utilities that share the same open file descriptions. Conservation: the consumer counts exactly
//! the bytes produced (length and hash); the descriptors of the shell are back in blocking mode
//! afterwards (an external utility that inherits a non-blocking pipe loses data with EAGAIN).

use crate::util::{Ctx, Rng};
use crate::vsh;

struct Case {
    script: String,
    /// (tag, expected bytes) for every `tally`
    want: Vec<(String, Vec<u8>)>,
}

fn cases(rng: &mut Rng, n: usize) -> Vec<Case> {
    let sizes = [0usize, 1, 511, 512, 4095, 4096, 4097, 65535, 65536, 65537, 70000, 131072, 200001, 300000];
    let mut v = Vec::new();
    for i in 0..n {
        let size = if i < sizes.len() * 2 { sizes[i % sizes.len()] } else { rng.below(400_000) as usize };
        let seed = rng.below(1000);
        let k = [0usize, 64, 1000][rng.below(3) as usize];
        let data = vsh::gen_stream(size, seed, k, 0, 0);
        let g = format!("gen {size} {seed} {k}");
        let shape = i % 9;
        let (script, want): (String, Vec<(String, Vec<u8>)>) = match shape {
            0 => (format!("{g} | tally a"), vec![("a".into(), data)]),
            1 => (format!("{g} | relay | tally a"), vec![("a".into(), data)]),
            2 => (format!("{g} | /bin/cat | tally a"), vec![("a".into(), data)]),
            3 => (format!("{g} | /bin/cat | relay | /bin/cat | tally a"), vec![("a".into(), data)]),
            4 => (format!("{g} > f.dat; /bin/cat f.dat | tally a; tally b < f.dat"), vec![("a".into(), data.clone()), ("b".into(), data)]),
            5 => {
                // a built-in reads one line, an external utility the rest of the same pipe
                let first = data.iter().position(|&b| b == b'\n').map(|p| p + 1).unwrap_or(data.len());
                (format!("{g} | {{ read -r line; /bin/cat; }} | tally a"), vec![("a".into(), data[first..].to_vec())])
            }
            6 => {
                // command substitution (trailing newlines removed), value passed on through a here-document
                let mut d = data.clone();
                while d.last() == Some(&b'\n') {
                    d.pop();
                }
                d.push(b'\n');
                (format!("x=$({g}); /bin/cat <<E | tally a\n$x\nE"), vec![("a".into(), d)])
            }
            7 => (format!("{{ {g}; {g}; }} | {{ /bin/cat; }} | tally a"), vec![("a".into(), [data.clone(), data].concat())]),
            _ => (format!("{g} | ( exec 9>&1; relay >&9 ) | tally a"), vec![("a".into(), data)]),
        };
        v.push(Case { script: format!("nbfd start\n{script}\nnbfd end\n"), want });
    }
    v
}

/// Real processes run in parallel: four built-in writers (forked subshells of the harness shell)
/// share one pipe end and finish at arbitrary moments of each other's write calls. After `wait`
/// the shared description is back in blocking mode and the consumer has every byte.
fn shared_description_stress(ctx: &Ctx) {
    let rounds = if ctx.quick() { 120 } else { 1500 };
    let shards = if ctx.quick() { 4 } else { 16 };
    ctx.par_for(
        shards,
        |k| {
            // even shards: four writers on one pipe end; odd shards: three readers on one pipe end
            let body = if k % 2 == 0 {
                format!("{{ gen 5000 {k}1 & gen 5000 {k}2 & gen 5000 {k}3 & gen 5000 {k}4; wait; nbfd e; }} | tally t")
            } else {
                format!("gen 20000 {k} 64 | {{ relay <&0 & relay <&0 & relay; wait; nbfd e; }} | tally t")
            };
            let script = format!("i=0\nwhile [ $i -lt {rounds} ]; do\n  i=$((i+1))\n  {body}\ndone\n");
            let mut cmd = std::process::Command::new(std::env::current_exe().unwrap());
            cmd.args(["real-shell", "-c", &script]).env_clear().env("PATH", "/bin:/usr/bin").env("LANG", "C");
            let out = match crate::util::run_child(cmd, None, 300) {
                Ok(o) => o,
                Err(e) => {
                    if e.starts_with("BLOCKED") {
                        ctx.violation("real:shared-description-stress:blocked", format!("{e}\nscript:\n{script}"));
                    } else {
                        ctx.inconclusive.fetch_add(1, std::sync::atomic::Ordering::Relaxed);
                    }
                    return;
                }
            };
            let err = String::from_utf8_lossy(&out.stderr);
            let modes: Vec<&str> = err.lines().filter(|l| l.starts_with("@e ")).collect();
            let tallies: Vec<&str> = err.lines().filter(|l| l.starts_with("@t ")).collect();
            ctx.evals(modes.len());
            ctx.count("real_shared_description_rounds", modes.len() as i64);
            let stuck = modes.iter().filter(|l| l.contains(":n")).count();
            let short = tallies.iter().filter(|l| !l.starts_with("@t 20000 ") || !l.ends_with(" ok")).count();
            if modes.len() != rounds || tallies.len() != rounds {
                ctx.violation("real:shared-description-stress:incomplete", format!("{} of {rounds} rounds reported their descriptor modes, {} their byte counts\nscript:\n{script}stderr (tail):\n{}", modes.len(), tallies.len(), err.lines().rev().take(10).collect::<Vec<_>>().join("\n")));
            } else if stuck > 0 {
                ctx.violation("real:descriptor-left-non-blocking", format!("after {stuck} of {rounds} rounds a descriptor of the shell was left in non-blocking mode, e.g. `{}`\nscript:\n{script}", modes.iter().find(|l| l.contains(":n")).unwrap()));
            } else if short > 0 {
                ctx.violation("real:bytes-lost-or-changed", format!("{short} of {rounds} rounds did not deliver 20000 bytes, e.g. `{}`\nscript:\n{script}", tallies.iter().find(|l| !l.starts_with("@t 20000 ")).unwrap_or(&"")));
            } else {
                ctx.nontrivial_str(&format!("stress|{k}|{}", crate::util::fnv_str(&tallies.join("\n"))));
            }
        },
        |i, msg| ctx.violation("harness-panic", format!("shared-description stress {i}: {msg}")),
    );
}

pub fn run(ctx: &Ctx) {
    shared_description_stress(ctx);
    let n = if ctx.quick() { 54 } else { 900 };
    let mut rng = Rng::new(ctx.seed.wrapping_mul(0x9E37_79B9).wrapping_add(14));
    let cs = cases(&mut rng, n);
    let cs = &cs;
    ctx.par_for(
        cs.len(),
        |i| {
            let c = &cs[i];
            let dir = std::env::temp_dir().join(format!("verif-c14r-{}-{i}", std::process::id()));
            let _ = std::fs::remove_dir_all(&dir);
            if std::fs::create_dir_all(&dir).is_err() {
                ctx.inconclusive.fetch_add(1, std::sync::atomic::Ordering::Relaxed);
                return;
            }
            let mut cmd = std::process::Command::new(std::env::current_exe().unwrap());
            cmd.args(["real-shell", "-c", &c.script]).current_dir(&dir).env_clear().env("PATH", "/bin:/usr/bin").env("LANG", "C");
            // the harness end of standard output is a pipe as well: the start/end listings show it
            let started = std::time::Instant::now();
            let out = crate::util::run_child(cmd, None, 60);
            let _ = std::fs::remove_dir_all(&dir);
            let out = match out {
                Ok(o) => o,
                Err(e) => {
                    // a run that sits idle for the whole (generous) limit is blocked, not slow
                    let _ = started;
                    if e.starts_with("BLOCKED") {
                        ctx.violation("real:pipeline-did-not-finish", format!("{e}\nscript:\n{}", c.script));
                    } else {
                        ctx.inconclusive.fetch_add(1, std::sync::atomic::Ordering::Relaxed);
                    }
                    return;
                }
            };
            ctx.eval();
            ctx.count("real_pipeline_runs", 1);
            let err = String::from_utf8_lossy(&out.stderr).into_owned();
            let line = |tag: &str| err.lines().find(|l| l.starts_with(&format!("@{tag} "))).map(|l| l.to_string());
            let ctxt = || format!("harness shell on the real system\nscript:\n{}stderr:\n{err}", c.script);
            let mut ok = true;
            for (tag, data) in &c.want {
                let want = format!("@{tag} {} {:016x} ok", data.len(), crate::util::fnv(data));
                ctx.count("real_pipeline_bytes", data.len() as i64);
                if line(tag).as_deref() != Some(want.as_str()) {
                    ok = false;
                    ctx.violation("real:bytes-lost-or-changed", format!("consumer `{tag}` reported {:?}, expected {want:?}\n{}", line(tag), ctxt()));
                }
            }
            match (line("start"), line("end")) {
                (Some(s), Some(e)) => {
                    if s.trim_start_matches("@start") != e.trim_start_matches("@end") || e.contains(":n") {
                        ok = false;
                        ctx.violation("real:descriptor-left-non-blocking", format!("blocking mode of the shell's descriptors before `{s}`, after `{e}`\n{}", ctxt()));
                    }
                }
                _ => {
                    ok = false;
                    ctx.violation("real:no-listing", ctxt());
                }
            }
            if ok {
                ctx.nontrivial_str(&c.script);
            }
        },
        |i, msg| ctx.violation("harness-panic", format!("real pipeline case {i}: {msg}")),
    );
}
