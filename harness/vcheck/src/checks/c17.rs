//! C17 — alias substitution terminates and rewrites exactly the eligible words.
//!
//! For every alias table and command line: (1) the real parser, given the table through a
//! look-up-counting `Glossary`, must finish within a look-up bound (a CPU-time watchdog backs
//! this up); (2) its trees must equal the trees the same parser produces, with no aliases, for the
//! text that `models::alias` obtains by substituting by hand. Locations are erased.

use crate::checks::c06;
use crate::models::alias::{self, AliasDef, Table};
use crate::util::{Ctx, J, Rng};
use std::cell::Cell;
use std::rc::Rc;
use yash_env::source::Location;
use yash_syntax::alias::{Alias, Glossary};

#[derive(Debug)]
struct Counting {
    defs: Vec<Rc<Alias>>,
    lookups: Cell<usize>,
    /// exceeding this stops the parse (reported as non-termination of alias substitution)
    hard_bound: usize,
}

impl Glossary for Counting {
    fn look_up(&self, name: &str) -> Option<Rc<Alias>> {
        self.lookups.set(self.lookups.get() + 1);
        if self.lookups.get() > self.hard_bound {
            panic!("verif: alias look-up bound exceeded");
        }
        self.defs.iter().find(|a| a.name == name).cloned()
    }
    fn is_empty(&self) -> bool {
        self.defs.is_empty()
    }
}

fn glossary(table: &Table, hard_bound: usize) -> Counting {
    Counting {
        hard_bound,
        defs: table
            .iter()
            .map(|(n, d)| {
                Rc::new(Alias {
                    name: n.clone(),
                    replacement: d.value.clone(),
                    global: d.global,
                    origin: Location::dummy(""),
                })
            })
            .collect(),
        lookups: Cell::new(0),
    }
}

/// alias values (names a b c are the aliases; x y z plain commands)
const VALUES_QUICK: [&str; 18] = ["do x", "b", "b ", "x\t", "x b ", "x G ", "c x", "a x", "", " ", "if", "!", "{", "x;", "| x", "&& x", ">f", "v=1"];
const VALUES_MORE: [&str; 18] = [
    "c ", "a ", "b\t", "\"a\"", "\\a", "x y ", "b c", "( b", "x; b", "then", "do", "} ", "fi", "! b", "b\nc", "x &&", "do x ", "x do",
];
const GLOBAL_VALUES: [&str; 6] = ["x", "'b'", "y ", "c", "b x", "a "];

const SLOT: [&str; 9] = ["a", "b", "c", "x", "\"a\"", "\\b", "a'c'", "v=a", "G"];

const TEMPLATES: [&str; 46] = [
    "command _ _",
    "command command _ _",
    "x ; command _",
    "_ _ ) _ ;; esac",
    "case x in ( _ ) _ ;; ( _ | _ ) _ ;; esac",
    "_",
    "_ _",
    "_ _ _",
    "_ _ _ _",
    "x _ _",
    "v=1 _ _",
    "v=1 w=2 _ _ _",
    ">f _ _",
    "_ >f _",
    "_ 2> f _",
    "_ && _",
    "_ && _ _ || _ _",
    "x || _ _",
    "_ | _ | _",
    "_ ; _",
    "_ & _",
    "! _ _",
    "( _ _ )",
    "( _ ) && _",
    "{ _ _ ; }",
    "{ _ ; } | _",
    "if _ ; then _ _ ; fi",
    "if _ ; then _ ; else _ _ ; fi",
    "if _ ; then _ ; elif _ ; then _ ; fi",
    "while _ ; do _ _ ; done",
    "until _ _ ; do _ ; done",
    "for i in _ _ ; do _ _ ; done",
    "for i ; do _ ; done",
    "for i in _ ; _ _ ; done",
    "for i in x ; _ ; _ ; done",
    "for i ; _ _ ; done",
    "for i in x\n_\n_ ; done",
    "for i _ _ ; done",
    "case _ in _ ) _ _ ;; esac",
    "case x in x | _ ) _ ;; ( y ) _ ;; esac",
    "_ \\\n _ _",
    "_ &&\n _ _",
    "_ _\n_ _",
    "x && \\\n _",
    "_ |\n_",
    "! _ | _",
];

const SOUP: [&str; 24] = [
    "a", "b", "c", "G", "x", "\"a\"", "v=1", ">f", ";", "&&", "||", "|", "&", "(", ")", "{", "}", "!", "if", "then", "fi", "\n", "\\\n", "do",
];

fn fill(template: &str, rng: &mut Rng, slots: &[&str]) -> String {
    let mut out = String::new();
    for c in template.chars() {
        if c == '_' {
            out.push_str(rng.pick(slots));
        } else {
            out.push(c);
        }
    }
    out
}

fn check_one(ctx: &Ctx, table: &Table, line: &str, origin: &str) {
    ctx.eval();
    let describe = || {
        let t: Vec<String> = table.iter().map(|(n, d)| format!("alias {}{n}={:?}", if d.global { "-g " } else { "" }, d.value)).collect();
        format!("{origin}\naliases: {}\ncommand line: {line:?}", t.join("; "))
    };
    crate::util::guard_case(|| describe());
    let model = alias::substitute(table, line);
    if let Some(why) = model.undefined {
        ctx.count(&format!("skipped_model_undefined({why})"), 1);
        crate::util::unguard_case();
        return;
    }
    // termination: bounded number of look-ups (checked while parsing: an unbounded substitution
    // would otherwise grow the source buffer until the process dies)
    let ntok = line.split_whitespace().count() + table.values().map(|d| d.value.split_whitespace().count() + 1).sum::<usize>();
    let bound = 50 * (ntok + 1) * (table.len() + 1);
    let g = glossary(table, bound);
    crate::util::LAST_PANIC_LOC.with(|l| l.borrow_mut().clear());
    let real = std::panic::catch_unwind(std::panic::AssertUnwindSafe(|| c06::parse_all_with(line, &g, bound)));
    crate::util::unguard_case();
    let real = match real {
        Ok(r) => r,
        Err(e) => {
            let msg = crate::util::panic_msg(&e);
            if msg.contains("alias look-up bound exceeded") {
                ctx.violation("lookup-bound", format!("alias substitution did not finish within {bound} look-ups\n{}", describe()));
            } else {
                ctx.violation(format!("panic:{}", msg.split(": ").next().unwrap_or("")), format!("the parser panicked: {msg}\n{}", describe()));
            }
            return;
        }
    };
    ctx.count_max("max_lookups_in_one_parse", g.lookups.get() as i64);
    if let Some(e) = &real.error {
        if e.starts_with("harness:") {
            ctx.violation("runaway", format!("{e}\n{}", describe()));
            return;
        }
    }
    let expect = c06::parse_all(&model.text);
    let show = |p: &c06::Parsed| -> String {
        let mut s: Vec<String> = p.lists.iter().map(|l| l.to_string()).collect();
        if let Some(e) = &p.error {
            s.push(format!("<syntax error {}>", c06::scrub(e).chars().take(60).collect::<String>()));
        }
        s.join(" ⏎ ")
    };
    let key = |p: &c06::Parsed| -> String {
        let mut s: Vec<String> = p.lists.iter().map(|l| c06::scrub(&format!("{l:?}"))).collect();
        if let Some(e) = &p.error {
            // the kind of error only
            s.push(format!("error:{}", e.split(|c: char| !c.is_alphanumeric()).next().unwrap_or("")));
        }
        s.join("\u{1}")
    };
    if key(&real) != key(&expect) {
        let class = if real.error.is_some() != expect.error.is_some() { "error-vs-tree" } else if real.error.is_some() { "different-error" } else { "different-tree" };
        ctx.violation(
            format!("alias:{class}"),
            format!(
                "{}\nparser with aliases   : {}\nby hand ({} substitutions): {:?}\n  which parses as      : {}",
                describe(),
                show(&real),
                model.substitutions,
                model.text,
                show(&expect)
            ),
        );
        return;
    }
    if model.substitutions > 0 {
        ctx.nontrivial(crate::util::fnv_str(&format!("{line}\u{1}{}", model.text)));
        ctx.count("cases_with_substitution", 1);
        if real.error.is_none() {
            ctx.count("cases_with_substitution_and_valid_syntax", 1);
        }
    }
}

/// cases that exposed defects earlier (run in every tier)
const REGRESSION: [(&str, &str, &str, &str); 8] = [
    // a case pattern right after a blank-ending alias value that ends in `(`
    ("case b in ( ", "x", "b", "a c ) x ;; esac"),
    ("case b in ( ", "x", "b", "a b ) x ;; esac"),
    ("case b in ", "x ", "b", "a c ) x ;; esac"),
    // the word after `command` is an argument, not a command name
    ("x y", "b", "b", "command a c"),
    ("b\nc", " ", "b", "x && a \\b || v=a \\b"),
    ("b\nc", "", "x\t", "x && \\\n a"),
    (" ", "x &&", "b ", "b a\na'c' \\b"),
    ("\nx", "b", "b", "x || a"),
];

/// "The commands executed equal those obtained by performing these textual substitutions by hand":
/// the whole shell (virtual system) runs a script that defines aliases - including values that span
/// lines - and uses them, read from standard input as a file, as a pipe fed line by line, as a -c
/// string, and by an interactive shell (`-i`); the probe events must be those of the script with the
/// substitutions written out.
fn executed_commands(ctx: &Ctx) {
    // (alias definitions, use, the use written out by hand)
    const CASES: [(&str, &str, &str); 12] = [
        ("alias two='probe k1\nprobe k2'", "two", "probe k1\nprobe k2"),
        ("alias two='probe k1\nprobe k2'", "two; probe k3", "probe k1\nprobe k2; probe k3"),
        ("alias two='probe k1\nprobe k2'", "two x\nprobe k3", "probe k1\nprobe k2 x\nprobe k3"),
        ("alias m='probe k1 &&\nprobe k2'", "m y", "probe k1 &&\nprobe k2 y"),
        ("alias t='if probe k1\nthen probe k2\nfi\nprobe k3'", "t z", "if probe k1\nthen probe k2\nfi\nprobe k3 z"),
        ("alias three='probe k1\nprobe k2\nprobe k3'", "three\nthree w", "probe k1\nprobe k2\nprobe k3\nprobe k1\nprobe k2\nprobe k3 w"),
        ("alias a='b\nprobe k2'\nalias b='probe k1'", "a", "probe k1\nprobe k2"),
        ("alias a='probe k1\nb'\nalias b='probe k2\nprobe k3'", "a v", "probe k1\nprobe k2\nprobe k3 v"),
        ("alias g='{ probe k1\nprobe k2; }'", "g; probe k3", "{ probe k1\nprobe k2; }; probe k3"),
        ("alias nl='probe k1\n'", "nl\nprobe k2", "probe k1\n\nprobe k2"),
        ("alias sp='probe k1 '\nalias arg='k2\nprobe k3'", "sp arg", "probe k1 k2\nprobe k3"),
        ("alias c='probe k1 # comment\nprobe k2'", "c", "probe k1 # comment\nprobe k2"),
    ];
    for (defs, usage, by_hand) in CASES {
        let with_alias = format!("{defs}\n{usage}\nprobe k9\n");
        let written_out = format!("{by_hand}\nprobe k9\n");
        let ev = |out: &crate::vsh::VOut| -> Vec<String> { out.events.iter().filter(|e| e.kind == "probe").map(|e| e.args.join(" ")).collect() };
        let reference = ev(&crate::vsh::run_script(&written_out, crate::sched::Strategy::Fifo));
        for mode in ["file", "pipe by lines", "pipe by bytes", "-c", "-i", "-i pipe by lines"] {
            let mut cfg = match mode {
                "-c" => crate::vsh::VCfg::with_args(vec!["yash".into(), "-c".into(), with_alias.clone()]),
                "-i" | "-i pipe by lines" => crate::vsh::VCfg::with_args(vec!["yash".into(), "-i".into()]),
                _ => crate::vsh::VCfg::with_args(vec!["yash".into()]),
            };
            cfg.extra = crate::vsh::v_probes();
            match mode {
                "file" | "-i" => cfg.stdin = with_alias.as_bytes().to_vec(),
                "pipe by lines" | "-i pipe by lines" => cfg.stdin_chunks = Some(with_alias.split_inclusive('\n').map(|l| l.as_bytes().to_vec()).collect()),
                "pipe by bytes" => cfg.stdin_chunks = Some(with_alias.bytes().map(|b| vec![b]).collect()),
                _ => {}
            }
            let out = crate::vsh::run_v(cfg);
            ctx.eval();
            ctx.count("executed_command_runs", 1);
            let got = ev(&out);
            if got != reference || out.end != crate::vsh::End::Done {
                ctx.violation(
                    format!("alias:executed-commands:{mode}"),
                    format!("script ({mode}):\n{with_alias}executed probes {got:?} (end {:?})\nthe substitutions written out by hand:\n{written_out}execute {reference:?}\nstderr:\n{}", out.end, out.err()),
                );
            } else {
                ctx.nontrivial_str(&format!("aliasexec|{defs}|{usage}|{mode}"));
            }
        }
    }
}

pub fn run(ctx: &Ctx) {
    executed_commands(ctx);
    let quick = ctx.quick();
    for (a, b, c, line) in REGRESSION {
        let mut table = Table::new();
        for (n, v) in [("a", a), ("b", b), ("c", c)] {
            table.insert(
                n.to_string(),
                AliasDef {
                    value: v.to_string(),
                    global: false,
                },
            );
        }
        check_one(ctx, &table, line, "regression case");
    }
    let mut values: Vec<&str> = VALUES_QUICK.to_vec();
    if !quick {
        values.extend(VALUES_MORE);
    }
    let nv = values.len();
    let ntables = nv * nv * nv;
    let seed = ctx.seed;
    let values = &values;
    let per_table = if quick { 40 } else { 120 };
    ctx.par_for(
        ntables,
        |ti| {
            let mut rng = Rng::new(seed.wrapping_mul(0xC17).wrapping_add(ti as u64));
            let mut table = Table::new();
            for (k, name) in ["a", "b", "c"].iter().enumerate() {
                let v = values[(ti / nv.pow(k as u32)) % nv];
                table.insert(
                    name.to_string(),
                    AliasDef {
                        value: v.to_string(),
                        global: false,
                    },
                );
            }
            let with_global = ti % 3 == 0;
            if with_global {
                table.insert(
                    "G".into(),
                    AliasDef {
                        value: rng.pick(&GLOBAL_VALUES).to_string(),
                        global: true,
                    },
                );
            }
            // every template once with slots biased to alias names, then random fills and soup
            for t in TEMPLATES {
                let line = fill(t, &mut rng, &SLOT[..3]);
                check_one(ctx, &table, &line, "template, alias names in every slot");
            }
            for _ in 0..per_table {
                let t = *rng.pick(&TEMPLATES);
                let slots: &[&str] = if with_global { &SLOT } else { &SLOT[..8] };
                let line = fill(t, &mut rng, slots);
                check_one(ctx, &table, &line, "template, random slots");
            }
            for _ in 0..per_table / 2 {
                let n = rng.range(1, 7);
                let mut parts: Vec<&str> = Vec::new();
                for _ in 0..n {
                    let w = *rng.pick(&SOUP);
                    if w == "G" && !with_global {
                        continue;
                    }
                    parts.push(w);
                }
                let line = parts.join(" ");
                check_one(ctx, &table, &line, "token soup");
            }
            if ti % (ntables / 6).max(1) == 0 {
                let t: Vec<String> = table.iter().map(|(n, d)| format!("{n}={:?}", d.value)).collect();
                let line = fill("_ _ && _ _", &mut rng, &SLOT[..3]);
                let m = alias::substitute(&table, &line);
                ctx.sample(J::obj(vec![("aliases", J::s(t.join(" "))), ("line", J::s(line)), ("by_hand", J::s(m.text))]));
            }
        },
        |i, msg| ctx.violation("harness-panic", format!("table {i}: {msg}")),
    );
    ctx.count("alias_tables", ntables as i64);
    ctx.assume("tokens of the generated lines are separated by blanks, so no token mixes characters of different origin; alias names are never reserved words; alias values have balanced quotes and do not end in an operator followed by a blank");
    ctx.assume("global aliases (a yash extension) are placed only where the generated line has command words or arguments");
    ctx.assume("both sides are parsed by the same real parser; when both end in a syntax error only the trees before it and the kind of error are compared");
}

pub const RULE: &str = "all alias tables a,b,c -> values^3 over 17 (quick) / 33 values {another name, name+blank, self, two words, empty, blank only, tab-ending, reserved words if ! { then do fi }, operators ; | && ( , redirection, assignment, quoted forms, embedded newline} (+ a global alias G in every third table) x {41 templates with an alias name in every slot; 40/120 random fillings of the templates (command, argument, after assignment, after redirection, after ! ( { if then else elif while until do, for words, case subject/pattern/body, after line continuation and after newline following && |); 20/60 token-soup lines}. Real parser with a look-up-counting Glossary vs the same parser without aliases on the text substituted by hand by models::alias; trees compared with locations erased; look-up bound 50 x tokens x aliases; CPU-time watchdog. evaluations = (table, line) pairs; distinct_nontrivial = distinct (line, substituted text) pairs with at least one substitution";
