//! C14 — data through pipes and command substitutions arrives complete and in order.
//!
//! Conservation oracle: the `gen` stream is a pure function of its arguments; `sink` reports
//! (length, hash) of what arrived; `$(...)` must equal the stream minus exactly its trailing
//! newlines; here-document bodies must arrive byte for byte. Every scenario runs under FIFO,
//! bounded DFS and random preempting schedules (preemption inside read/write loops).

use crate::sched::{Strategy, next_dfs_prefix};
use crate::util::{Ctx, J, Rng, fnv};
use crate::vsh::{self, gen_stream};
use std::collections::HashSet;

#[derive(Clone, Debug)]
struct Scenario {
    script: String,
    /// expected events: (tag, expected args after the tag)
    expect: Vec<(String, Vec<String>)>,
    kind: &'static str,
    n: usize,
}

fn sink_args(data: &[u8]) -> Vec<String> {
    vec![data.len().to_string(), format!("{:016x}", fnv(data)), "ok".into()]
}

fn sizes(quick: bool) -> Vec<usize> {
    let mut v = vec![0, 1, 2, 36, 37, 38];
    for b in [511usize, 512, 1023, 1024, 2047, 2048, 4096] {
        for d in -2i64..=2 {
            v.push((b as i64 + d) as usize);
        }
    }
    if !quick {
        v.extend([3000, 3071, 3073, 5000, 8191, 8192, 8193, 10000]);
    }
    v.sort();
    v.dedup();
    v
}

fn relay_stage(rng: &mut Rng, shell_loop_ok: bool) -> String {
    match rng.below(if shell_loop_ok { 4 } else { 3 }) {
        0 | 1 => "relay".into(),
        2 => "{ relay; }".into(),
        _ => "while IFS= read -r l; do echo \"$l\"; done".into(),
    }
}

fn scenario(rng: &mut Rng, n: usize, idx: usize) -> Scenario {
    let seed = rng.below(1000);
    let k = *rng.pick(&[0usize, 0, 1, 7, 64, 512]);
    let t = rng.below(4) as usize;
    // white space other than newlines at the end of the payload must survive a command substitution
    let w = *rng.pick(&[0usize, 0, 0, 1, 2, 5]);
    let data = gen_stream(n, seed, k, t, w);
    let genc = format!("gen {n} {seed} {k} {t} {w}");
    match idx % 9 {
        8 => {
            // two writers share the write end of one pipe (an asynchronous built-in and a synchronous one
            // in the same pipeline stage): whatever the interleaving, every byte of both arrives exactly
            // once (the order between the two streams is the schedule's, so only the length is pinned)
            let m = *rng.pick(&[n, n / 2, 1500, 3000]);
            let script = format!("{{ {genc} & gen {m} {} 0 0 0; wait; }} | sink t8\n", seed + 1);
            Scenario {
                script,
                expect: vec![("t8".into(), vec![(data.len() + m).to_string(), "*".into(), "ok".into()])],
                kind: "two writers on one pipe",
                n,
            }
        }
        0 | 1 => {
            // gen | relay* | sink
            let stages = rng.range(0, 2 + (idx % 2));
            // the shell-loop relay preserves the stream only if it consists of complete lines
            let complete_lines = data.last() == Some(&b'\n') || data.is_empty();
            let mut s = genc.clone();
            for _ in 0..stages {
                s.push_str(" | ");
                s.push_str(&relay_stage(rng, complete_lines));
            }
            s.push_str(" | sink t1");
            // the same pipeline started with standard input and/or output closed: the pipe ends
            // then land on descriptors 0/1 themselves
            let s = match rng.below(6) {
                0 => format!("{{ {s}; }} <&-\n"),
                1 => format!("{{ {s}; }} >&-\n"),
                2 => format!("{{ {s}; }} <&- >&-\n"),
                _ => format!("{s}\n"),
            };
            Scenario {
                script: s,
                expect: vec![("t1".into(), sink_args(&data))],
                kind: "pipeline",
                n,
            }
        }
        2 => {
            // command substitution: value = stream minus trailing newlines
            let mut want = data.clone();
            while want.last() == Some(&b'\n') {
                want.pop();
            }
            let want = String::from_utf8(want).unwrap();
            let form = rng.below(3);
            let script = match form {
                0 => format!("v=$({genc}); probe t2 \"$v\"\n"),
                1 => format!("v=`{genc}`; probe t2 \"$v\"\n"),
                _ => format!("v=$(echo \"$({genc})\"); probe t2 \"$v\"\n"),
            };
            // the same with the shell's own standard output and/or input closed while the
            // substitution is expanded: the pipe ends then land on descriptors 0/1
            let script = match rng.below(8) {
                0 => format!("{{ {}; }} >&-\n", script.trim_end()),
                1 => format!("{{ {}; }} <&-\n", script.trim_end()),
                2 => format!("{{ {}; }} <&- >&-\n", script.trim_end()),
                _ => script,
            };
            Scenario {
                script,
                expect: vec![("t2".into(), vec![want])],
                kind: "command substitution",
                n,
            }
        }
        3 => {
            // command substitution feeding a pipeline and vice versa
            let mut want = data.clone();
            while want.last() == Some(&b'\n') {
                want.pop();
            }
            let want_s = String::from_utf8(want.clone()).unwrap();
            let script = format!("v=$({genc} | relay); probe t3 \"$v\"; {genc} | {{ w=$(relay); probe t4 \"$w\"; }}\n");
            Scenario {
                script,
                expect: vec![("t3".into(), vec![want_s.clone()]), ("t4".into(), vec![want_s])],
                kind: "substitution around a pipeline",
                n,
            }
        }
        4 => {
            // quoted here-document: body verbatim (lines of the stream; must end with a newline)
            let mut body = gen_stream(n, seed, if k == 0 { 61 } else { k }, 0, 0);
            if body.last() != Some(&b'\n') {
                body.push(b'\n');
            }
            // the delimiter must not occur as a line
            let text = String::from_utf8(body.clone()).unwrap();
            let script = format!("sink t5 <<'E_O_F'\n{text}E_O_F\n");
            Scenario {
                script,
                expect: vec![("t5".into(), sink_args(&body))],
                kind: "quoted here-document",
                n,
            }
        }
        6 | 7 => {
            // `<<-` here-documents: exactly the leading tabs of every line (and of the delimiter line)
            // are removed - spaces, and tabs after a space, are content
            let quoted = idx % 9 == 6;
            let lines = (n / 30).clamp(1, 200);
            let mut src = String::new();
            let mut want = String::new();
            let indents = ["", "\t", "\t\t", " ", "  ", "\t ", " \t", "\t \t", "    ", "\t\t  x"];
            for i in 0..lines {
                let ind = *rng.pick(&indents);
                let l: String = (0..rng.range(0, 20)).map(|j| (b'a' + ((i + j) % 26) as u8) as char).collect();
                src.push_str(&format!("{ind}{l} \t{l}\n"));
                want.push_str(&format!("{}{l} \t{l}\n", ind.trim_start_matches('\t')));
            }
            let delim_indent = *rng.pick(&["", "\t", "\t\t"]);
            let script = format!("sink t7 <<-{}\n{src}{delim_indent}E_O_F\n", if quoted { "'E_O_F'" } else { "E_O_F" });
            Scenario {
                script,
                expect: vec![("t7".into(), sink_args(want.as_bytes()))],
                kind: if quoted { "quoted <<- here-document" } else { "expanding <<- here-document" },
                n: src.len(),
            }
        }
        _ => {
            // expanding here-document: safe alphabet plus a parameter expansion per line
            let lines = (n / 40).min(200);
            let mut src = String::new();
            let mut want = String::new();
            for i in 0..lines {
                let l: String = (0..rng.range(0, 30)).map(|j| (b'a' + ((i + j) % 26) as u8) as char).collect();
                src.push_str(&format!("{l} $x \\$x {l}\n"));
                want.push_str(&format!("{l} val{seed} $x {l}\n"));
            }
            let script = format!("x=val{seed}\nsink t6 <<E_O_F\n{src}E_O_F\n");
            Scenario {
                script,
                expect: vec![("t6".into(), sink_args(want.as_bytes()))],
                kind: "expanding here-document",
                n: src.len(),
            }
        }
    }
}

fn run_one(sc: &Scenario, strategy: Strategy) -> (Result<(), String>, vsh::VOut) {
    let out = vsh::run_script(&sc.script, strategy);
    let r = (|| {
        if out.end != vsh::End::Done {
            return Err(format!("did not terminate: {:?} after {} steps", out.end, out.steps));
        }
        for (tag, want) in &sc.expect {
            let evs: Vec<&vsh::Event> = out.events.iter().filter(|e| e.args.first() == Some(tag)).collect();
            if evs.len() != 1 {
                return Err(format!("consumer {tag} reported {} times", evs.len()));
            }
            let got = &evs[0].args[1..];
            if got.len() != want.len() || got.iter().zip(want.iter()).any(|(g, w)| w != "*" && g != w) {
                let show = |v: &[String]| -> String {
                    v.iter()
                        .map(|s| if s.len() > 80 { format!("<{} bytes, hash {:016x}>", s.len(), fnv(s.as_bytes())) } else { format!("{s:?}") })
                        .collect::<Vec<_>>()
                        .join(", ")
                };
                return Err(format!("consumer {tag} received [{}], the producer sent [{}]", show(got), show(want)));
            }
        }
        if out.exit_code() != Some(0) {
            return Err(format!("exit status {:?}", out.exit_code()));
        }
        Ok(())
    })();
    (r, out)
}

pub fn run(ctx: &Ctx) {
    crate::checks::c14r::run(ctx);
    let quick = ctx.quick();
    let sizes = sizes(quick);
    let per_size = if quick { 60 } else { 400 };
    let nrandom = if quick { 30 } else { 80 };
    let dfs_cap = if quick { 25 } else { 150 };
    let seed = ctx.seed;
    let total = sizes.len() * per_size;
    let distinct: std::sync::Mutex<HashSet<u64>> = std::sync::Mutex::new(HashSet::new());
    let sizes = &sizes;
    ctx.par_for(
        total,
        |job| {
            let n = sizes[job / per_size];
            let idx = job % per_size;
            let mut rng = Rng::new(seed.wrapping_mul(0xC14).wrapping_add(job as u64));
            let sc = scenario(&mut rng, n, idx);
            let mut traces: HashSet<u64> = HashSet::new();
            let mut runs = 0;
            let mut preempts = 0i64;
            let mut fail = |strategy: &Strategy, e: String, out: &vsh::VOut| {
                ctx.violation(
                    format!("{}:{}", sc.kind, e.split(|c: char| c.is_ascii_digit() || c == '[').next().unwrap_or("").trim()),
                    format!(
                        "{} of {} bytes, schedule {strategy:?} (choices {:?})\nscript:\n{}\n{e}\nstderr:\n{}",
                        sc.kind,
                        sc.n,
                        out.choices,
                        if sc.script.len() > 600 { format!("{}...", &sc.script[..600]) } else { sc.script.clone() },
                        out.err()
                    ),
                );
            };
            'explore: {
                let mut strategies: Vec<Strategy> = vec![Strategy::Fifo];
                for k in 0..nrandom {
                    strategies.push(Strategy::Random {
                        seed: rng.next(),
                        preempt_pct: [15, 40, 70, 95][k % 4],
                        max_preempt: 100_000,
                    });
                }
                for st in strategies {
                    let (r, out) = run_one(&sc, st.clone());
                    runs += 1;
                    preempts += out.preempts as i64;
                    traces.insert(out.trace_hash);
                    if let Err(e) = r {
                        fail(&st, e, &out);
                        break 'explore;
                    }
                }
                // bounded DFS with up to 3 preemptions (small payloads only: the tree is huge otherwise)
                if n <= 1030 {
                    let mut prefix: Vec<u32> = vec![];
                    for _ in 0..dfs_cap {
                        let st = Strategy::Script {
                            prefix: prefix.clone(),
                            max_preempt: 3,
                        };
                        let (r, out) = run_one(&sc, st.clone());
                        runs += 1;
                        preempts += out.preempts as i64;
                        traces.insert(out.trace_hash);
                        if let Err(e) = r {
                            fail(&st, e, &out);
                            break 'explore;
                        }
                        match next_dfs_prefix(&out.choices) {
                            Some(p) => prefix = p,
                            None => break,
                        }
                    }
                }
            }
            ctx.evals(runs);
            ctx.count("preemptions_injected", preempts);
            ctx.count(&format!("runs_{}", sc.kind.replace(' ', "_")), runs as i64);
            let h = crate::util::fnv_str(&sc.script);
            distinct.lock().unwrap().extend(traces.into_iter().map(|t| t ^ h));
            if job % (total / 8).max(1) == 0 {
                ctx.sample(J::obj(vec![
                    ("kind", J::s(sc.kind)),
                    ("bytes", J::I(sc.n as i64)),
                    ("script", J::s(if sc.script.len() > 300 { format!("{}...", &sc.script[..300]) } else { sc.script.clone() })),
                    ("schedules_run", J::I(runs as i64)),
                ]));
            }
        },
        |i, msg| {
            ctx.violation(
                if crate::util::panic_in_repo(&msg) { format!("panic:{}", msg.split(": ").next().unwrap_or("")) } else { "harness-panic".into() },
                format!("scenario {i}: {msg}"),
            )
        },
    );
    let d = distinct.into_inner().unwrap();
    for t in &d {
        ctx.nontrivial(*t);
    }
    ctx.count("distinct_schedule_traces", d.len() as i64);
    ctx.count("payload_sizes", sizes.len() as i64);
    ctx.assume("virtual pipes: PIPE_BUF=512, PIPE_SIZE=1024; the real kernel's pipes are sampled by C19");
    ctx.assume("the shell-loop relay (while read) is only used on streams made of complete lines");
}

pub const RULE: &str = "scenarios: gen|sink with 0-3 relay stages (builtin relays with 37-byte reads, `while read` loops), v=$(gen) in three forms incl. nested substitution, substitution around a pipeline, quoted and expanding here-documents into sink; payload sizes 0,1,2, 36-38 and every value within +-2 of 511/512/1023/1024/2047/2048/4096 (thorough: up to 10000), newline every 0/1/7/64/512 bytes, 0-3 trailing newlines preceded by 0-5 other white-space bytes (space, tab, CR, VT, FF); each scenario under FIFO, 12 (quick) / 40 random schedules preempting inside read/write/read_all/write_all with 15-95% probability, and for payloads <= 1030 bytes a bounded depth-first enumeration with <= 3 preemptions. Conservation oracle: (length, hash) at the consumer = producer's stream; $(...) = stream minus exactly its trailing newlines. evaluations = runs; distinct_nontrivial = distinct (scenario, poll-order trace) pairs";
