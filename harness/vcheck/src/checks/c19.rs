//! C19 — the simulated OS and the real OS give the shell the same observable behaviour.
//!
//! Differential monitor: the same generated script is run by the same harness shell (same probe
//! built-ins, same start-up code) once on `RealSystem` in a scratch directory (a subprocess of
//! this binary) and once on `VirtualSystem` whose working directory has the same absolute path
//! and the same initial tree. Oracle: equality of standard output, exit status / terminating
//! signal, emptiness of standard error and the final file tree (type, permission bits, content).
//! In the thorough tier a slice of the real-system runs is repeated under valgrind memcheck.

use crate::util::{Ctx, J, Rng};
use crate::vsh::{self, FileSpec};
use std::collections::BTreeMap;
use std::path::{Path, PathBuf};
use yash_env::system::r#virtual::{FileBody, Inode, SystemState};

const FILES: [&str; 5] = ["f0", "f1", "f2", "d1/g0", "d1/d2/h0"];
const WORDS: [&str; 6] = ["alpha", "b c", "12345678", "", "x", "line with  two spaces"];

struct G<'a> {
    rng: &'a mut Rng,
    lines: Vec<String>,
    /// descriptors opened by exec (may or may not be open: errors are part of the game)
    fds: Vec<u32>,
    features: Vec<&'static str>,
    /// a cd has been generated: file names are given relative to $HERE from then on
    moved: bool,
}

impl G<'_> {
    fn file(&mut self) -> String {
        let f = if self.rng.chance(15) { *self.rng.pick(&["new1", "new2", "d1/new3"]) } else { *self.rng.pick(&FILES) };
        if self.moved { format!("\"$HERE\"/{f}") } else { f.to_string() }
    }
    fn word(&mut self) -> String {
        format!("'{}'", self.rng.pick(&WORDS))
    }
    fn fd(&mut self) -> u32 {
        if !self.fds.is_empty() && self.rng.chance(75) {
            *self.rng.pick(&self.fds)
        } else {
            self.rng.range(3, 8) as u32
        }
    }
    fn st(&mut self) {
        self.lines.push("echo \"st=$?\"".into());
    }
    fn statement(&mut self) {
        let r = self.rng.below(32);
        if self.moved && matches!(r, 17 | 20 | 21) && self.rng.chance(70) {
            // these use names relative to the tree root
            self.lines.push("cd \"$HERE\"".into());
        } else if self.moved && matches!(r, 20 | 21) {
            return;
        }
        match r {
            0 | 1 => {
                let (f, w) = (self.file(), self.word());
                let op = *self.rng.pick(&[">", ">>", ">|", "1<>", ">"]);
                self.lines.push(format!("echo {w} {op}{f}"));
                self.st();
            }
            2 | 3 => {
                let f = if self.rng.chance(12) { "missing".to_string() } else { self.file() };
                self.lines.push(format!("relay <{f}"));
                self.st();
            }
            4 | 5 => {
                let n = self.fd();
                let f = self.file();
                let op = *self.rng.pick(&[">", ">>", ">>", "<", "<>"]);
                self.lines.push(format!("exec {n}{op}{f}"));
                if !self.fds.contains(&n) {
                    self.fds.push(n);
                }
            }
            6 => {
                let (n, m) = (self.fd(), self.fd());
                let op = *self.rng.pick(&[">&", "<&"]);
                self.lines.push(format!("exec {n}{op}{m}"));
                self.st();
            }
            7 => {
                let n = self.fd();
                self.lines.push(format!("exec {n}>&-"));
            }
            8 | 9 | 10 => {
                let (n, w) = (self.fd(), self.word());
                self.lines.push(format!("echo {w} >&{n}"));
                self.st();
                if self.rng.chance(50) {
                    self.lines.push(format!("off {n}"));
                }
            }
            11 => {
                let n = self.fd();
                self.lines.push(format!("read v <&{n}; echo \"v=$v st=$?\""));
                if self.rng.chance(50) {
                    self.lines.push(format!("off {n}"));
                }
            }
            12 => {
                let f = self.file();
                self.lines.push(format!("read -r v w <{f}; echo \"v=$v w=$w st=$?\""));
            }
            13 | 14 => {
                // truncation through another descriptor while descriptors stay open on the file
                let f = self.file();
                self.lines.push(format!(": >{f}"));
            }
            15 | 16 => {
                let d = *self.rng.pick(&["d1", "d1/d2", "..", "/", "missing", "f0", "-", "../d1", ".", "d1/../d1/d2", "$OLDPWD", "-P ..", "-P d1/..", "-P ./d1/./d2", "-P d1/d2/../.."]);
                self.lines.push(format!("cd {d}; echo \"st=$? pwd=$PWD old=$OLDPWD\""));
                if self.rng.chance(40) {
                    self.lines.push(if self.rng.chance(50) { "pwd".into() } else { "pwd -P".into() });
                }
                self.moved = true;
                if !matches!(d, "d1" | "d1/d2" | "." | "d1/../d1/d2" | "missing" | "f0" | "-P ./d1/./d2") {
                    // come back into the tree: its surroundings differ between the two systems
                    self.lines.push("cd \"$HERE\"".into());
                }
            }
            17 => {
                let g = *self.rng.pick(&["*", "d1/*", "*/*", ".*", "f?", "[fd]*", "nomatch*", "d1/d2/*", "*/", "./*"]);
                self.lines.push(format!("echo {g}"));
            }
            18 => {
                let n = *self.rng.pick(&[0, 1, 511, 512, 513, 1024, 1025, 3000, 70000]);
                let f = self.file();
                let seed = self.rng.below(100);
                match self.rng.below(3) {
                    0 => self.lines.push(format!("gen {n} {seed} | relay >{f}")),
                    1 => self.lines.push(format!("gen {n} {seed} | relay | relay >>{f}")),
                    _ => self.lines.push(format!("gen {n} {seed} >{f}; relay <{f} | relay >{f}.copy")),
                }
                self.st();
            }
            19 => {
                let l = *self.rng.pick(&[
                    "echo a b | { read x y; echo \"$y $x\"; }",
                    "false | true; echo \"st=$?\"",
                    "true | false; echo \"st=$?\"",
                    "! true | false; echo \"st=$?\"",
                    "echo one | relay | relay",
                    "set -o pipefail; false | true; echo \"st=$?\"; set +o pipefail",
                ]);
                self.lines.push(l.into());
            }
            20 => {
                let f = self.file();
                let l = match self.rng.below(4) {
                    0 => "x=$(echo a; echo b; echo); echo \"[$x]\"".to_string(),
                    1 => format!("echo \"[$(relay <{f})] st=$?\""),
                    2 => "echo \"$(cd d1 2>/dev/null; pwd)\"; pwd".to_string(),
                    _ => "x=$(exit 7); echo \"st=$?\"".to_string(),
                };
                self.lines.push(l);
            }
            21 => {
                let l = *self.rng.pick(&[
                    "(cd d1; umask 077; echo x >sub; exit 3); echo \"st=$? $PWD\"; umask",
                    "(exec 3>&-; echo y >&3); echo \"st=$?\"",
                    "(trap 'echo in-sub' EXIT; exit 2); echo \"st=$?\"",
                    "{ exit 4; } & wait $!; echo \"st=$?\"",
                    "echo bg >bgfile & wait; relay <bgfile",
                    "(exit 5) & (exit 6) & wait; echo \"st=$?\"",
                    "wait 99999; echo \"st=$?\"",
                    // a directory in place of a command file: the PATH search passes over it
                    "(PATH=$HERE:$PATH; d1 2>/dev/null; echo \"st=$?\"; command -v d1; echo \"st=$?\")",
                    "(PATH=$HERE/d1:$PATH; d2 2>/dev/null; echo \"st=$?\"; command -v d2; echo \"st=$?\")",
                    // command names with a slash that cannot be executed
                    "./f0 2>/dev/null; echo \"st=$?\"; ./d1 2>/dev/null; echo \"st=$?\"; ./missing 2>/dev/null; echo \"st=$?\"; f0/x 2>/dev/null; echo \"st=$?\"",
                    "(exec ./f0) 2>/dev/null; echo \"st=$?\"; (exec ./d1) 2>/dev/null; echo \"st=$?\"; (exec ./missing) 2>/dev/null; echo \"st=$?\"",
                    "command -v ./f0; echo \"st=$?\"; command -v ./d1; echo \"st=$?\"; command -v ./missing; echo \"st=$?\"",
                    // descriptors shared with children: one offset, one set of flags
                    "exec 7<f0; (read -r a <&7; echo \"a=$a\"); read -r b <&7; echo \"b=$b\"; exec 7<&-",
                    "exec 7>>shared.out; (echo child >&7); echo parent >&7; exec 7>&-; relay <shared.out",
                    "exec 7>shared2.out; echo one >&7; (exec 7>&-; echo two >&7) 2>/dev/null; echo \"st=$?\"; echo three >&7; exec 7>&-; relay <shared2.out",
                    "exec 7<f0; read -r a <&7; x=$(read -r b <&7; echo \"b=$b\"); echo \"$x\"; read -r c <&7; echo \"a=$a c=$c\"; exec 7<&-",
                    "{ read -r a; (read -r b; echo \"b=$b\"); read -r c; echo \"a=$a c=$c\"; } <f0",
                    "echo first >trunc.out; exec 7<trunc.out; : >trunc.out; read -r a <&7; echo \"st=$? a=$a\"; exec 7<&-",
                    "exec 7<>rw.out; echo abc >&7; read -r a <&7; echo \"st=$? a=$a\"; exec 7>&-; relay <rw.out",
                    // CDPATH, cd through a file, unset HOME, pwd after cd
                    "(CDPATH=$HERE/d1; cd d2; echo \"st=$? $PWD\"; cd \"$HERE\")",
                    "(CDPATH=$HERE/missing:$HERE; cd d1; echo \"st=$? ${PWD#$HERE}\")",
                    "(CDPATH=:$HERE/d1; cd d2 2>/dev/null; echo \"st=$? ${PWD#$HERE}\")",
                    "(unset HOME; cd 2>/dev/null; echo \"st=$? ${PWD#$HERE}\")",
                    "(HOME=$HERE/d1; cd; echo \"st=$? ${PWD#$HERE}\"; cd -; echo \"st=$? ${PWD#$HERE}\") | relay",
                    "(cd d1/d2; cd ../..; echo \"st=$? ${PWD#$HERE}\"; cd d1/../f0 2>/dev/null; echo \"st=$? ${PWD#$HERE}\")",
                    "(cd d1; echo x >../up.out; relay <../up.out; echo *; echo ../f?)",
                    // odd but valid path spellings
                    "echo x >f0/ 2>/dev/null; echo \"st=$?\"; relay <f0/ 2>/dev/null; echo \"st=$?\"; echo y >newt/ 2>/dev/null; echo \"st=$?\"",
                    "relay <d1//g0; echo \"st=$?\"; relay <.//d1/./../d1/g0; echo \"st=$?\"; echo z >d1//two.out; echo \"st=$?\"; relay <d1/two.out",
                    "relay <\"\" 2>/dev/null; echo \"st=$?\"; echo x >\"\" 2>/dev/null; echo \"st=$?\"; (cd \"\" 2>/dev/null; echo \"st=$? ${PWD#$HERE}\")",
                    "(cd /..; echo \"st=$? $PWD\"; cd //; echo \"st=$? $PWD\"; cd /./; echo \"st=$? $PWD\")",
                    "(cd d1/; echo \"st=$? ${PWD#$HERE}\"; cd ../d1//d2/; echo \"st=$? ${PWD#$HERE}\"; echo */ ../*/ 2>&1)",
                    "exec 7<. ; read -r a <&7; echo \"st=$?\"; exec 7<&-",
                    "echo x >./d1/../d1/./dot.out; echo \"st=$?\"; relay <d1/dot.out; echo d1/dot*",
                    "echo x >d1/missing/../dd.out 2>/dev/null; echo \"st=$?\"; echo d1/dd*; relay <f0/../f1 2>/dev/null; echo \"st=$?\"",
                    // a child that has been waited for no longer exists: no signal reaches it
                    "(exit 3) & p=$!; wait; kill -s TERM $p 2>/dev/null; echo \"kill st=$?\"; wait $p; echo \"st=$?\"",
                    "(exit 4) & p=$!; wait $p; echo \"st=$?\"; kill -s 0 $p 2>/dev/null; echo \"kill0 st=$?\"; kill -s CONT $p 2>/dev/null; echo \"cont st=$?\"",
                    "{ exit 5; } & p=$!; wait $p; kill -s KILL $p 2>/dev/null; echo \"kill st=$?\"; wait $p; echo \"st=$?\"",
                    // descriptors 10 and up are where the shell keeps its own copies while a
                    // redirection is in effect: a script can neither reach nor replace them
                    "{ echo ten >&10; } >ten.out; echo \"st=$?\"; relay <ten.out",
                    "{ relay <&10; } <f0; echo \"st=$?\"",
                    "{ echo x 10>&1; echo y; } >ten.out; echo \"st=$?\"; relay <ten.out",
                    "{ { echo eleven >&11; } 2>/dev/null; } >ten.out; echo \"st=$?\"; relay <ten.out",
                    "{ exec 10>&-; echo still; } >ten.out; echo \"st=$?\"; relay <ten.out",
                ]);
                self.lines.push(l.into());
            }
            22 | 23 if self.rng.chance(20) => {
                // signals whose default action is to do nothing (URG, WINCH, CHLD) or to continue (CONT),
                // sent to the shell itself or to its process group with and without a trap
                let sig = *self.rng.pick(&["URG", "WINCH", "CHLD", "CONT"]);
                match self.rng.below(4) {
                    0 => self.lines.push(format!("kill -s {sig} $$; echo \"after-{sig} st=$?\"")),
                    1 => self.lines.push(format!("trap 'echo got-{sig}' {sig}; kill -s {sig} $$; echo after-{sig}; trap - {sig}; kill -s {sig} $$; echo again-{sig}")),
                    2 => self.lines.push(format!("(trap - {sig}; kill -s {sig} 0; echo child-alive-{sig}); echo \"st=$?\"")),
                    // (not with CHLD: a process that ignores SIGCHLD does not get to wait for its children -
                    // unspecified for a shell, and the real kernel then reaps them by itself)
                    _ if sig != "CHLD" => self.lines.push(format!("trap '' {sig}; (trap - {sig}; kill -s {sig} 0; echo child-alive-{sig}); echo \"st=$?\"; trap - {sig}")),
                    _ => self.lines.push(format!("kill -s {sig} $$; echo \"after-{sig} st=$?\"")),
                }
                self.features.push("signals");
            }
            22 | 23 => {
                let sig = *self.rng.pick(&["USR1", "USR2", "TERM", "INT", "HUP", "QUIT", "ALRM"]);
                match self.rng.below(5) {
                    0 | 1 => self.lines.push(format!("trap 'echo got-{sig} st=$?' {sig}; kill -s {sig} $$; echo after-{sig}")),
                    2 => self.lines.push(format!("trap '' {sig}; kill -s {sig} $$; echo survived-{sig}")),
                    3 if self.rng.chance(50) => self.lines.push(format!("trap - {sig}")),
                    // the signal arrives from a command substitution while the shell waits for it, and a
                    // second process is forked before the trap can run
                    3 => self.lines.push(format!("trap 'echo got-{sig}' {sig}; x=$(kill -s {sig} $$)$(echo second); echo \"x=$x st=$?\"")),
                    _ => self.lines.push(format!("trap 'echo got-{sig}; trap \"echo again-{sig}\" {sig}' {sig}; kill -s {sig} $$; kill -s {sig} $$; (trap -p {sig}; echo in-sub); echo \"st=$?\"")),
                }
                self.features.push("signals");
            }
            24 => {
                let m = *self.rng.pick(&["027", "077", "000", "022", "u=rwx,g=,o=", "a-w"]);
                let f = self.file();
                self.lines.push(format!("umask {m}; echo x >{f}.m; umask; umask -S"));
            }
            25 => {
                let f = self.file();
                self.lines.push(format!("set -C; echo clobber >{f}; echo \"st=$?\"; echo forced >|{f}; set +C"));
            }
            26 => {
                let l = *self.rng.pick(&[
                    "echo x >d1; echo \"st=$?\"",
                    "relay <d1; echo \"st=$?\"",
                    "echo x >f0/x; echo \"st=$?\"",
                    "relay <f0/x; echo \"st=$?\"",
                    "echo x >>d1/d2; echo \"st=$?\"",
                    "exec 8<missing; echo \"st=$?\"",
                    "echo x >&8; echo \"st=$?\"",
                    "relay <&8; echo \"st=$?\"",
                    "cd f0/..; echo \"st=$?\"",
                    "echo x 1<>d1; echo \"st=$?\"",
                ]);
                let l = if self.moved { format!("cd \"$HERE\"; command {l}") } else { format!("command {l}") };
                self.lines.push(l);
            }
            27 => {
                let x = self.word();
                self.lines.push(format!("v={x}; relay <<E\nhere $v $(echo sub)\nE\nrelay <<'E'\nraw $v\nE"));
            }
            28 => {
                let n = self.fd();
                self.lines.push(format!("while read -r l; do echo \"l=$l\"; done <&{n}; echo \"st=$?\""));
            }
            29 if self.rng.chance(50) => {
                let how = *self.rng.pick(&["-P", "-L", ""]);
                self.lines.push(format!("cd {how} \"$HERE\"/{}; echo \"st=$? len=${{#PWD}}\"; pwd -P | relay >\"$HERE\"/pwd.out; echo \"st=$?\"; pwd -L >/dev/null; echo \"st=$?\"; cd \"$HERE\"", long_chain()));
                self.moved = true;
            }
            30 | 31 => {
                // a descriptor kept open across a truncation or replacement of its file
                let (n, f) = (self.fd(), self.file());
                let (w1, w2) = (self.word(), self.word());
                let open = *self.rng.pick(&[">>", ">>", ">", "<>"]);
                let cut = match self.rng.below(3) {
                    0 => format!(": >{f}"),
                    1 => format!("echo short >{f}"),
                    _ => format!("echo longer-than-before-xxxxxxxxxxxxxxxxxxxxxxxx >|{f}"),
                };
                self.lines.push(format!("exec {n}{open}{f}; echo {w1} >&{n}; {cut}; echo {w2} >&{n}; echo \"st=$?\"; off {n}; relay <{f}"));
                if !self.fds.contains(&n) {
                    self.fds.push(n);
                }
            }
            _ => {
                // (the file read here is never a target of writes: reading a file while appending to
                // it through the group's redirection would not terminate on either system)
                let n = self.fd();
                let f = if self.moved { "\"$HERE\"/.hidden" } else { ".hidden" };
                self.lines.push(format!("{{ echo in-group; relay <{f}; }} >&{n}; echo \"st=$?\""));
            }
        }
    }
}

fn gen_script(rng: &mut Rng) -> (String, Vec<&'static str>) {
    let mut g = G {
        rng,
        lines: vec!["umask 022".into(), "HERE=$PWD".into()],
        fds: Vec::new(),
        features: Vec::new(),
        moved: false,
    };
    let kind = g.rng.below(20);
    if kind == 0 {
        // dedicated: creating a file in a directory that does not exist (see known findings)
        g.features.push("creat-in-missing-directory");
        let l = *g.rng.pick(&["echo x >nodir/f", "echo x >>nodir/sub/f", ": >d1/nodir/f", "exec 3>nodir/f"]);
        g.lines.push(format!("command {l}; echo \"st=$?\""));
        g.lines.push("echo *".into());
        return (g.lines.join("\n") + "\n", g.features);
    }
    let n = g.rng.range(3, 14);
    for _ in 0..n {
        g.statement();
    }
    // descriptor limit: every allocation at the boundary
    if g.rng.chance(20) {
        let k = g.rng.range(12, 18);
        g.lines.push(format!("ulimit -n {k}; echo \"st=$?\"; ulimit -n"));
        for d in [k - 1, k, k + 1] {
            g.lines.push(format!("command echo x {d}>lim{d}; echo \"st=$?\""));
        }
        g.lines.push(format!("command exec {}>&1; echo \"st=$?\"", k));
        if g.rng.chance(60) {
            // pipes when only one or two descriptors are free; a failed pipe ends the script, so the
            // follow-up that needs a descriptor runs in the EXIT trap
            // leave zero, one or two descriptors free below the limit
            let leave = g.rng.below(3) as i64;
            for d in 3..(k as i64 - leave) {
                if !g.fds.contains(&(d as u32)) {
                    g.lines.push(format!("exec {d}</dev/null"));
                }
            }
            g.lines.push("trap 'echo atexit >lim-exit; echo \"bye st=$?\"' EXIT".into());
            g.lines.push(match g.rng.below(3) {
                0 => "echo a | relay | relay; echo \"st=$?\"".to_string(),
                1 => "x=$(echo a); echo \"x=$x st=$?\"".to_string(),
                _ => "echo a | relay; echo \"st=$?\"; x=$(echo b | relay); echo \"x=$x st=$?\"".to_string(),
            });
        }
        g.features.push("ulimit");
    }
    // the end of the script
    // (after an asynchronous command - around whose fork the shell blocks INT and QUIT for a
    // moment - those two signals must be deliverable to the shell again)
    let had_async = g.lines.iter().any(|l| l.contains(" & "));
    if had_async && g.rng.chance(40) {
        // (no `trap -` first: resetting the trap would unblock the signal by itself)
        let sig = *g.rng.pick(&["INT", "QUIT"]);
        g.lines.push(format!("kill -s {sig} $$; echo after-{sig}"));
        g.features.push("signals");
    }
    match g.rng.below(8) {
        0 => g.lines.push("trap 'echo bye st=$?' EXIT".into()),
        1 => g.lines.push(format!("exit {}", g.rng.below(300))),
        2 => {
            let sig = *g.rng.pick(&["TERM", "INT", "HUP", "ALRM", "KILL"]);
            g.lines.push(format!("trap - {sig}; kill -s {sig} $$; echo not-reached"));
            g.features.push("signals");
        }
        3 => g.lines.push("trap 'echo bye; exit 9' EXIT; exit 3".into()),
        _ => {}
    }
    g.lines.push("cd \"$HERE\"; echo *; echo d1/*".into());
    (g.lines.join("\n") + "\n", g.features)
}

// ------------------------------------------------------------------ the two runs

type Tree = BTreeMap<String, String>;

/// six nested directories with 200-byte names: a working directory whose absolute path is longer
/// than 1024 bytes (the first buffer size of a typical getcwd loop)
fn long_chain() -> &'static str {
    static CHAIN: std::sync::OnceLock<String> = std::sync::OnceLock::new();
    CHAIN.get_or_init(|| (0..6).map(|i| format!("{}{}", i, "L".repeat(199))).collect::<Vec<_>>().join("/"))
}

fn initial_tree() -> Vec<(&'static str, Option<&'static [u8]>)> {
    vec![
        (long_chain(), None),
        ("d1", None),
        ("d1/d2", None),
        ("f0", Some(b"first line\nsecond line\nthird\n")),
        ("f1", Some(b"")),
        ("f2", Some(b"no newline at end")),
        ("d1/g0", Some(b"a b c\\\nd\n")),
        ("d1/d2/h0", Some(b"0123456789\n")),
        (".hidden", Some(b"h\n")),
    ]
}

#[derive(Debug, PartialEq, Eq)]
struct Obs {
    stdout: String,
    status: String,
    stderr_empty: bool,
    tree: Tree,
}

fn show_bytes(b: &[u8]) -> String {
    if b.len() > 200 {
        format!("{} bytes, fnv {:x}, head {:?}", b.len(), crate::util::fnv(b), String::from_utf8_lossy(&b[..60]))
    } else {
        format!("{:?}", String::from_utf8_lossy(b))
    }
}

fn walk_real(dir: &Path, prefix: &str, tree: &mut Tree) {
    let Ok(rd) = std::fs::read_dir(dir) else { return };
    for e in rd.flatten() {
        let name = e.file_name().to_string_lossy().into_owned();
        let rel = if prefix.is_empty() { name.clone() } else { format!("{prefix}/{name}") };
        let Ok(md) = std::fs::symlink_metadata(e.path()) else { continue };
        use std::os::unix::fs::PermissionsExt;
        let mode = md.permissions().mode() & 0o777;
        if md.is_dir() {
            tree.insert(rel.clone(), format!("dir {mode:o}"));
            walk_real(&e.path(), &rel, tree);
        } else if md.is_file() {
            let c = std::fs::read(e.path()).unwrap_or_default();
            tree.insert(rel, format!("file {mode:o} {}", show_bytes(&c)));
        } else {
            tree.insert(rel, "other".into());
        }
    }
}

fn walk_virtual(inode: &Inode, prefix: &str, tree: &mut Tree) {
    if let FileBody::Directory { files } = &inode.body {
        for (name, child) in files {
            let name = name.to_string_lossy().into_owned();
            let rel = if prefix.is_empty() { name.clone() } else { format!("{prefix}/{name}") };
            let c = child.borrow();
            let mode = c.permissions.bits() & 0o777;
            match &c.body {
                FileBody::Directory { .. } => {
                    tree.insert(rel.clone(), format!("dir {mode:o}"));
                    walk_virtual(&c, &rel, tree);
                }
                FileBody::Regular { content, .. } => {
                    tree.insert(rel, format!("file {mode:o} {}", show_bytes(content)));
                }
                _ => {
                    tree.insert(rel, "other".into());
                }
            }
        }
    }
}

#[derive(Clone, Copy, PartialEq, Eq)]
enum Mode {
    Plain,
    Valgrind,
    /// the harness binary built with AddressSanitizer (`./check` builds it and passes its path in VCHECK_ASAN_EXE)
    Asan,
}

fn asan_exe() -> Option<PathBuf> {
    let p = PathBuf::from(std::env::var_os("VCHECK_ASAN_EXE")?);
    p.is_file().then_some(p)
}

fn run_real(script: &str, dir: &Path, mode: Mode) -> Result<Obs, String> {
    let valgrind = mode == Mode::Valgrind;
    let _ = std::fs::remove_dir_all(dir);
    std::fs::create_dir_all(dir).map_err(|e| e.to_string())?;
    use std::os::unix::fs::PermissionsExt;
    for (p, c) in initial_tree() {
        let full = dir.join(p);
        match c {
            None => {
                std::fs::create_dir_all(&full).map_err(|e| e.to_string())?;
                std::fs::set_permissions(&full, std::fs::Permissions::from_mode(0o755)).ok();
            }
            Some(c) => {
                std::fs::write(&full, c).map_err(|e| e.to_string())?;
                std::fs::set_permissions(&full, std::fs::Permissions::from_mode(0o644)).ok();
            }
        }
    }
    std::fs::set_permissions(dir, std::fs::Permissions::from_mode(0o755)).ok();
    let exe = if mode == Mode::Asan { asan_exe().ok_or("no ASan binary")? } else { std::env::current_exe().map_err(|e| e.to_string())? };
    let mut cmd = if valgrind {
        let mut c = std::process::Command::new("valgrind");
        c.args(["-q", "--error-exitcode=99", "--errors-for-leak-kinds=none", "--trace-children=no"]).arg(&exe);
        c
    } else {
        std::process::Command::new(&exe)
    };
    cmd.args(["real-shell", "-c", script])
        .current_dir(dir)
        .env_clear()
        .env("PATH", "/bin:/usr/bin")
        .env("LANG", "C")
        .env("ASAN_OPTIONS", "detect_leaks=0:exitcode=97:abort_on_error=0:allocator_may_return_null=1")
        .stdin(std::process::Stdio::null())
        .stdout(std::process::Stdio::piped())
        .stderr(std::process::Stdio::piped());
    {
        use std::os::unix::process::CommandExt;
        cmd.process_group(0);
    }
    let mut child = cmd.spawn().map_err(|e| e.to_string())?;
    // generous wall-clock watchdog; expiry is inconclusive, not a verdict
    let start = std::time::Instant::now();
    let limit = if valgrind { 300 } else if mode == Mode::Asan { 120 } else { 30 };
    // read the pipes on threads so that a chatty child cannot block
    let mut so = child.stdout.take().unwrap();
    let mut se = child.stderr.take().unwrap();
    let t1 = std::thread::spawn(move || {
        let mut v = Vec::new();
        std::io::Read::read_to_end(&mut so, &mut v).ok();
        v
    });
    let t2 = std::thread::spawn(move || {
        let mut v = Vec::new();
        std::io::Read::read_to_end(&mut se, &mut v).ok();
        v
    });
    let status = loop {
        match child.try_wait() {
            Ok(Some(s)) => break s,
            Ok(None) => {
                if start.elapsed().as_secs() > limit {
                    // slow (loaded machine) or blocked for ever? A process tree that has used almost
                    // no CPU during the whole limit and is not runnable is blocked
                    let cpu = tree_cpu_ticks(child.id());
                    let _ = unsafe { libc::kill(-(child.id() as i32), libc::SIGKILL) };
                    let _ = child.kill();
                    let _ = child.wait();
                    return Err(match cpu {
                        Some(t) if t < 100 => format!("BLOCKED: the real-system run was still alive after {limit} s having used {t} clock ticks of CPU"),
                        _ => "real-system run exceeded the wall-clock watchdog".into(),
                    });
                }
                std::thread::sleep(std::time::Duration::from_millis(2));
            }
            Err(e) => return Err(e.to_string()),
        }
    };
    // whatever the script left running in its process group must not outlive the run
    let _ = unsafe { libc::kill(-(child.id() as i32), libc::SIGKILL) };
    let stdout = t1.join().unwrap_or_default();
    let stderr = t2.join().unwrap_or_default();
    use std::os::unix::process::ExitStatusExt;
    let status_s = match (status.code(), status.signal()) {
        (Some(c), _) => format!("exit:{c}"),
        (None, Some(s)) => format!("signal:{s}"),
        _ => "unknown".into(),
    };
    let mut tree = Tree::new();
    walk_real(dir, "", &mut tree);
    let _ = std::fs::remove_dir_all(dir);
    Ok(Obs {
        stdout: String::from_utf8_lossy(&stdout).into_owned(),
        status: status_s,
        stderr_empty: stderr.is_empty(),
        tree,
    })
    .map(|o| {
        if valgrind && o.status == "exit:99" && String::from_utf8_lossy(&stderr).lines().any(|l| l.starts_with("==")) {
            Obs {
                stdout: format!("VALGRIND REPORT\n{}", String::from_utf8_lossy(&stderr)),
                ..o
            }
        } else if mode == Mode::Asan && String::from_utf8_lossy(&stderr).contains("ERROR: AddressSanitizer") {
            Obs {
                stdout: format!("ASAN REPORT\n{}", String::from_utf8_lossy(&stderr).chars().take(6000).collect::<String>()),
                ..o
            }
        } else {
            o
        }
    })
}

/// CPU time (utime+stime, clock ticks) used so far by the processes of the process group `pgid`
fn tree_cpu_ticks(pgid: u32) -> Option<u64> {
    let mut total = 0u64;
    let mut seen = false;
    for e in std::fs::read_dir("/proc").ok()?.flatten() {
        let name = e.file_name();
        let Some(pid) = name.to_str().and_then(|s| s.parse::<u32>().ok()) else { continue };
        let Ok(stat) = std::fs::read_to_string(format!("/proc/{pid}/stat")) else { continue };
        // fields after the parenthesised command name
        let Some(rest) = stat.rsplit_once(") ").map(|x| x.1) else { continue };
        let f: Vec<&str> = rest.split(' ').collect();
        // rest[0]=state [1]=ppid [2]=pgrp ... [11]=utime [12]=stime
        if f.len() > 12 && f[2].parse::<u32>().ok() == Some(pgid) {
            seen = true;
            total += f[11].parse::<u64>().unwrap_or(0) + f[12].parse::<u64>().unwrap_or(0);
        }
    }
    seen.then_some(total)
}

fn run_virtual(script: &str, dir: &Path) -> (Obs, String) {
    let cwd = dir.to_string_lossy().into_owned();
    let mut cfg = vsh::VCfg::script(script);
    cfg.extra = vsh::v_probes();
    cfg.cwd = cwd.clone();
    cfg.env_vars = vec![("PATH".into(), "/bin:/usr/bin".into()), ("LANG".into(), "C".into())];
    cfg.keep_state = true;
    cfg.max_steps = 2_000_000;
    let mut files: Vec<(String, FileSpec)> = Vec::new();
    // ancestors of the working directory
    let mut acc = String::new();
    for comp in cwd.split('/').filter(|c| !c.is_empty()) {
        acc.push('/');
        acc.push_str(comp);
        if acc != "/tmp" {
            files.push((acc.clone(), FileSpec::Dir));
        }
    }
    files.pop();
    for (p, c) in initial_tree() {
        files.push((
            format!("{cwd}/{p}"),
            match c {
                None => FileSpec::Dir,
                Some(c) => FileSpec::Regular(c.to_vec()),
            },
        ));
    }
    cfg.files = files;
    let out = vsh::run_v(cfg);
    use yash_env::job::ProcessState;
    let status = match out.status {
        ProcessState::Halted(r) => {
            let dbg = format!("{r:?}");
            if let Some(rest) = dbg.strip_prefix("Exited(ExitStatus(") {
                format!("exit:{}", rest.trim_end_matches(')'))
            } else if dbg.starts_with("Signaled") {
                // Signaled { signal: Number(15), core_dump: false }
                let n: String = dbg.chars().skip_while(|c| !c.is_ascii_digit()).take_while(|c| c.is_ascii_digit()).collect();
                format!("signal:{n}")
            } else {
                dbg
            }
        }
        other => format!("{other:?} ({:?})", out.end),
    };
    let mut tree = Tree::new();
    if let Some(state) = &out.state {
        let st: std::cell::Ref<SystemState> = state.borrow();
        if let Ok(node) = st.file_system.get(cwd.as_str()) {
            walk_virtual(&node.borrow(), "", &mut tree);
        }
    }
    (
        Obs {
            stdout: out.out(),
            status,
            stderr_empty: out.err().is_empty(),
            tree,
        },
        out.err(),
    )
}

fn diff(r: &Obs, v: &Obs) -> (String, String) {
    let mut kinds = Vec::new();
    let mut d = Vec::new();
    if r.stdout != v.stdout {
        kinds.push("stdout");
        let rl: Vec<&str> = r.stdout.lines().collect();
        let vl: Vec<&str> = v.stdout.lines().collect();
        let k = rl.iter().zip(vl.iter()).position(|(a, b)| a != b).unwrap_or(rl.len().min(vl.len()));
        d.push(format!(
            "stdout differs at line {}:\n  real   : {:?}\n  virtual: {:?}",
            k + 1,
            rl.get(k).map(|s| s.chars().take(200).collect::<String>()),
            vl.get(k).map(|s| s.chars().take(200).collect::<String>())
        ));
    }
    if r.status != v.status {
        kinds.push("status");
        d.push(format!("status: real {} virtual {}", r.status, v.status));
    }
    if r.stderr_empty != v.stderr_empty {
        kinds.push("stderr");
        d.push(format!("stderr empty: real {} virtual {}", r.stderr_empty, v.stderr_empty));
    }
    if r.tree != v.tree {
        kinds.push("files");
        for (k, a) in &r.tree {
            match v.tree.get(k) {
                Some(b) if a == b => {}
                Some(b) => d.push(format!("file {k}: real {a} / virtual {b}")),
                None => d.push(format!("file {k}: real {a} / virtual (absent)")),
            }
        }
        for (k, b) in &v.tree {
            if !r.tree.contains_key(k) {
                d.push(format!("file {k}: real (absent) / virtual {b}"));
            }
        }
    }
    (kinds.join("+"), d.join("\n"))
}


/// Fixed scripts that walk through the `unsafe` surface of `RealSystem` (libc FFI: getcwd buffers,
/// directory streams, argv/envp arrays for execve, passwd look-ups, confstr, rlimits, times,
/// sigaction/sigprocmask structures, fd_sets for select). They use external utilities and
/// machine-dependent values, so they are not part of the differential comparison: the verdict is
/// the sanitizer's (AddressSanitizer in both tiers, valgrind memcheck as well in the thorough tier).
fn ffi_surface_scripts() -> Vec<(&'static str, String)> {
    let n200 = "a".repeat(200);
    let n250 = "b".repeat(250);
    let mut v: Vec<(&'static str, String)> = Vec::new();
    v.push(("long-cwd", format!("n={n200}\nfor i in 1 2 3 4 5 6 7 8 9 10 11 12 13 14 15 16 17 18 19 20 21 22 23 24; do mkdir \"$n\" || break; cd \"$n\" || break; pwd >/dev/null; done\necho ${{#PWD}}; pwd | wc -c; cd -P . ; echo $?; (cd .. && pwd | wc -c); x=$(pwd); echo ${{#x}}; cd \"$OLDPWD\"; echo $?\n")));
    v.push(("big-directory", format!("mkdir big; cd big; l={n250}\nfor i in 0 1 2 3 4 5 6 7 8 9; do for j in 0 1 2 3 4 5 6 7 8 9; do : >\"$i$j$l\"; : >\"$i$j\"; done; done\nset -- *; echo $#; set -- ?? ; echo $#; set -- *b ; echo $#; set -- [0-4]*bb ; echo $#; echo */ ; echo .* ; cd ..; set -- big/*; echo $#; set -- */*b; echo $#\n")));
    v.push(("huge-argv-envp", "a=xxxxxxxxxx; a=$a$a$a$a$a$a; set -- \"$a\"\nfor i in 1 2 3 4 5 6 7 8 9 10 11 12; do set -- \"$@\" \"$@\"; done\necho $#; /bin/true \"$@\"; echo $?; /bin/echo \"$@\" | wc -c\nfor i in 1 2 3 4 5 6 7 8 9 10 11 12 13 14 15 16 17 18 19 20; do for j in a b c d e f g h i j; do export V$i$j=\"$a$i$j\"; done; done\nenv | wc -l; V=1 W= X=\"$a\" env | wc -c; (exec env) | wc -l; export E=; env | wc -l\n".to_string()));
    v.push(("passwd", "echo ~root ~nobody ~daemon ~nosuchuser_xyz ~/x ~; HOME=/tmp; echo ~ ~/ ~root/x; x=~root:~nobody; echo $x\n".to_string()));
    v.push(("command-search", "command -p true; echo $?; command -pv ls; command -v ls cd nosuch; type ls cd nosuch; command -V ls; command -p -v sh; PATH= command -p true; echo $?; PATH=/nonexistent:/bin:. command -v ls; hash 2>/dev/null; unset PATH; command -p true; echo $?; ls >/dev/null; echo $?\n".to_string()));
    v.push(("ulimit", "ulimit -a; for o in c d e f i l m n q r R s t u v w x; do ulimit -$o; ulimit -H -$o; ulimit -S -$o; done 2>&1; ulimit -n 64; ulimit -n; ulimit -S -c 0; ulimit -c; ulimit -f unlimited; ulimit -H -n 63; ulimit -n 64; echo $?\n".to_string()));
    v.push(("times", "times; (times); x=$(times); echo \"$x\" | wc -l; /bin/true; times >/dev/null\n".to_string()));
    v.push(("signals", "kill -l; kill -l 1 2 15 130 143; kill -l HUP TERM; trap -p\nfor s in HUP INT QUIT USR1 USR2 TERM ALRM CHLD CONT TSTP TTIN TTOU WINCH URG PIPE RTMIN RTMIN+1 RTMAX-1 RTMAX; do trap \"echo got $s\" $s; done; trap\nkill -s USR1 $$; kill -s RTMIN $$; kill -s RTMAX $$; kill -s CONT $$; kill -s WINCH $$; kill -s CHLD $$; kill -0 $$; trap - USR1 RTMIN; trap '' USR2 RTMAX-1; kill -s USR2 $$; kill -s RTMAX-1 $$; trap; (trap; kill -s USR2 $$; trap 'echo sub' TERM; kill -s TERM 0) ; echo $?; trap - TERM; (kill -s TERM $$; echo not) ; echo $?\n".to_string()));
    v.push(("umask", "umask; umask -S; umask 027; : >u1; mkdir ud; umask u=rwx,g=rx,o=; umask -S; umask a-w; umask; umask 777; : >u2; umask 0; : >u3; ls -l u1 u2 u3 | cut -c1-10\n".to_string()));
    v.push(("read-and-heredoc", "gen 5000 3 >big; n=0; while read -r l; do n=$((n+1)); done <big; echo $n; read a b c <f0; echo \"$a|$b|$c\"; IFS=: read x y </etc/passwd; echo $x; gen 3000 5 | { read -r p; read -r q; echo ${#p} ${#q}; }\ncat <<E1; cat <<-E2; cat <<'E3'\n$a $(echo sub) $((1+2)) `echo bq`\nE1\n\t\ttabbed $x\n\tE2\n$a raw\nE3\nv=$(gen 9000 1); cat <<E4 | wc -c\n$v$v\nE4\n".to_string()));
    v.push(("many-children", "for i in 1 2 3 4 5 6 7 8 9 10 11 12 13 14 15 16 17 18 19 20 21 22 23 24 25 26 27 28 29 30; do (exit $i)& done; wait; echo $?; for i in 1 2 3 4 5 6 7 8; do /bin/true & p=\"$p $!\"; done; wait $p; echo $?; wait 1; echo $?; jobs; true | false | (exit 3) | true; echo $?; set -o pipefail; true | (exit 4) | false | true; echo $?\n".to_string()));
    v.push(("symlinks", "ln -s d1 sl; ln -s nowhere dangling; ln -s ../f0 d1/up; cd sl; pwd; pwd -P; cd -P ../sl; pwd; cd \"$OLDPWD\"; cd -L ..; echo \"$PWD\" \"$OLDPWD\"; echo s*/* d*; echo */up; cat sl/up; echo x >dangling; cat nowhere; cd dangling; echo $?; cd sl; pwd; cd -P ..; pwd\n".to_string()));
    v.push(("job-control-without-terminal", "set -m; /bin/true; echo $?; (exit 3); echo $?; sleep 0 & wait; echo $?; jobs; true | cat; sleep 0 & sleep 0 & jobs -l >/dev/null; jobs -p | wc -l; wait; fg 2>&1; bg 2>&1; set +m; echo done\n".to_string()));
    v.push(("descriptors", "exec 3<>f0 4>&3 5<&-; lsfd x; echo a >&4; read l <&3; exec 3>&- 4>&-; echo a >&7; : 9>nine; exec 9<nine; exec 9<&-; exec 8>e8; ulimit -n 12; exec 7<f0 6<f0 5<f0; echo x >y; { echo z; } 4>&1; x=$(echo q); echo \"$x $?\"; true | true; echo $?; lsfd y\n".to_string()));
    v.push(("getopts", "set -- -a -b val -cd -- x -e; while getopts ab:cd o; do echo \"$o $OPTARG $OPTIND\"; done; echo $OPTIND; OPTIND=1; while getopts :ab: o -b; do echo \"$o $OPTARG\"; done; OPTIND=1; getopts x o -y; echo \"$? $o\"\n".to_string()));
    v.push(("big-pipes", "gen 200000 1 | relay | relay | sink; x=$(gen 70000 2); echo ${#x}; gen 65536 3 | { relay; } | cat | wc -c; gen 100000 4 >w1; relay <w1 | relay >w2; cmp w1 w2; echo $?\n".to_string()));
    v.push(("exec-failures", "./f0; echo $?; /nonexistent/x; echo $?; d1; echo $?; ./d1; echo $?; (exec ./f0); echo $?; (exec /bin/true a b c); echo $?; (exec nosuchcommand_xyz); echo $?; chmod +x f1; ./f1; echo $?; echo '#!/bin/sh\necho script \"$@\"' >sc; chmod +x sc; ./sc 1 '2 3'; echo 'echo noshebang \"$0\" \"$@\"' >ns; chmod +x ns; ./ns x y; echo $?; (exec ./ns z); echo $?\n".to_string()));
    v.push(("cd-errors", "CDPATH=d1:/ cd d2; pwd; cd \"$OLDPWD\"; cd /nonexistent; echo $?; cd f0; echo $?; cd ''; echo $?; cd -; unset OLDPWD; cd -; echo $?; unset HOME; cd; echo $?; HOME=d1 cd; pwd; cd /; cd ..; pwd; cd //; pwd; cd ///usr//bin/.././bin; pwd\n".to_string()));
    v.push(("dot-scripts", "echo 'echo sourced $# $1; return 5; echo not' >s.sh; . ./s.sh; echo $?; . ./s.sh a b; PATH=.:$PATH; . s.sh; (. /nonexistent); echo $?; (. ./d1); echo $?; echo 'exit 6' >e.sh; (. ./e.sh); echo $?; gen 30000 7 >long.sh; (. ./long.sh) 2>/dev/null; echo $?\n".to_string()));
    v.push(("wait-interrupted", "trap 'echo usr1' USR1; (sleep 0.2; kill -s USR1 $$)& wait; echo $?; wait; echo $?; trap 'echo chld' CHLD; /bin/true; (exit 1); sleep 0 & wait $!; echo $?; trap - CHLD; trap 'echo alrm' ALRM; (sleep 0.1; kill -s ALRM $$) & read x <&0; wait; echo end\n".to_string()));
    v.push(("non-utf8-names", "f=$(printf 'n\\377m'); : >\"$f\"; echo * | od -c | head -3; for g in n*; do echo \"${#g}\"; done; cd \"$f\" ; echo $?; x=$(printf '\\200\\201'); echo \"${#x}\"; case $x in ??) echo two;; *) echo other;; esac; printf '\\303' >\"p$(printf '\\251')\"; echo p*\n".to_string()));
    v.push(("nesting", "f() { case $1 in 0) echo bottom;; *) f $(($1-1));; esac; }; f 50; x=$(echo $(echo $(echo $(echo $(echo deep))))); echo $x; eval 'eval \"eval echo e3\"'; ( ( ( ( echo sub4 ) ) ) ); { { { echo grp; } 3>&1; } 4>&1; } 5>&1; echo $(f 10)\n".to_string()));
    v
}

pub fn run(ctx: &Ctx) {
    let quick = ctx.quick();
    let n = if quick { 6000 } else { 150_000 };
    let nvalgrind = if quick { 0 } else { 48 };
    let seed = ctx.seed;
    let base: PathBuf = std::fs::canonicalize(std::env::temp_dir()).unwrap_or_else(|_| PathBuf::from("/tmp"));
    let pid = std::process::id();
    let have_valgrind = std::process::Command::new("valgrind").arg("--version").output().map(|o| o.status.success()).unwrap_or(false);
    let base = &base;

    // sanitizer slice over the FFI surface of RealSystem
    let have_asan = asan_exe().is_some();
    let surface = ffi_surface_scripts();
    let modes: Vec<Mode> = if quick { vec![Mode::Asan] } else { vec![Mode::Asan, Mode::Valgrind] };
    let jobs: Vec<(usize, Mode)> = (0..surface.len()).flat_map(|k| modes.iter().map(move |m| (k, *m))).collect();
    ctx.par_for(
        jobs.len(),
        |j| {
            let (k, mode) = jobs[j];
            let (name, script) = &surface[k];
            if (mode == Mode::Asan && !have_asan) || (mode == Mode::Valgrind && !have_valgrind) {
                return;
            }
            let outer = base.join(format!("verif-c19s-{pid}-{j}"));
            let dir = outer.join("w");
            let r = run_real(script, &dir, mode);
            let _ = std::process::Command::new("chmod").args(["-R", "u+rwx"]).arg(&outer).status();
            let _ = std::fs::remove_dir_all(&outer);
            let tool = if mode == Mode::Asan { "asan" } else { "valgrind" };
            match r {
                Ok(o) => {
                    if std::env::var_os("C19_DEBUG").is_some() {
                        eprintln!("SURFACE {name} {tool} status={} stderr_empty={}\n{}=====", o.status, o.stderr_empty, o.stdout.chars().take(1500).collect::<String>());
                    }
                    ctx.count(&format!("ffi_surface_runs_under_{tool}"), 1);
                    ctx.nontrivial(crate::util::fnv_str(&format!("surface\u{1}{name}\u{1}{tool}\u{1}{}", o.stdout)));
                    if o.stdout.starts_with("ASAN REPORT") || o.stdout.starts_with("VALGRIND REPORT") {
                        ctx.violation(format!("{tool}:ffi-surface:{name}"), format!("{tool} reported an error in the real-system run of the FFI-surface script `{name}`\nscript:\n{script}\n{}", o.stdout));
                    } else if o.status.starts_with("signal:") && o.status != "signal:15" {
                        ctx.violation(format!("{tool}:ffi-surface:{name}:{}", o.status), format!("the real-system run of the FFI-surface script `{name}` under {tool} died with {}\nscript:\n{script}\n{}", o.status, o.stdout));
                    } else if o.stdout.lines().count() < 2 {
                        // a script that printed nothing exercised nothing
                        ctx.inconclusive.fetch_add(1, std::sync::atomic::Ordering::Relaxed);
                        ctx.count(&format!("ffi_surface_silent({name},{tool})"), 1);
                    }
                }
                Err(e) => {
                    ctx.inconclusive.fetch_add(1, std::sync::atomic::Ordering::Relaxed);
                    ctx.count(&format!("ffi_surface_inconclusive({name},{tool}: {})", e.chars().take(40).collect::<String>()), 1);
                }
            }
        },
        |j, msg| ctx.violation("harness-panic", format!("ffi surface job #{j}: {msg}")),
    );
    if !have_asan {
        ctx.count("asan_not_available", 1);
    }
    let nasan = if !have_asan { 0 } else if quick { 1000 } else { 20_000 };
    ctx.par_for(
        n,
        |i| {
            let mut rng = Rng::new(seed.wrapping_mul(0xC19).wrapping_add(i as u64));
            let (script, features) = gen_script(&mut rng);
            // two levels, so that `cd ..` from the working directory is still inside our own scratch area
            let outer = base.join(format!("verif-c19-{pid}-{i}"));
            let dir = outer.join("w");
            if have_valgrind && i < nvalgrind {
                // memcheck verdict only: valgrind changes descriptor limits and prints its own warnings,
                // so this run is not part of the differential comparison
                match run_real(&script, &dir, Mode::Valgrind) {
                    Ok(o) => {
                        ctx.count("real_runs_under_valgrind", 1);
                        if o.stdout.starts_with("VALGRIND REPORT") {
                            ctx.violation("valgrind:memcheck", format!("valgrind memcheck reported an error in the real-system run\nscript:\n{script}\n{}", o.stdout));
                        }
                    }
                    Err(_) => {
                        ctx.count("valgrind_runs_inconclusive", 1);
                    }
                }
            }
            if i < nasan {
                // AddressSanitizer verdict only (same reasoning as for valgrind)
                match run_real(&script, &dir, Mode::Asan) {
                    Ok(o) => {
                        ctx.count("real_runs_under_asan", 1);
                        if o.stdout.starts_with("ASAN REPORT") {
                            ctx.violation("asan:report", format!("AddressSanitizer reported an error in the real-system run\nscript:\n{script}\n{}", o.stdout));
                        }
                    }
                    Err(_) => {
                        ctx.count("asan_runs_inconclusive", 1);
                    }
                }
            }
            let real = match run_real(&script, &dir, Mode::Plain) {
                Ok(o) => o,
                Err(e) if e.starts_with("BLOCKED") => {
                    let _ = std::fs::remove_dir_all(&outer);
                    // a wall-clock observation on a possibly overloaded machine is not a verdict by
                    // itself: the script is run once more; only a run that sits idle again is blocked
                    match run_real(&script, &dir, Mode::Plain) {
                        Err(e2) if e2.starts_with("BLOCKED") => {}
                        _ => {
                            let _ = std::fs::remove_dir_all(&outer);
                            ctx.inconclusive.fetch_add(1, std::sync::atomic::Ordering::Relaxed);
                            ctx.count("real_runs_idle_once_but_not_when_repeated", 1);
                            return;
                        }
                    }
                    let _ = std::fs::remove_dir_all(&outer);
                    // does the simulated run finish? then the two systems differ
                    let (virt, _) = run_virtual(&script, &dir);
                    ctx.eval();
                    if virt.status.starts_with("exit:") || virt.status.starts_with("signal:") {
                        ctx.violation(
                            "diverge:real-run-blocks-forever",
                            format!("script #{i}: {e}; the run on the simulated system ends with {}\n--- script:\n{script}", virt.status),
                        );
                    } else {
                        ctx.inconclusive.fetch_add(1, std::sync::atomic::Ordering::Relaxed);
                    }
                    return;
                }
                Err(e) => {
                    ctx.inconclusive.fetch_add(1, std::sync::atomic::Ordering::Relaxed);
                    ctx.count(&format!("inconclusive({})", e.chars().take(40).collect::<String>()), 1);
                    if std::env::var_os("C19_DEBUG").is_some() {
                        eprintln!("C19INCONCLUSIVE #{i}: {e}\n{script}=====");
                    }
                    let _ = std::fs::remove_dir_all(&outer);
                    return;
                }
            };
            let _ = std::fs::remove_dir_all(&outer);
            // real kernel only: the shell's own descriptors (10 and up; scripts use 3-8, except the
            // descriptor-limit scripts, which fill the table on purpose) are the same set after
            // the script as before it - whatever failed on the way
            if i % 4 == 0 && !features.iter().any(|f| *f == "ulimit") {
                let probe = format!("lsfd @start\n{script}\nlsfd @end\n");
                if let Ok(o) = run_real(&probe, &dir, Mode::Plain) {
                    let internal = |tag: &str| -> Option<Vec<i32>> {
                        o.stdout.lines().find_map(|l| l.strip_prefix(tag)).map(|l| l.split_whitespace().filter_map(|f| f.parse::<i32>().ok()).filter(|f| *f >= 10).collect())
                    };
                    if let (Some(a), Some(b)) = (internal("@start:"), internal("@end:")) {
                        ctx.count("real_runs_with_descriptor_comparison", 1);
                        if a != b {
                            ctx.violation(
                                "real:internal-descriptor-left-open",
                                format!("script #{i} on the real system: shell-internal descriptors before {a:?}, after {b:?}\n--- script:\n{probe}"),
                            );
                        }
                    }
                }
                let _ = std::fs::remove_dir_all(&outer);
            }
            let (virt, verr) = run_virtual(&script, &dir);
            ctx.eval();
            for f in &features {
                ctx.count(&format!("scripts_with_{f}"), 1);
            }
            if real != virt {
                let (kinds, d) = diff(&real, &virt);
                let sig = if features.contains(&"creat-in-missing-directory") { "creat-in-missing-directory".to_string() } else { format!("diverge:{kinds}") };
                ctx.violation(
                    sig,
                    format!("script #{i} behaves differently on the real and on the simulated system\n{d}\n--- script:\n{script}--- real stdout:\n{}\n--- virtual stdout:\n{}\n--- virtual stderr:\n{verr}", real.stdout.chars().take(3000).collect::<String>(), virt.stdout.chars().take(3000).collect::<String>()),
                );
                return;
            }
            ctx.nontrivial(crate::util::fnv_str(&format!("{}\u{1}{}\u{1}{:?}", real.stdout, real.status, real.tree)));
            if !real.stderr_empty {
                ctx.count("scripts_with_diagnostics", 1);
            }
            if real.status != "exit:0" {
                ctx.count("scripts_with_nonzero_or_signal_status", 1);
            }
            if i % (n / 6).max(1) == 0 {
                ctx.sample(J::obj(vec![("script", J::s(script.clone())), ("status", J::s(real.status.clone())), ("stdout_lines", J::I(real.stdout.lines().count() as i64))]));
            }
        },
        |i, msg| {
            if crate::util::panic_in_repo(&msg) {
                ctx.violation(format!("panic:{}", msg.split(": ").next().unwrap_or("")), format!("script #{i}: {msg}"));
            } else {
                ctx.violation("harness-panic", format!("script #{i}: {msg}"));
            }
        },
    );
    ctx.count("scripts", n as i64);
    if !quick && !have_valgrind {
        ctx.count("valgrind_not_available", 1);
    }
    ctx.assume("both runs use the same harness binary, start-up code and probe built-ins (echo, relay, gen, off); observation = stdout, exit status or terminating signal, emptiness of stderr, final tree below the working directory (type, permission bits, content)");
    ctx.assume("not generated (outside the property's quantifier or racy on a real kernel): symbolic links, permissions (the sandbox runs as uid 0), pids/times in output, writes to a pipe whose reader has gone, signals other than HUP INT QUIT ALRM TERM KILL as terminating signals (numbers differ between the systems), USR1/USR2 only with traps");
}

pub const RULE: &str = "6000 (quick) / 150000 (thorough) generated deterministic scripts of 3-14 statements over: redirections > >> >| <> < with existing/new/missing files, exec-opened descriptors 3-8 (write, append, read, read-write, duplicate, close), writes/reads/offset probes through them, truncation of a file while descriptors on it stay open, cd (relative, .., /, missing, file, -, $OLDPWD) with pwd/$PWD/$OLDPWD, globs, pipelines incl. gen N | relay with N around the pipe buffer sizes, pipefail, command substitutions, subshells with cd/umask/exit/EXIT trap, asynchronous lists with wait, traps and self-signals (caught, ignored, default in a subshell, terminating at the end), umask (octal and symbolic) with file creation modes, noclobber, error cases (directory in place of file, file in place of directory, missing file, closed descriptor), here-documents, RLIMIT_NOFILE set to k with redirections to descriptors k-1, k, k+1, exit / EXIT trap endings. Each script: real-system run in a scratch directory (subprocess of this binary) vs virtual-system run with the same absolute working directory and initial tree. evaluations = scripts compared; distinct_nontrivial = distinct (stdout, status, final tree) outcomes";
