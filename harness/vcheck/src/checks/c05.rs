//! C05 — pathname expansion returns exactly the existing matching paths, sorted.

use crate::models::fnm::PC;
use crate::models::glob::{self, Globbed, Node, Tree};
use crate::sched::Strategy;
use crate::util::{Ctx, J, Rng};
use crate::vsh::{self, FileSpec};

const ROOT: &str = "/w";

/// entries the virtual file system always has (so that absolute patterns see the same tree)
fn add_virtual_root(t: &mut Tree) {
    t.insert(String::new(), Node::Dir);
    for d in ["/bin", "/dev", "/tmp"] {
        t.insert(d.to_string(), Node::Dir);
    }
    for f in ["/bin/true", "/bin/false", "/bin/pwd", "/bin/ext", "/bin/cat", "/dev/null", "/dev/stdin", "/dev/stdout", "/dev/stderr"] {
        t.insert(f.to_string(), Node::File);
    }
}

fn gen_tree(rng: &mut Rng, with_noperm: bool, dir_symlinks: bool) -> Tree {
    let names = ["a", "b", "ab", ".a", ".b", "-", "[", "*", "a]", "ba", "c.d"];
    let mut t = Tree::new();
    t.insert(ROOT.to_string(), Node::Dir);
    for n in names {
        if rng.chance(55) {
            t.insert(format!("{ROOT}/{n}"), Node::File);
        }
    }
    // (`e-` sorts before `e/...` as a whole string but after `e` component-wise)
    // (multi-byte names: a prefix built from them has different lengths in bytes and in characters)
    for d in ["sub", ".hid", "d2", "e", "e-", "e.f", "\u{e9}z", "\u{65e5}\u{672c}"] {
        if rng.chance(70) {
            t.insert(format!("{ROOT}/{d}"), Node::Dir);
            for n in names {
                if rng.chance(35) {
                    t.insert(format!("{ROOT}/{d}/{n}"), Node::File);
                }
            }
            if rng.chance(60) {
                t.insert(format!("{ROOT}/{d}/dd"), Node::Dir);
                for n in names {
                    if rng.chance(30) {
                        t.insert(format!("{ROOT}/{d}/dd/{n}"), Node::File);
                    }
                }
            }
        }
    }
    // symlinks to existing targets
    // (the virtual file system does not follow symbolic links in the middle of a path, so
    // links to directories are only used on the real file system)
    if dir_symlinks && t.contains_key(&format!("{ROOT}/sub")) && rng.chance(60) {
        t.insert(format!("{ROOT}/ln"), Node::Symlink("sub".into()));
    }
    if t.contains_key(&format!("{ROOT}/a")) && rng.chance(50) {
        t.insert(format!("{ROOT}/lf"), Node::Symlink("a".into()));
    }
    if with_noperm && rng.chance(40) {
        t.insert(format!("{ROOT}/np"), Node::DirNoPerm);
    }
    t
}

fn install(tree: &Tree) -> Vec<(String, FileSpec)> {
    let mut v = Vec::new();
    for (p, n) in tree {
        if p == ROOT || p.is_empty() || p.starts_with("/bin") || p.starts_with("/dev") || p.starts_with("/tmp") {
            continue;
        }
        v.push((
            p.clone(),
            match n {
                Node::File => FileSpec::Regular(vec![]),
                Node::Dir => FileSpec::Dir,
                Node::DirNoPerm => FileSpec::DirMode(0),
                Node::Symlink(t) => FileSpec::Symlink(t.clone()),
            },
        ));
    }
    // directories first so that explicit directory nodes are not replaced by implicit ones
    v.sort_by_key(|(p, s)| (!matches!(s, FileSpec::Dir | FileSpec::DirMode(_)), p.len()));
    v
}

/// render a pattern as shell word text with random quoting forms for quoted characters
fn render(p: &[PC], rng: &mut Rng) -> String {
    let mut s = String::new();
    for c in p {
        match c {
            PC::N(c) => s.push(*c),
            PC::L(c) => match rng.below(3) {
                0 => {
                    s.push('\\');
                    s.push(*c);
                }
                1 => {
                    s.push('\'');
                    s.push(*c);
                    s.push('\'');
                }
                _ => {
                    s.push('"');
                    if matches!(c, '\\' | '"' | '$' | '`') {
                        s.push('\\');
                    }
                    s.push(*c);
                    s.push('"');
                }
            },
        }
    }
    s
}

fn alphabet() -> Vec<PC> {
    let mut v: Vec<PC> = "ab.*?[]-/".chars().map(PC::N).collect();
    v.extend("*?[a.\\".chars().map(PC::L));
    v
}

fn usable(p: &[PC]) -> bool {
    // shell syntax: keep the word a single plain word
    !p.is_empty()
        // a leading unquoted `-` would be fine for probe; a word consisting only of quotes is fine
        // too; tilde is not in the alphabet
        && !(p.len() == 1 && matches!(p[0], PC::N('!')))
}

struct Case {
    pat: Vec<PC>,
    text: String,
    want: Vec<String>,
}

fn run_batch(ctx: &Ctx, tree: &Tree, cases: &[Case], noglob: bool, what: &str) {
    let mut script = String::new();
    if noglob {
        script.push_str("set -f\n");
    }
    for c in cases {
        script.push_str(&format!("probe {}\n", c.text));
    }
    let mut cfg = vsh::VCfg::script(&script);
    cfg.strategy = Strategy::Fifo;
    cfg.extra = vsh::v_probes();
    cfg.files = install(tree);
    cfg.cwd = ROOT.into();
    let out = vsh::run_v(cfg);
    ctx.evals(cases.len());
    if out.events.len() != cases.len() {
        ctx.violation(
            "event-count",
            format!("{what}: {} probes expected, {} ran\nscript:\n{script}\nstderr:\n{}", cases.len(), out.events.len(), out.err()),
        );
        return;
    }
    for (c, e) in cases.iter().zip(out.events.iter()) {
        if e.args != c.want {
            let kind = if e.args.len() < c.want.len() {
                "omitted-path"
            } else if e.args.len() > c.want.len() {
                "extra-path"
            } else {
                let mut a = e.args.clone();
                a.sort();
                let mut b = c.want.clone();
                b.sort();
                if a == b { "order" } else { "different-paths" }
            };
            ctx.violation(
                format!("{kind}:{}", crate::checks::c04::show(&c.pat)),
                format!(
                    "{what}{}\npattern word: {}   (pattern {:?}, \\x = quoted)\nyash: {:?}\nPOSIX: {:?}\ntree (cwd {ROOT}): {:?}",
                    if noglob { " with set -f" } else { "" },
                    c.text,
                    crate::checks::c04::show(&c.pat),
                    e.args,
                    c.want,
                    tree.iter().map(|(p, n)| format!("{}{}", p.trim_start_matches(ROOT), match n { Node::File => "".to_string(), Node::Dir => "/".into(), Node::DirNoPerm => "/(mode 000)".into(), Node::Symlink(t) => format!(" -> {t}") })).collect::<Vec<_>>()
                ),
            );
        } else if c.want.len() > 1 || c.want[0] != c.pat.iter().map(|x| x.ch()).collect::<String>() || c.pat.iter().any(|x| matches!(x, PC::L('*' | '?' | '['))) {
            ctx.nontrivial(crate::util::fnv_str(&format!("{:?}|{}|{noglob}", tree.keys().collect::<Vec<_>>(), c.text)));
        }
    }
}

fn real_sample(ctx: &Ctx, tree: &Tree, cases: &[Case], idx: usize) {
    // the same tree in a scratch directory on the real file system, same harness shell
    let dir = std::env::temp_dir().join(format!("verif-c05-{}-{idx}", std::process::id()));
    let _ = std::fs::remove_dir_all(&dir);
    let mk = || -> std::io::Result<()> {
        std::fs::create_dir_all(&dir)?;
        let mut items: Vec<(&String, &Node)> = tree.iter().filter(|(p, _)| p.as_str() != ROOT).collect();
        items.sort_by_key(|(p, _)| p.len());
        for (p, n) in items {
            let rel = p.strip_prefix(ROOT).unwrap().trim_start_matches('/');
            let full = dir.join(rel);
            match n {
                Node::File => {
                    std::fs::write(&full, b"")?;
                }
                Node::Dir | Node::DirNoPerm => std::fs::create_dir_all(&full)?,
                Node::Symlink(t) => std::os::unix::fs::symlink(t, &full)?,
            }
        }
        // every other sample: names that are not valid UTF-8 next to the others. The shell cannot
        // represent them (they are in no expected result), but they must not hide the entries the
        // directory stream returns after them
        if (idx / 4) % 2 == 0 {
            use std::os::unix::ffi::OsStrExt;
            let mut dirs: Vec<std::path::PathBuf> = vec![dir.clone()];
            for (p, n) in tree.iter() {
                if matches!(n, Node::Dir) && p.as_str() != ROOT {
                    dirs.push(dir.join(p.strip_prefix(ROOT).unwrap().trim_start_matches('/')));
                }
            }
            for d in dirs {
                for bad in [&b"n\xffm"[..], b"\xfe", b"a\xc3", b"\xffz", b"b\x80b", b"0\xff", b"zz\xe9"] {
                    std::fs::write(d.join(std::ffi::OsStr::from_bytes(bad)), b"")?;
                }
            }
            ctx.count("real_system_trees_with_non_utf8_names", 1);
        }
        Ok(())
    };
    if mk().is_err() {
        ctx.inconclusive.fetch_add(1, std::sync::atomic::Ordering::Relaxed);
        let _ = std::fs::remove_dir_all(&dir);
        return;
    }
    // (the descriptors open before and after all the expansions: reading directories must
    // not leave any behind)
    let mut script = String::from("lsfd fds\n");
    for c in cases {
        script.push_str(&format!("echo {}\n", c.text));
    }
    script.push_str("lsfd fds\n");
    let exe = std::env::current_exe().unwrap();
    let out = std::process::Command::new(exe)
        .args(["real-shell", "-c", &script])
        .current_dir(&dir)
        .env_clear()
        .env("PATH", "/bin:/usr/bin")
        .env("LANG", "C")
        .output();
    let _ = std::fs::remove_dir_all(&dir);
    let Ok(out) = out else {
        ctx.inconclusive.fetch_add(1, std::sync::atomic::Ordering::Relaxed);
        return;
    };
    let text = String::from_utf8_lossy(&out.stdout);
    let mut lines: Vec<&str> = text.lines().collect();
    if lines.len() >= 2 && lines[0].starts_with("fds: ") && lines[lines.len() - 1].starts_with("fds: ") {
        let (first, last) = (lines[0], lines[lines.len() - 1]);
        ctx.count("real_system_descriptor_comparisons", 1);
        if first != last {
            ctx.violation(
                "real:descriptors-left-open",
                format!("real system: open descriptors before the {} pathname expansions `{first}`, after `{last}`\nscript:\n{script}", cases.len()),
            );
        }
        lines.remove(0);
        lines.pop();
    } else {
        ctx.violation("real:line-count", format!("real system: descriptor listings missing\nstdout: {text}\nstderr: {}", String::from_utf8_lossy(&out.stderr)));
        return;
    }
    ctx.evals(cases.len());
    ctx.count("real_system_patterns", cases.len() as i64);
    if lines.len() != cases.len() {
        ctx.violation("real:line-count", format!("real system: expected {} lines, got {}\nstderr: {}", cases.len(), lines.len(), String::from_utf8_lossy(&out.stderr)));
        return;
    }
    for (c, l) in cases.iter().zip(lines) {
        if *l != c.want.join(" ") {
            ctx.violation(
                format!("real:{}", crate::checks::c04::show(&c.pat)),
                format!("real system, pattern word {}: yash printed {l:?}, POSIX {:?}\ntree: {:?}", c.text, c.want.join(" "), tree.keys().collect::<Vec<_>>()),
            );
        }
    }
}

pub fn run(ctx: &Ctx) {
    let quick = ctx.quick();
    let alpha = alphabet();
    let maxlen = if quick { 3 } else { 4 };
    // exhaustive patterns
    let n = alpha.len();
    let mut pats: Vec<Vec<PC>> = Vec::new();
    for len in 1..=maxlen {
        for mut idx in 0..n.pow(len as u32) {
            let mut p = Vec::new();
            for _ in 0..len {
                p.push(alpha[idx % n]);
                idx /= n;
            }
            if usable(&p) {
                pats.push(p);
            }
        }
    }
    ctx.count("exhaustive_patterns", pats.len() as i64);
    let ntrees = if quick { 12 } else { 40 };
    let seed = ctx.seed;
    let pats = &pats;
    let chunk = 400;
    let nchunks = pats.len().div_ceil(chunk);
    ctx.par_for(
        ntrees * nchunks,
        |job| {
            let ti = job / nchunks;
            let ci = job % nchunks;
            let mut rng = Rng::new(seed.wrapping_mul(0xC05).wrapping_add(ti as u64));
            let mut tree = gen_tree(&mut rng, true, false);
            add_virtual_root(&mut tree);
            let noglob = ti % 6 == 5;
            let mut rng2 = Rng::new(job as u64);
            let mut cases = Vec::new();
            for p in &pats[ci * chunk..((ci + 1) * chunk).min(pats.len())] {
                match glob::glob(&tree, ROOT, p, noglob) {
                    Globbed::Fields(want) => cases.push(Case {
                        text: render(p, &mut rng2),
                        pat: p.clone(),
                        want,
                    }),
                    Globbed::Unspecified(_) => {
                        ctx.skipped_unspecified.fetch_add(1, std::sync::atomic::Ordering::Relaxed);
                    }
                }
            }
            // a word that is empty after rendering cannot occur (patterns are non-empty)
            run_batch(ctx, &tree, &cases, noglob, "exhaustive pattern");
            if job % 53 == 0 && !cases.is_empty() {
                let c = &cases[cases.len() / 2];
                ctx.sample(J::obj(vec![
                    ("pattern_word", J::s(c.text.clone())),
                    ("expected", J::s(format!("{:?}", c.want))),
                    ("tree", J::s(format!("{:?}", tree.keys().map(|k| k.trim_start_matches(ROOT)).collect::<Vec<_>>()))),
                ]));
            }
        },
        |i, msg| {
            ctx.violation(
                if crate::util::panic_in_repo(&msg) { format!("panic:{}", msg.split(": ").next().unwrap_or("")) } else { "harness-panic".into() },
                format!("job {i}: {msg}"),
            )
        },
    );
    *ctx.exhaustive.lock().unwrap() = Some(true);
    // random multi-component patterns, V and a real-system sample
    let nrand = if quick { 400 } else { 6000 };
    ctx.par_for(
        nrand,
        |i| {
            let mut rng = Rng::new(seed.wrapping_mul(0x5C05).wrapping_add(i as u64));
            // every 4th tree goes to the real file system (with links to directories) instead
            let real = i % 4 == 0;
            let mut tree = gen_tree(&mut rng, false, real);
            if !real {
                add_virtual_root(&mut tree);
            }
            let mut cases = Vec::new();
            let comps = ["*", "?", "a*", "*b", "[ab]", "[!a]*", ".*", "sub", "ln", "dd", ".", "..", "d2", ".hid", "*.*", "[a-b]?", "a", "\\*", "'['", "*]", "e*", "e?", "[a\\\\]*", "\\\\*", "\u{e9}z", "\u{e9}*", "\u{65e5}\u{672c}", "\u{65e5}?", "'\u{e9}'z", "?z", "??", "[\u{e9}\u{65e5}]*"];
            while cases.len() < 60 {
                let mut p: Vec<PC> = Vec::new();
                if rng.chance(15) && !real {
                    p.push(PC::N('/'));
                    p.extend("w/".chars().map(PC::N));
                }
                let nc = rng.range(1, 4);
                for k in 0..nc {
                    if k > 0 {
                        // a quoted slash separates components just like an unquoted one
                        p.push(if rng.chance(20) { PC::L('/') } else { PC::N('/') });
                    }
                    let mut c = *rng.pick(&comps);
                    // never climb above the tree root (on the real system that is the rest of
                    // the machine's file system)
                    if c == ".." && k == 0 {
                        c = ".";
                    }
                    if c == ".." {
                        // a `..` needs a named component before it that is not itself `..`/`.`
                        let prev_dots = p.iter().rev().skip(1).take_while(|x| x.ch() != '/').all(|x| x.ch() == '.');
                        if prev_dots {
                            c = "sub";
                        }
                    }
                    // component text uses shell quoting: translate \x and 'x' to quoted chars
                    let mut it = c.chars().peekable();
                    while let Some(ch) = it.next() {
                        match ch {
                            '\\' => {
                                if let Some(n) = it.next() {
                                    p.push(PC::L(n));
                                }
                            }
                            '\'' => {
                                while let Some(n) = it.next() {
                                    if n == '\'' {
                                        break;
                                    }
                                    p.push(PC::L(n));
                                }
                            }
                            c => p.push(PC::N(c)),
                        }
                    }
                }
                if rng.chance(15) {
                    p.push(PC::N('/'));
                }
                if let Globbed::Fields(want) = glob::glob(&tree, ROOT, &p, false) {
                    cases.push(Case {
                        text: render(&p, &mut rng),
                        pat: p,
                        want,
                    });
                }
            }
            if real {
                real_sample(ctx, &tree, &cases, i);
            } else {
                run_batch(ctx, &tree, &cases, false, "random multi-component pattern");
            }
        },
        |i, msg| {
            ctx.violation(
                if crate::util::panic_in_repo(&msg) { format!("panic:{}", msg.split(": ").next().unwrap_or("")) } else { "harness-panic".into() },
                format!("random {i}: {msg}"),
            )
        },
    );
    ctx.assume("models/glob.rs + models/fnm.rs; patterns with a slash inside brackets, doubled slashes and patterns POSIX leaves unspecified are skipped (counted)");
    ctx.assume("permission cases (mode 000 directory) only on the virtual system: the sandbox runs as uid 0");
}

pub const RULE: &str = "trees: random subsets of {a b ab .a .b - [ * a] ba c.d} in the root, in sub/, .hid/, d2/ and their dd/ subdirectories, symlinks to a directory and to a file, (virtual only) a mode-000 directory; patterns: all words of up to 3 (quick) / 4 characters over {a b . * ? [ ] - /} unquoted and {* ? [ a .} quoted (random quoting form), on 12 / 40 trees, every 6th with set -f; random 1-4 component patterns (incl. absolute, ., .., symlinked components, trailing slash) on 400 / 6000 trees, a quarter of them also run by the harness shell on the real file system in a scratch directory. `probe PATTERN` argument vector vs models::glob. evaluations = patterns expanded; distinct_nontrivial = distinct (tree, pattern) pairs with more than one result, a result different from the pattern, or a quoted metacharacter";
