//! C01 — word expansion yields exactly the fields POSIX prescribes.

use crate::models::expand::{self as m, DUnit, Form, Name, Param, State, Sw, Tr, Unit, Word};
use crate::sched::Strategy;
use crate::util::{Ctx, J, Rng};
use crate::vsh;
use std::collections::BTreeMap;

pub fn sh_quote(s: &str) -> String {
    format!("'{}'", s.replace('\'', "'\\''"))
}

const VALUES: [Option<&str>; 8] = [None, Some(""), Some("a"), Some("a b"), Some(" a  b "), Some(":a::b:"), Some("a:b c"), Some(".a b")];
const POSITIONALS: [&[&str]; 6] = [&[], &[""], &["a"], &["a", "b c"], &["", "a"], &["a b", ":c:", "d"]];
const IFSES: [Option<&str>; 8] = [None, Some(" \t\n"), Some(""), Some(":"), Some(" :"), Some(":-"), Some("a"), Some("\u{e9}:")];

#[derive(Clone, Debug)]
pub struct Setup {
    pub x: Option<&'static str>,
    pub y: Option<&'static str>,
    pub pos: Vec<&'static str>,
    pub ifs: Option<&'static str>,
    pub nounset: bool,
}

impl Setup {
    pub fn state(&self) -> State {
        let mut vars = BTreeMap::new();
        if let Some(x) = self.x {
            vars.insert("x".to_string(), x.to_string());
        }
        if let Some(y) = self.y {
            vars.insert("y".to_string(), y.to_string());
        }
        State {
            vars,
            pos: self.pos.iter().map(|s| s.to_string()).collect(),
            ifs: self.ifs.map(|s| s.to_string()),
            nounset: self.nounset,
        }
    }
    /// shell text establishing the state (u is always unset)
    pub fn script(&self) -> String {
        let mut s = String::from("set -f\nunset x y u\n");
        if let Some(x) = self.x {
            s.push_str(&format!("x={}\n", sh_quote(x)));
        }
        if let Some(y) = self.y {
            s.push_str(&format!("y={}\n", sh_quote(y)));
        }
        s.push_str("set --");
        for p in &self.pos {
            s.push(' ');
            s.push_str(&sh_quote(p));
        }
        s.push('\n');
        match self.ifs {
            None => s.push_str("unset IFS\n"),
            Some(i) => s.push_str(&format!("IFS={}\n", sh_quote(i))),
        }
        if self.nounset {
            s.push_str("set -u\n");
        }
        s
    }
    pub fn random(rng: &mut Rng) -> Setup {
        Setup {
            x: *rng.pick(&VALUES),
            y: *rng.pick(&VALUES),
            pos: rng.pick(&POSITIONALS).to_vec(),
            ifs: *rng.pick(&IFSES),
            nounset: rng.chance(15),
        }
    }
}

#[derive(Clone, Debug)]
pub struct Case {
    pub word: Word,
    pub text: String,
    /// Ok(fields) or Err(reason)
    pub expect: Result<Vec<String>, m::XErr>,
    /// expansion in assignment context: v=WORD; probe "$v"
    pub assign: bool,
}

pub fn make_case(word: Word, setup: &Setup, assign: bool) -> Case {
    let mut st = setup.state();
    let expect = if assign {
        m::expand_assign(&word, &mut st).map(|s| vec![s])
    } else {
        m::expand_arg(&word, &mut st)
    };
    Case {
        text: m::render_word(&word),
        word,
        expect,
        assign,
    }
}

fn has_at(w: &Word) -> bool {
    fn p(pm: &Param) -> bool {
        matches!(pm.name, Name::At | Name::Star)
            || match &pm.form {
                Form::Switch { word, .. } => has_at(word),
                Form::Trim { pat, .. } => has_at(pat),
                _ => false,
            }
    }
    w.iter().any(|u| match u {
        Unit::Param(pm) => p(pm),
        Unit::DQ(ds) => ds.iter().any(|d| matches!(d, DUnit::Param(pm) if p(pm))),
        _ => false,
    })
}

/// One script: setup + a list of cases, each in its own subshell.
pub fn script_for(setup: &Setup, cases: &[Case]) -> String {
    let mut s = setup.script();
    for c in cases {
        if c.assign {
            s.push_str(&format!("(v={}; probe \"$v\"); probe st $?\n", c.text));
        } else {
            s.push_str(&format!("(probe {}); probe st $?\n", c.text));
        }
    }
    s
}

/// the exhaustive unit alphabet for short words
fn unit_alphabet() -> Vec<Unit> {
    let mut v: Vec<Unit> = vec![
        Unit::Lit('a'),
        Unit::Esc(' '),
        Unit::SQ(String::new()),
        Unit::SQ("a b".into()),
        Unit::DQ(vec![]),
        Unit::DQ(vec![DUnit::Lit(' ')]),
    ];
    let plain = |n: Name| Param {
        name: n,
        form: Form::Plain { braces: false },
    };
    for n in [Name::Var("x"), Name::Var("u"), Name::Pos(1), Name::Pos(2), Name::At, Name::Star, Name::Hash] {
        v.push(Unit::Param(plain(n.clone())));
        v.push(Unit::DQ(vec![DUnit::Param(plain(n.clone()))]));
    }
    // every switch form on x with a two-field word, unquoted and quoted
    for colon in [false, true] {
        for kind in [Sw::Minus, Sw::Plus, Sw::Assign, Sw::Error] {
            let p = Param {
                name: Name::Var("x"),
                form: Form::Switch {
                    colon,
                    kind,
                    word: vec![Unit::Lit('b'), Unit::Lit(' '), Unit::SQ("c d".into())],
                },
            };
            v.push(Unit::Param(p.clone()));
            let pq = Param {
                name: Name::Var("x"),
                form: Form::Switch {
                    colon,
                    kind,
                    word: vec![Unit::Lit('b'), Unit::Lit(':'), Unit::Param(plain(Name::Var("y")))],
                },
            };
            v.push(Unit::DQ(vec![DUnit::Param(pq)]));
        }
    }
    for kind in [Tr::PrefixShort, Tr::PrefixLong, Tr::SuffixShort, Tr::SuffixLong] {
        v.push(Unit::Param(Param {
            name: Name::Var("x"),
            form: Form::Trim {
                kind,
                pat: vec![Unit::Lit('*'), Unit::Lit(':')],
            },
        }));
        v.push(Unit::DQ(vec![DUnit::Param(Param {
            name: Name::Var("x"),
            form: Form::Trim {
                kind,
                pat: vec![Unit::Lit('a'), Unit::Lit('*')],
            },
        })]));
    }
    v.push(Unit::Param(Param {
        name: Name::Var("x"),
        form: Form::Len,
    }));
    v.push(Unit::Param(Param {
        name: Name::Var("u"),
        form: Form::Len,
    }));
    v
}

fn word_ok_for(w: &Word, setup: &Setup) -> bool {
    // unquoted $@/$* with an empty positional parameter: not generated ("may" in POSIX)
    let pos_has_empty = setup.pos.iter().any(|p| p.is_empty());
    fn unq_multi(w: &Word) -> bool {
        w.iter().any(|u| match u {
            Unit::Param(p) => {
                matches!(p.name, Name::At | Name::Star)
                    || match &p.form {
                        Form::Switch { word, .. } => unq_multi(word),
                        _ => false,
                    }
            }
            _ => false,
        })
    }
    if pos_has_empty && unq_multi(w) {
        return false;
    }
    // ... nor when a positional parameter begins or ends with a non-whitespace IFS character
    // (dash, bash and the letter of 2.6.5 give three different field lists there)
    let ifs: Vec<char> = setup.ifs.unwrap_or(" \t\n").chars().collect();
    let edgy = setup.pos.iter().any(|p| {
        let f = p.chars().next();
        let l = p.chars().last();
        [f, l].iter().flatten().any(|c| ifs.contains(c) && !matches!(c, ' ' | '\t' | '\n'))
    });
    if edgy && unq_multi(w) {
        return false;
    }
    // "$@" with zero positional parameters must be alone in its double quotes
    if setup.pos.is_empty() {
        for u in w {
            if let Unit::DQ(ds) = u {
                let has = ds.iter().any(|d| matches!(d, DUnit::Param(p) if matches!(p.name, Name::At)));
                if has && ds.len() > 1 {
                    return false;
                }
            }
        }
    }
    true
}

fn run_batch(ctx: &Ctx, setup: &Setup, cases: &[Case], what: &str) {
    let script = script_for(setup, cases);
    let out = vsh::run_script(&script, Strategy::Fifo);
    let mut ev = out.events.iter().peekable();
    for c in cases {
        ctx.eval();
        // events: optional value probe, then "st N"
        let mut value: Option<&vsh::Event> = None;
        let Some(first) = ev.next() else {
            ctx.violation(
                "missing-events",
                format!("{what}\nscript:\n{script}\nstderr:\n{}", out.err()),
            );
            return;
        };
        let st = if first.args.first().map(|s| s.as_str()) == Some("st") && first.args.len() == 2 && first.pid == 2 {
            first
        } else {
            value = Some(first);
            match ev.next() {
                Some(e) => e,
                None => {
                    ctx.violation("missing-events", format!("{what}\nscript:\n{script}"));
                    return;
                }
            }
        };
        let status: i32 = st.args.get(1).and_then(|s| s.parse().ok()).unwrap_or(-1);
        let shape = m::shape(&c.word);
        let ctxt = format!(
            "{what}\nword: {}   (shape {shape}{})\nstate: x={:?} y={:?} u=unset positional={:?} IFS={:?} nounset={}",
            c.text,
            if c.assign { ", assignment context" } else { "" },
            setup.x,
            setup.y,
            setup.pos,
            setup.ifs,
            setup.nounset
        );
        match (&c.expect, value) {
            (Ok(fields), Some(v)) => {
                if &v.args != fields {
                    ctx.violation(
                        format!("fields:{shape}"),
                        format!("{ctxt}\nyash produced fields {:?}\nPOSIX prescribes   {fields:?}", v.args),
                    );
                } else if status != 0 {
                    ctx.violation(format!("status:{shape}"), format!("{ctxt}\nexpansion succeeded but subshell status {status}"));
                }
                if fields.len() != 1 || fields.iter().any(|f| f.is_empty()) || setup.ifs.is_some() {
                    ctx.nontrivial(crate::util::fnv_str(&format!("{shape}|{:?}|{:?}|{:?}|{:?}", setup.x, setup.y, setup.pos, setup.ifs)));
                }
            }
            (Ok(fields), None) => ctx.violation(
                format!("spurious-error:{shape}"),
                format!("{ctxt}\nyash reported an error (status {status}), POSIX prescribes fields {fields:?}\nstderr:\n{}", out.err()),
            ),
            (Err(e), Some(v)) => ctx.violation(
                format!("missing-error:{e:?}:{shape}"),
                format!("{ctxt}\nyash produced fields {:?}, POSIX prescribes an error ({e:?})", v.args),
            ),
            (Err(_), None) => {
                if status == 0 {
                    ctx.violation(format!("error-status-zero:{shape}"), format!("{ctxt}\nexpansion error but status 0"));
                }
                ctx.nontrivial(crate::util::fnv_str(&format!("err|{shape}|{:?}", setup.nounset)));
            }
        }
    }
}

fn all_setups_small() -> Vec<Setup> {
    let mut v = Vec::new();
    for x in [None, Some(""), Some("a b"), Some(":a::b:")] {
        for pos in [&[][..], &["a", "b c"][..], &["", "a"][..]] {
            for ifs in [None, Some(""), Some(":"), Some(" :")] {
                for nounset in [false, true] {
                    v.push(Setup {
                        x,
                        y: Some("*"),
                        pos: pos.to_vec(),
                        ifs,
                        nounset,
                    });
                }
            }
        }
    }
    v
}

fn exhaustive(ctx: &Ctx) {
    let alpha = unit_alphabet();
    let maxlen = if ctx.quick() { 2 } else { 3 };
    let setups = all_setups_small();
    let n = alpha.len();
    let mut words: Vec<Word> = Vec::new();
    for len in 1..=maxlen {
        for mut idx in 0..n.pow(len as u32) {
            let mut w = Vec::new();
            for _ in 0..len {
                w.push(alpha[idx % n].clone());
                idx /= n;
            }
            words.push(w);
        }
    }
    ctx.count("exhaustive_words", words.len() as i64);
    ctx.count("exhaustive_states", setups.len() as i64);
    let words = &words;
    let setups = &setups;
    let chunk = 150;
    let nchunks = words.len().div_ceil(chunk);
    ctx.par_for(
        nchunks * setups.len(),
        |job| {
            let setup = &setups[job % setups.len()];
            let ci = job / setups.len();
            let cases: Vec<Case> = words[ci * chunk..((ci + 1) * chunk).min(words.len())]
                .iter()
                .filter(|w| word_ok_for(w, setup))
                .map(|w| make_case(w.clone(), setup, false))
                .collect();
            if cases.is_empty() {
                return;
            }
            run_batch(ctx, setup, &cases, "exhaustive short word");
            if job % 997 == 0 {
                let c = &cases[cases.len() / 2];
                ctx.sample(J::obj(vec![
                    ("kind", J::s("exhaustive")),
                    ("word", J::s(c.text.clone())),
                    ("state", J::s(format!("{setup:?}"))),
                    ("expected", J::s(format!("{:?}", c.expect))),
                ]));
            }
        },
        |i, msg| {
            ctx.violation(
                if crate::util::panic_in_repo(&msg) { format!("panic:{}", msg.split(": ").next().unwrap_or("")) } else { "harness-panic".into() },
                format!("exhaustive job {i}: {msg}"),
            )
        },
    );
}

pub fn random_case(rng: &mut Rng, setup: &Setup) -> Case {
    loop {
        let mut g = m::Gen {
            rng,
            npos: setup.pos.len(),
            pos_has_empty: setup.pos.iter().any(|p| p.is_empty()),
        };
        let w = g.word(6, 3);
        if !word_ok_for(&w, setup) {
            continue;
        }
        let assign = rng.chance(12) && !has_at(&w);
        let _ = &assign;
        return make_case(w, setup, assign);
    }
}

fn random(ctx: &Ctx, nscripts: usize) {
    let seed = ctx.seed;
    ctx.par_for(
        nscripts,
        |i| {
            let mut rng = Rng::new(seed.wrapping_mul(6364136223846793005).wrapping_add(i as u64));
            let setup = Setup::random(&mut rng);
            let cases: Vec<Case> = (0..100).map(|_| random_case(&mut rng, &setup)).collect();
            run_batch(ctx, &setup, &cases, "random word");
            if i % 400 == 0 {
                let c = &cases[0];
                ctx.sample(J::obj(vec![
                    ("kind", J::s("random")),
                    ("word", J::s(c.text.clone())),
                    ("state", J::s(format!("{setup:?}"))),
                    ("expected", J::s(format!("{:?}", c.expect))),
                ]));
            }
        },
        |i, msg| {
            ctx.violation(
                if crate::util::panic_in_repo(&msg) { format!("panic:{}", msg.split(": ").next().unwrap_or("")) } else { "harness-panic".into() },
                format!("random script {i}: {msg}"),
            )
        },
    );
}

// ------------------------------------------------------------------ read

pub fn read_cases(maxlen: usize) -> Vec<String> {
    let alpha = ['a', 'b', ' ', ':', '\\'];
    let mut out = vec![String::new()];
    let mut frontier = vec![String::new()];
    for _ in 0..maxlen {
        let mut next = Vec::new();
        for s in &frontier {
            for c in alpha {
                let mut t = s.clone();
                t.push(c);
                next.push(t);
            }
        }
        out.extend(next.iter().cloned());
        frontier = next;
    }
    // a line ending in an unescaped backslash is a continuation: the input here has no next line
    out.retain(|l| {
        let trailing = l.chars().rev().take_while(|c| *c == '\\').count();
        trailing % 2 == 0
    });
    out
}

fn read_check(ctx: &Ctx) {
    let lines = read_cases(if ctx.quick() { 5 } else { 7 });
    let ifses: [Option<&str>; 5] = [None, Some(" "), Some(":"), Some(" :"), Some("")];
    let lines = &lines;
    let chunk = 60;
    let jobs = lines.len().div_ceil(chunk);
    ctx.par_for(
        jobs * ifses.len() * 2,
        |job| {
            let raw = job % 2 == 1;
            let ifs = ifses[(job / 2) % ifses.len()];
            let ci = job / (2 * ifses.len());
            let batch = &lines[ci * chunk..((ci + 1) * chunk).min(lines.len())];
            // one script: for each line and each variable count, read from a here-document
            let mut script = String::new();
            match ifs {
                None => script.push_str("unset IFS\n"),
                Some(i) => script.push_str(&format!("IFS={}\n", sh_quote(i))),
            }
            let mut expect: Vec<(String, usize, Vec<String>)> = Vec::new();
            for l in batch {
                // without -r an escaped newline would join lines; -r lines may end in backslash
                if raw == false && l.ends_with('\\') {
                    continue;
                }
                for nv in 1..=3usize {
                    let vars = ["p", "q", "r"][..nv].join(" ");
                    script.push_str(&format!(
                        "unset p q r; read {}{} <<'END'\n{}\nEND\nprobe \"${{p-U}}\" \"${{q-U}}\" \"${{r-U}}\"\n",
                        if raw { "-r " } else { "" },
                        vars,
                        l
                    ));
                    let mut want = m::read_split(l, &ifs.map(|s| s.to_string()), nv, raw);
                    while want.len() < 3 {
                        want.push("U".into());
                    }
                    expect.push((l.clone(), nv, want));
                }
            }
            let out = vsh::run_script(&script, Strategy::Fifo);
            ctx.evals(expect.len());
            if out.events.len() != expect.len() {
                ctx.violation("read:event-count", format!("script:\n{script}\nstderr:\n{}", out.err()));
                return;
            }
            for ((line, nv, want), ev) in expect.iter().zip(out.events.iter()) {
                if &ev.args != want {
                    ctx.violation(
                        format!("read:{}vars:{}", nv, if raw { "raw" } else { "cooked" }),
                        format!(
                            "read {}{} with IFS={ifs:?} on line {line:?}: yash assigned {:?}, POSIX prescribes {want:?}",
                            if raw { "-r " } else { "" },
                            ["p", "q", "r"][..*nv].join(" "),
                            ev.args
                        ),
                    );
                } else if want.iter().filter(|w| w.as_str() != "U").any(|w| w.contains(' ') || w.contains(':') || w.is_empty()) {
                    ctx.nontrivial(crate::util::fnv_str(&format!("read|{line}|{nv}|{raw}|{ifs:?}")));
                }
            }
            if job % 211 == 0 {
                if let Some((line, nv, want)) = expect.get(expect.len() / 2) {
                    ctx.sample(J::obj(vec![
                        ("kind", J::s("read")),
                        ("line", J::s(line.clone())),
                        ("nvars", J::I(*nv as i64)),
                        ("raw", J::B(raw)),
                        ("ifs", J::s(format!("{ifs:?}"))),
                        ("expected", J::s(format!("{want:?}"))),
                    ]));
                }
            }
        },
        |i, msg| {
            ctx.violation(
                if crate::util::panic_in_repo(&msg) { "read:panic" } else { "harness-panic" },
                format!("read job {i}: {msg}"),
            )
        },
    );
    ctx.count("read_lines", lines.len() as i64);
}

/// `$*` where no field splitting takes place (assignment value, `case` word, here-document,
/// `export x=$*`): the positional parameters joined by the first character of IFS (a space if IFS
/// is unset, nothing if it is empty) - dash and bash agree.
fn star_in_single_field_contexts(ctx: &Ctx) {
    let lists: [&[&str]; 6] = [&["a", "b c", "d"], &["a"], &["", "a", ""], &["x y"], &["a", "b"], &["-", ":"]];
    let ifss: [Option<&str>; 7] = [None, Some(""), Some(":"), Some(" :"), Some("-x"), Some("\u{e9},"), Some("\u{65e5}")];
    let sq = |s: &str| format!("'{}'", s.replace('\'', "'\\''"));
    for list in lists {
        for ifs in ifss {
            let sep = match ifs {
                None => " ".to_string(),
                Some(s) => s.chars().next().map(|c| c.to_string()).unwrap_or_default(),
            };
            let joined = list.join(&sep);
            let mut script = String::from("set -f\n");
            script.push_str(&format!("set -- {}\n", list.iter().map(|p| sq(p)).collect::<Vec<_>>().join(" ")));
            match ifs {
                None => script.push_str("unset IFS\n"),
                Some(s) => script.push_str(&format!("IFS={}\n", sq(s))),
            }
            script.push_str("x=$*; probe assign \"$x\"\n");
            script.push_str("y=${*}; probe assign-braced \"$y\"\n");
            script.push_str(&format!("case $* in {}) probe case yes;; *) probe case no;; esac\n", sq(&joined)));
            script.push_str("export z=$*; probe export \"$z\"\n");
            script.push_str("v=\"$*\"; probe quoted \"$v\"\n");
            let out = crate::vsh::run_script(&script, crate::sched::Strategy::Fifo);
            ctx.evals(5);
            let got: Vec<String> = out.events.iter().filter(|e| e.kind == "probe").map(|e| e.args.join("\u{1}")).collect();
            let want: Vec<String> = vec![
                format!("assign\u{1}{joined}"),
                format!("assign-braced\u{1}{joined}"),
                "case\u{1}yes".to_string(),
                format!("export\u{1}{joined}"),
                format!("quoted\u{1}{joined}"),
            ];
            if got != want {
                ctx.violation(
                    "star-single-field",
                    format!("positional parameters {list:?}, IFS {ifs:?}: expected {want:?}, yash {got:?}\nscript:\n{script}stderr:\n{}", out.err()),
                );
            } else {
                ctx.nontrivial(crate::util::fnv_str(&script));
            }
        }
    }
}

/// `${IFS=value}` / `${IFS:=value}` inside the word being expanded: field splitting is the step after
/// all expansions of the word (XCU 2.6), so the word is split with the value assigned by itself.
/// `$@`/`$*` are kept out (when their joining looks at IFS relative to the assignment is not settled).
fn ifs_assigned_in_word(ctx: &Ctx) {
    let lit = |t: &str| -> Vec<Unit> { t.chars().map(Unit::Lit).collect() };
    let plain = |n: Name| Unit::Param(Param { name: n, form: Form::Plain { braces: true } });
    let bodies: Vec<(&str, Vec<Unit>)> = vec![
        ("x", vec![plain(Name::Var("x"))]),
        ("xy", vec![plain(Name::Var("x")), plain(Name::Var("y"))]),
        ("x-y", { let mut v = vec![plain(Name::Var("x"))]; v.extend(lit("-")); v.push(plain(Name::Var("y"))); v }),
        ("1", vec![plain(Name::Pos(1))]),
        ("lit", lit("p:q")),
        ("dq", vec![Unit::DQ(vec![DUnit::Param(Param { name: Name::Var("x"), form: Form::Plain { braces: false } })]), plain(Name::Var("y"))]),
    ];
    let values = [":", " :", "-", "", "a", ": "];
    let mut n = 0;
    for ifs in [None, Some(""), Some(":"), Some(" ")] {
        for x in [Some("a:b"), Some("a b:c"), Some("a-b c"), Some(":a::b:"), Some("")] {
            for y in [None, Some("c:d -e")] {
                let setup = Setup { x, y, pos: vec!["p:q r", "s"], ifs, nounset: false };
                let mut cases = Vec::new();
                for (_, body) in &bodies {
                    for val in values {
                        for colon in [false, true] {
                            for quoted in [false, true] {
                                for place in 0..3 {
                                    let pm = Param { name: Name::Var("IFS"), form: Form::Switch { colon, kind: Sw::Assign, word: if quoted { lit(val) } else { vec![Unit::SQ(val.to_string())] } } };
                                    // (inside double quotes a single quote in the switch word is an ordinary character)
                                    let unit = if quoted { Unit::DQ(vec![DUnit::Param(pm)]) } else { Unit::Param(pm) };
                                    let mut w: Word = Vec::new();
                                    match place {
                                        0 => { w.push(unit); w.extend(body.iter().cloned()); }
                                        1 => { w.extend(body.iter().cloned()); w.push(unit); }
                                        _ => { w.extend(body.iter().cloned()); w.push(unit); w.extend(body.iter().cloned()); }
                                    }
                                    cases.push(make_case(w, &setup, false));
                                }
                            }
                        }
                    }
                }
                n += cases.len();
                run_batch(ctx, &setup, &cases, "IFS assigned inside the word");
            }
        }
    }
    ctx.count("words_assigning_IFS_inside_the_word", n as i64);
}

pub fn run(ctx: &Ctx) {
    star_in_single_field_contexts(ctx);
    ifs_assigned_in_word(ctx);
    exhaustive(ctx);
    read_check(ctx);
    *ctx.exhaustive.lock().unwrap() = Some(true);
    random(ctx, if ctx.quick() { 10_000 } else { 150_000 });
    ctx.assume("models/expand.rs is a faithful reading of XCU 2.6 (validated against dash and bash at development time with tools/xshell.py)");
    ctx.assume("not generated: unquoted $@/$* with empty positional parameters; \"$@\" sharing its quotes with other text when there are no positional parameters; switches, trims and ${#} on @ and *; $@/$* inside the word of a double-quoted ${x+word} when there are no positional parameters (zero fields by the letter of XCU 2.5.2 and in yash, one empty field in dash and bash); single quotes/backslashes inside a double-quoted ${x-word}; non-blank IFS whitespace; tilde and pathname expansion (set -f)");
}

/// dump cases for cross-shell validation (development tool)
pub fn dump(n: usize, seed: u64) {
    let mut rng = Rng::new(seed);
    for _ in 0..n {
        let setup = Setup::random(&mut rng);
        let cases: Vec<Case> = (0..40).map(|_| random_case(&mut rng, &setup)).collect();
        let script = script_for(&setup, &cases);
        let mut expect = Vec::new();
        for c in &cases {
            match &c.expect {
                Ok(f) => {
                    expect.push(format!("P{}", f.iter().map(|x| format!("<{x}>")).collect::<String>()));
                    expect.push("S0".to_string());
                }
                Err(_) => expect.push("S!".to_string()),
            }
        }
        let j = J::obj(vec![("script", J::s(script)), ("expect", J::arr_s(expect))]);
        println!("{}", j.render().replace('\n', " "));
    }
}

pub const RULE: &str = "every case is `(probe WORD); probe st $?` (or `(v=WORD; probe \"$v\")`) run by the complete shell on the virtual system with set -f, the argument vector received by probe compared with models::expand. Exhaustive: all words of up to 2 (quick) / 3 units over a 52-unit alphabet (literals, escapes, quotes, each parameter form on x/u/1/2/@/*/#, every switch with and without colon, every trim, unquoted and double-quoted) x 96 states (x unset/empty/'a b'/':a::b:' x 3 positional lists x 4 IFS values x nounset on/off); read: all lines up to length 5 (quick) / 7 over {a b space : backslash} x 5 IFS values x 1-3 variables x -r; random: deeper words (<=6 units, nesting <=3) over 7 values x 6 positional lists x 7 IFS values, seeded. evaluations = words expanded + read invocations; distinct_nontrivial = distinct (word shape, state) pairs whose expected result has != 1 field, an empty field, or a non-default IFS (plus distinct error shapes and read cases with separators in the result)";
