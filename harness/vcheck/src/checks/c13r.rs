//! C13 on the real kernel: real children run in parallel and end at arbitrary moments relative to
//! the shell's fork / SIGCHLD handling / wait calls. Stress rounds of asynchronous lists, pipelines
//! and command substitutions with known exit statuses: every `wait`, `$?` and pipeline status is
//! the right one in every round, nothing hangs (a run that sits idle is reported as blocked), and
//! no child is left unreaped at the end (`/proc/<pid>/task/*/children` of the shell is empty).

use crate::util::Ctx;

pub fn run(ctx: &Ctx) {
    let rounds = if ctx.quick() { 60 } else { 1200 };
    let shards = if ctx.quick() { 8 } else { 16 };
    // (round body, the line it must print)
    let bodies: [(&str, &str); 6] = [
        (
            "(exit 3) & a=$!; (exit 4) & b=$!; { exit 5; } & c=$!; /bin/true & d=$!; wait $b; sb=$?; wait $a; sa=$?; wait $d; sd=$?; wait $c; sc=$?; echo \"r $sa $sb $sc $sd\"",
            "r 3 4 5 0",
        ),
        ("(exit 2) | (exit 3) | (exit 4); s1=$?; /bin/false | /bin/true; s2=$?; ! /bin/true | /bin/false; s3=$?; echo \"r $s1 $s2 $s3\"", "r 4 0 0"),
        ("x=$( (exit 7) ); s1=$?; y=$(/bin/echo out; exit 9); s2=$?; echo \"r $s1 $s2 $y\"", "r 7 9 out"),
        ("(exit 6) & (exit 7) & (exit 8) & wait; s1=$?; (exit 9) & p=$!; wait $p; s2=$?; wait $p; s3=$?; echo \"r $s1 $s2 $s3\"", "r 0 9 127"),
        ("set -o pipefail; (exit 5) | /bin/true | (exit 6) | /bin/true; s1=$?; set +o pipefail; (exit 5) | /bin/true; s2=$?; echo \"r $s1 $s2\"", "r 6 0"),
        ("(/bin/sh -c 'kill -TERM $$') & p=$!; wait $p; s1=$?; ( (exit 1) & (exit 2) & wait; exit 4 ); s2=$?; echo \"r $s1 $s2\"", "r 399 4"),
    ];
    ctx.par_for(
        shards,
        |k| {
            let (body, want) = bodies[k % bodies.len()];
            let script = format!("i=0\nwhile [ $i -lt {rounds} ]; do\n  i=$((i+1))\n  {body}\ndone\nread -r kids </proc/$$/task/$$/children; echo \"left [$kids]\"\n");
            let mut cmd = std::process::Command::new(std::env::current_exe().unwrap());
            cmd.args(["real-shell", "-c", &script]).env_clear().env("PATH", "/bin:/usr/bin").env("LANG", "C");
            let out = match crate::util::run_child(cmd, None, 300) {
                Ok(o) => o,
                Err(e) => {
                    if e.starts_with("BLOCKED") {
                        ctx.violation("C13:real-stress:blocked", format!("{e}\nscript:\n{script}"));
                    } else {
                        ctx.inconclusive.fetch_add(1, std::sync::atomic::Ordering::Relaxed);
                    }
                    return;
                }
            };
            let text = String::from_utf8_lossy(&out.stdout);
            let lines: Vec<&str> = text.lines().filter(|l| l.starts_with("r ")).collect();
            ctx.evals(lines.len());
            ctx.count("real_stress_rounds", lines.len() as i64);
            let wrong: Vec<&&str> = lines.iter().filter(|l| **l != want).collect();
            let left = text.lines().find(|l| l.starts_with("left "));
            let ctxt = || format!("script:\n{script}stderr (tail):\n{}", String::from_utf8_lossy(&out.stderr).lines().rev().take(8).collect::<Vec<_>>().join("\n"));
            if lines.len() != rounds {
                ctx.violation("C13:real-stress:incomplete", format!("{} of {rounds} rounds completed (exit {:?})\n{}", lines.len(), out.status, ctxt()));
            } else if !wrong.is_empty() {
                ctx.violation("C13:real-stress:wrong-status", format!("{} of {rounds} rounds printed something other than `{want}`, e.g. `{}`\n{}", wrong.len(), wrong[0], ctxt()));
            } else if left != Some("left []") {
                ctx.violation("C13:real-stress:children-left", format!("children of the shell at the end: {left:?}\n{}", ctxt()));
            } else {
                ctx.nontrivial_str(&format!("c13r|{k}"));
            }
        },
        |i, msg| ctx.violation("harness-panic", format!("real stress {i}: {msg}")),
    );
}
