//! C08 — nothing done in a subshell environment leaks into the parent shell.
//!
//! Deep snapshots (`snap` built-in: variables with attributes, positional parameters, functions,
//! aliases, options, traps, cwd, umask, fd table with open-file-description identity) are taken
//! in the parent before and after, and at the entry of the subshell. Oracle: before == after on
//! every facet; entry == before except that command traps are reset and (for pipelines,
//! substitutions, async lists) descriptors 0/1 may be re-plumbed.

use crate::sched::Strategy;
use crate::util::{Ctx, J, Rng};
use crate::vsh::{self, Event, FileSpec};
use std::collections::BTreeMap;

const MUTATORS: [&str; 40] = [
    "x=changed",
    "newvar=1",
    "unset x",
    "unset y",
    "export x",
    "export z=exported",
    "readonly x",
    "readonly r2=ro",
    "typeset t=loc",
    "f() { probe never; }",
    "g() { :; }",
    "unset -f f",
    "alias a1=changed",
    "alias new='probe n'",
    "unalias a1",
    "unalias -a",
    "set -o noglob",
    "set +o noglob",
    "set -o nounset",
    "set +C",
    "set -C",
    "set -a",
    "set -o pipefail",
    "set -- p q r",
    "set --",
    "shift",
    "cd /tmp",
    "cd /d1/d2",
    "cd ..",
    "umask 027",
    "umask 000",
    "trap 'probe changed' USR1",
    "trap - USR1",
    "trap '' USR1",
    "trap 'probe x' EXIT",
    "trap 'probe t' TERM",
    "exec 3>/tmp/out3",
    "exec 4<&0",
    "exec 5>&-",
    "exec 0</dev/null",
];

/// ways of putting commands into a subshell environment; `{B}` is the body
/// (name, commands run before the `before` snapshot, the subshell itself)
const KINDS: [(&str, &str, &str); 11] = [
    // the subshell is forked while a caught signal is still waiting for its trap to run
    (
        "substitution forked while a trap is pending",
        "trap 'probe T-pend' USR1",
        // the first substitution closes its output, signals the parent and stays alive for a while,
        // so the parent catches the signal while waiting for it, before forking the second one
        ": $(exec >&-; kill -s USR1 $$; (:); (:)) $( {B} )",
    ),
    (
        "subshell forked in a trap action",
        "tf() { ( {B} ); }; trap 'tf \"$@\"' USR2",
        "kill -s USR2 $$",
    ),
    ("( )", "", "( {B} )"),
    ("$( )", "", ": $( {B} )"),
    ("backquotes", "", ": `{B}`"),
    ("first pipeline stage", "", "{ {B}; } | true"),
    ("last pipeline stage", "", "true | { {B}; }"),
    ("middle pipeline stage", "", "true | { {B}; } | true"),
    ("asynchronous list", "", "{ {B}; } & wait $!"),
    ("function body in a pipeline stage", "sf() { {B}; }", "sf \"$@\" | true"),
    ("nested", "", "( ( {B} ); true )"),
];

fn setup(rng: &mut Rng) -> String {
    let mut s = String::new();
    s.push_str("x=orig; y='a b'; export y\n");
    if rng.chance(50) {
        s.push_str("readonly r1=one\n");
    }
    s.push_str("f() { probe f-body; }\n");
    s.push_str("alias a1='probe alias1'\n");
    if rng.chance(50) {
        s.push_str("alias -g G=global\n");
    }
    for o in ["-f", "-u", "-C", "-a", "-o pipefail"] {
        if rng.chance(30) {
            s.push_str(&format!("set {o}\n"));
        }
    }
    s.push_str(["set -- one two\n", "set -- 'a b'\n", "set --\n"][rng.below(3) as usize]);
    if rng.chance(60) {
        s.push_str("cd /d1\n");
    }
    if rng.chance(60) {
        s.push_str("umask 022\n");
    }
    match rng.below(4) {
        0 => s.push_str("trap 'probe T-usr1' USR1\n"),
        1 => s.push_str("trap '' USR1\n"),
        2 => s.push_str("trap 'probe T-usr1' USR1; trap '' USR2; trap 'probe T-exit' EXIT\n"),
        _ => {}
    }
    if rng.chance(50) {
        s.push_str("exec 5>/tmp/five\n");
    }
    if rng.chance(30) {
        s.push_str("exec 6</dev/null\n");
    }
    // warm-up: the shell installs its SIGCHLD handling at the first wait
    s.push_str("(:)\n: | :\n");
    s
}

fn parse_snap(e: &Event) -> BTreeMap<String, String> {
    e.args[1..]
        .iter()
        .filter_map(|a| a.split_once('=').map(|(k, v)| (k.to_string(), v.to_string())))
        .collect()
}

/// facets compared between parent-before and parent-after
const PARENT_FACETS: [&str; 11] = [
    "vars", "positional", "functions", "aliases", "options", "traps", "cwd", "umask", "fds", "dispositions", "sigmask",
];

fn fds_above_2(s: &str) -> String {
    s.split(' ')
        .filter(|e| e.split(':').next().and_then(|n| n.parse::<i32>().ok()).is_some_and(|n| n > 2))
        .collect::<Vec<_>>()
        .join(" ")
}

/// traps facet with command traps removed (what a subshell must see on entry)
fn traps_reset(s: &str) -> String {
    s.split('\u{1}')
        .filter(|t| !t.contains(":Command("))
        .collect::<Vec<_>>()
        .join("\u{1}")
}

fn check_run(ctx: &Ctx, script: &str, kind: &str, muts: &[&str], strategy: Strategy) -> Option<vsh::VOut> {
    let mut cfg = vsh::VCfg::script(script);
    cfg.strategy = strategy.clone();
    cfg.extra = vsh::v_probes();
    cfg.files = vec![
        ("/d1".into(), FileSpec::Dir),
        ("/d1/d2".into(), FileSpec::Dir),
        ("/tmp/in".into(), FileSpec::Regular(b"data\n".to_vec())),
        // a controlling terminal exists: a shell that does no job control must still not open it
        ("/dev/tty".into(), FileSpec::Regular(Vec::new())),
    ];
    let out = vsh::run_v(cfg);
    ctx.eval();
    let ctxt = || format!("subshell kind: {kind}; mutators: {muts:?}; schedule {strategy:?}\nscript:\n{script}\nstderr:\n{}", out.err());
    if out.end != vsh::End::Done {
        ctx.violation(format!("no-termination:{kind}"), format!("{:?}\n{}", out.end, ctxt()));
        return None;
    }
    let snaps: Vec<&Event> = out.events.iter().filter(|e| e.kind == "snap").collect();
    let find = |tag: &str| snaps.iter().find(|e| e.args[0] == tag).map(|e| parse_snap(e));
    let (Some(before), Some(after)) = (find("before"), find("after")) else {
        ctx.violation(format!("missing-snapshot:{kind}"), ctxt());
        return None;
    };
    // job control is off in these scripts: the shell has no business opening the terminal
    for e in &snaps {
        let t = parse_snap(e);
        if t.get("tty_fds").is_some_and(|v| !v.is_empty()) {
            ctx.violation(
                format!("terminal-opened:{kind}"),
                format!("at `snap {}` descriptors {:?} are open on /dev/tty although job control is off\n{}", e.args[0], t.get("tty_fds"), ctxt()),
            );
            return None;
        }
    }
    for f in PARENT_FACETS {
        if before.get(f) != after.get(f) {
            ctx.violation(
                format!("leak:{f}:{kind}"),
                format!(
                    "the parent's {f} changed across the subshell\nbefore: {:?}\nafter:  {:?}\n{}",
                    before.get(f),
                    after.get(f),
                    ctxt()
                ),
            );
            return None;
        }
    }
    match find("entry") {
        None => {
            ctx.violation(format!("missing-entry-snapshot:{kind}"), ctxt());
            return None;
        }
        Some(entry) => {
            for f in ["vars", "positional", "functions", "aliases", "options", "cwd", "umask"] {
                if before.get(f) != entry.get(f) {
                    ctx.violation(
                        format!("entry:{f}:{kind}"),
                        format!(
                            "on entry the subshell does not see the parent's {f}\nparent: {:?}\nchild:  {:?}\n{}",
                            before.get(f),
                            entry.get(f),
                            ctxt()
                        ),
                    );
                    return None;
                }
            }
            // an asynchronous list (job control off) additionally ignores SIGINT and SIGQUIT
            let strip_int_quit = |s: &str| -> String {
                if kind != "asynchronous list" {
                    return s.to_string();
                }
                s.split('\u{1}')
                    .filter(|t| !t.is_empty() && !t.contains("Number(2)") && !t.contains("Number(3)"))
                    .collect::<Vec<_>>()
                    .join("\u{1}")
            };
            let want_traps = strip_int_quit(&traps_reset(before.get("traps").map(|s| s.as_str()).unwrap_or("")));
            if strip_int_quit(entry.get("traps").map(|s| s.as_str()).unwrap_or("")) != want_traps {
                ctx.violation(
                    format!("entry:traps:{kind}"),
                    format!(
                        "traps on subshell entry: {:?}; the parent's traps with command actions reset: {want_traps:?}\n{}",
                        entry.get("traps"),
                        ctxt()
                    ),
                );
                return None;
            }
            let (bf, ef) = (
                fds_above_2(before.get("fds").map(|s| s.as_str()).unwrap_or("")),
                fds_above_2(entry.get("fds").map(|s| s.as_str()).unwrap_or("")),
            );
            // descriptors >= 10 are the shell's own (e.g. saved copies); user descriptors 3..9 must be inherited as they are
            let user = |s: &str| -> String {
                s.split(' ')
                    .filter(|e| e.split(':').next().and_then(|n| n.parse::<i32>().ok()).is_some_and(|n| n < 10))
                    .collect::<Vec<_>>()
                    .join(" ")
            };
            if user(&bf) != user(&ef) {
                ctx.violation(
                    format!("entry:fds:{kind}"),
                    format!("user descriptors 3-9 on subshell entry: {:?}; parent: {:?}\n{}", user(&ef), user(&bf), ctxt()),
                );
                return None;
            }
        }
    }
    // file contents written through shared descriptors are allowed to change; nothing else to check
    Some(out)
}

/// Job control (`set -m`) with a controlling terminal: foreground subshells are jobs in their own
/// process group, the shell hands them the terminal and takes it back, and keeps one descriptor
/// (10 or above) for the terminal - or none when the descriptor limit leaves no room for it.
/// Oracle: the parent's facets before == after each job (descriptors included, whatever the
/// limit); while a foreground job runs the terminal's foreground process group is the job's, and
/// back in the main shell it is the shell's.
fn job_control_slice(ctx: &Ctx) {
    let limits = ["", "ulimit -n 10", "ulimit -n 11", "ulimit -n 12", "ulimit -n 16"];
    let jobs_tpl: [(&str, &str); 8] = [
        ("( )", "( snap entry; {M}; snap j1 )"),
        ("( ) with an inner subshell", "( snap entry; {M}; (:); snap j1; ( (:) ); : | :; snap j2 )"),
        ("( ) with an inner substitution", "( snap entry; {M}; : $(:); snap j1; : `true`; snap j2 )"),
        ("( ) with an inner asynchronous list", "( snap entry; {M}; : & wait; snap j1 )"),
        ("pipeline", "{ snap entry; {M}; } | { : ; }"),
        ("pipeline, last stage", "true | { snap entry; {M}; (:); }"),
        ("function with a subshell body", "jf"),
        ("nested jobs", "( snap entry; ( {M}; (:) ); snap j1 )"),
    ];
    let n = limits.len() * jobs_tpl.len() * 8;
    ctx.par_for(
        n,
        |i| {
            let lim = limits[i % limits.len()];
            let (kname, tpl) = jobs_tpl[(i / limits.len()) % jobs_tpl.len()];
            let mut rng = Rng::new(i as u64 * 31 + 5);
            let m = *rng.pick(&MUTATORS);
            // (traps and exec redirections of the set-up are kept: they are part of the state)
            let mut script = String::new();
            if !lim.is_empty() {
                script.push_str(lim);
                script.push('\n');
            }
            script.push_str("set -m\n");
            script.push_str(&setup(&mut rng));
            // (the function is defined before the first snapshot: defining it is the parent's own doing)
            script.push_str(&"jf() ( snap entry; {M}; (:); snap j1 )\n".replace("{M}", m));
            script.push_str("snap before\n");
            script.push_str(&tpl.replace("{M}", m));
            script.push_str("\nsnap after\n(:)\n: | :\nsnap after2\nset +m\n(:)\nsnap after3\n");
            let mut cfg = vsh::VCfg::script(&script);
            cfg.strategy = if i % 3 == 0 { Strategy::Fifo } else { Strategy::Random { seed: rng.next(), preempt_pct: 40, max_preempt: 100 } };
            cfg.extra = vsh::v_probes();
            cfg.files = vec![
                ("/d1".into(), FileSpec::Dir),
                ("/d1/d2".into(), FileSpec::Dir),
                ("/tmp/in".into(), FileSpec::Regular(b"data\n".to_vec())),
                ("/dev/tty".into(), FileSpec::Regular(Vec::new())),
            ];
            let out = vsh::run_v(cfg);
            ctx.eval();
            ctx.count("job_control_runs", 1);
            let ctxt = || format!("job control on, {kname}, limit `{lim}`, mutator `{m}`\nscript:\n{script}\nstderr:\n{}", out.err());
            if out.end != vsh::End::Done {
                ctx.violation(format!("job-control:no-termination:{kname}"), format!("{:?}\n{}", out.end, ctxt()));
                return;
            }
            let snaps: Vec<(String, i32, BTreeMap<String, String>)> = out.events.iter().filter(|e| e.kind == "snap").map(|e| (e.args[0].clone(), e.pid, parse_snap(e))).collect();
            let find = |tag: &str| snaps.iter().find(|s| s.0 == tag).map(|s| &s.2);
            let (Some(before), Some(after), Some(after2), Some(after3)) = (find("before"), find("after"), find("after2"), find("after3")) else {
                ctx.violation(format!("job-control:missing-snapshot:{kname}"), ctxt());
                return;
            };
            for (tag, later) in [("after", after), ("after2", after2), ("after3", after3)] {
                for f in PARENT_FACETS {
                    // `set +m` changes the options, and with them the dispositions the shell needs
                    if tag == "after3" && matches!(f, "options" | "dispositions" | "sigmask") {
                        continue;
                    }
                    if before.get(f) != later.get(f) {
                        ctx.violation(
                            format!("job-control:leak:{f}"),
                            format!("the parent's {f} at `snap {tag}` differ from those before the job\nbefore: {:?}\n{tag}:  {:?}\n{}", before.get(f), later.get(f), ctxt()),
                        );
                        return;
                    }
                }
            }
            // the terminal: foreground group = group of whoever is snapping, in the main shell and in the job
            let field = |t: &BTreeMap<String, String>, k: &str| -> Option<i64> {
                t.get("term")?.split(' ').find_map(|kv| kv.strip_prefix(k)?.strip_prefix('=')).and_then(|v| v.trim_start_matches("Some(").trim_end_matches(')').parse().ok())
            };
            let main_pid = snaps[0].1;
            let mut in_job = 0;
            for (tag, pid, t) in &snaps {
                let (Some(fg), Some(pgid)) = (field(t, "fg"), field(t, "pgid")) else { continue };
                // only the job leader's own snapshots and the main shell's are pinned (a pipeline stage
                // that is not the group leader runs in the leader's group, which is also checked)
                if *pid != main_pid {
                    in_job += 1;
                }
                if tag == "after3" {
                    continue;
                }
                if fg != pgid {
                    ctx.violation(
                        format!("job-control:terminal-foreground-group:{}", if *pid == main_pid { "main-shell" } else { "job" }),
                        format!("at `snap {tag}` (process {pid}) the terminal's foreground process group is {fg} but the snapping process is in group {pgid}\n{}", ctxt()),
                    );
                    return;
                }
            }
            if in_job > 0 {
                ctx.nontrivial_str(&format!("jc|{kname}|{lim}|{m}"));
            }
        },
        |i, msg| {
            ctx.violation(
                if crate::util::panic_in_repo(&msg) { format!("panic:{}", msg.split(": ").next().unwrap_or("")) } else { "harness-panic".into() },
                format!("job control {i}: {msg}"),
            )
        },
    );
}

/// Process-creation faults: the k-th fork of the shell fails. Whatever the shell then does (go on
/// or give up), the parent's own state must be what it was before the subshell command.
fn fork_fault_slice(ctx: &Ctx) {
    let jobs: Vec<(usize, usize, u64)> = (0..KINDS.len()).flat_map(|k| (2..=5usize).flat_map(move |f| (0..2u64).map(move |s| (k, f, s)))).collect();
    let jobs = &jobs;
    ctx.par_for(
        jobs.len(),
        |i| {
            let (k, fail, s) = jobs[i];
            let (kname, kpre, ktpl) = KINDS[k];
            let mut rng = Rng::new(s + 5);
            let body = "x=changed; probe in-child";
            // (the warm-up in setup() makes two process creations: indices 0 and 1... the pipeline adds two)
            let script = format!(
                "trap 'snap atexit' EXIT\n{}{}\nsnap before\n{}\nsnap after\n",
                setup(&mut rng).replace("trap 'probe T-exit' EXIT", ":"),
                kpre.replace("{B}", body),
                ktpl.replace("{B}", body)
            );
            let mut cfg = vsh::VCfg::script(&script);
            cfg.extra = vsh::v_probes();
            cfg.fail_spawn = Some(fail + 1);
            cfg.files = vec![
                ("/d1".into(), FileSpec::Dir),
                ("/d1/d2".into(), FileSpec::Dir),
                ("/tmp/in".into(), FileSpec::Regular(b"data\n".to_vec())),
                ("/dev/tty".into(), FileSpec::Regular(Vec::new())),
            ];
            let out = vsh::run_v(cfg);
            ctx.eval();
            ctx.count("fork_fault_runs", 1);
            let ctxt = || format!("subshell kind: {kname}; process creation #{} fails\nscript:\n{script}\nstderr:\n{}", fail + 1, out.err());
            if out.end != vsh::End::Done {
                ctx.violation(format!("fork-fault:no-termination:{kname}"), format!("{:?}\n{}", out.end, ctxt()));
                return;
            }
            let snaps: Vec<&Event> = out.events.iter().filter(|e| e.kind == "snap").collect();
            let find = |tag: &str| snaps.iter().find(|e| e.args[0] == tag).map(|e| parse_snap(e));
            let Some(before) = find("before") else {
                ctx.count("fork_fault_runs_failed_before_the_command", 1);
                return;
            };
            let Some(after) = find("after").or_else(|| find("atexit")) else {
                ctx.violation(format!("fork-fault:no-snapshot:{kname}"), ctxt());
                return;
            };
            for f in PARENT_FACETS {
                // the EXIT trap itself is being run (and removed) when the atexit snapshot is taken
                if f == "traps" && find("after").is_none() {
                    continue;
                }
                if before.get(f) != after.get(f) {
                    ctx.violation(
                        format!("fork-fault:leak:{f}:{kname}"),
                        format!("the parent's {f} changed across a subshell command whose process could not be created\nbefore: {:?}\nafter:  {:?}\n{}", before.get(f), after.get(f), ctxt()),
                    );
                    return;
                }
            }
            ctx.nontrivial_str(&format!("fork-fault|{kname}|{fail}|{s}"));
        },
        |i, msg| {
            ctx.violation(
                if crate::util::panic_in_repo(&msg) { format!("panic:{}", msg.split(": ").next().unwrap_or("")) } else { "harness-panic".into() },
                format!("fork-fault {i}: {msg}"),
            )
        },
    );
}

/// A subshell and its parent overlap on one open file description (a full pipe): once the
/// subshell has been waited for, the parent's descriptors are in the mode they had before
/// (the shell's own temporary non-blocking I/O must not stick to the shared description).
fn shared_description_slice(ctx: &Ctx) {
    const SHAPES: [(&str, &str); 4] = [
        ("async subshell writes while the parent writes", "{ snap before; ( gen 3000 1 ) & gen 3000 2; wait; snap after; } | sink\n"),
        ("async brace group writes while the parent writes", "{ snap before; { gen 2500 1; } & gen 1700 2; gen 900 3; wait; snap after; } | sink\n"),
        ("two async subshells and the parent", "{ snap before; ( gen 2000 1 ) & ( gen 2000 4 ) & gen 2000 2; wait; snap after; } | sink\n"),
        ("async subshell reads while the parent reads", "gen 6000 5 64 | { snap before; ( sink ) & relay; wait; snap after; } | sink\n"),
    ];
    let per = if ctx.quick() { 40 } else { 400 };
    ctx.par_for(
        SHAPES.len() * per,
        |i| {
            let (name, script) = SHAPES[i / per];
            let s = (i % per) as u64 + ctx.seed * 1000;
            let mut cfg = vsh::VCfg::script(script);
            cfg.extra = vsh::v_probes();
            let strat = || if i % per == 0 { Strategy::Fifo } else { Strategy::Random { seed: s, preempt_pct: [0, 10, 30][i % 3], max_preempt: 50 } };
            cfg.strategy = strat();
            let out = vsh::run_v(cfg);
            ctx.eval();
            ctx.count("shared_description_runs", 1);
            let ctxt = || format!("{name}\nschedule {:?}\nscript:\n{script}stderr:\n{}", strat(), out.err());
            if out.end != vsh::End::Done {
                ctx.violation(format!("shared-description:no-termination:{}", i / per), format!("{:?}\n{}", out.end, ctxt()));
                return;
            }
            let snaps: Vec<&Event> = out.events.iter().filter(|e| e.kind == "snap").collect();
            let find = |tag: &str| snaps.iter().find(|e| e.args[0] == tag).map(|e| parse_snap(e));
            let (Some(before), Some(after)) = (find("before"), find("after")) else {
                ctx.violation(format!("shared-description:no-snapshot:{}", i / per), ctxt());
                return;
            };
            for f in PARENT_FACETS.iter().copied().chain(["fd_modes"]) {
                // (`wait` installs the shell's internal SIGCHLD handler: not a leak from the child)
                if f == "dispositions" || f == "sigmask" {
                    continue;
                }
                if before.get(f) != after.get(f) {
                    ctx.violation(
                        format!("shared-description:leak:{f}"),
                        format!("the parent's {f} changed across asynchronous subshells that shared its descriptors\nbefore: {:?}\nafter:  {:?}\n{}", before.get(f), after.get(f), ctxt()),
                    );
                    return;
                }
            }
            ctx.nontrivial(out.trace_hash ^ (i / per) as u64);
        },
        |i, msg| {
            ctx.violation(if crate::util::panic_in_repo(&msg) { "panic-in-repo" } else { "harness-panic" }, format!("shared-description case {i}: {msg}"));
        },
    );
}

pub fn run(ctx: &Ctx) {
    shared_description_slice(ctx);
    // a subshell that is stopped and continued from outside: the parent (no job control) sees
    // nothing but its final exit status
    crate::checks::c13::stop_continue_slice(ctx, "C08");
    let quick = ctx.quick();
    let seed = ctx.seed;
    fork_fault_slice(ctx);
    job_control_slice(ctx);
    // systematic: every mutator x every subshell kind (one mutator each), 2 setups
    let nsys = MUTATORS.len() * KINDS.len() * 2;
    ctx.par_for(
        nsys,
        |i| {
            let m = MUTATORS[i % MUTATORS.len()];
            let (kname, kpre, ktpl) = KINDS[(i / MUTATORS.len()) % KINDS.len()];
            let mut rng = Rng::new((i / (MUTATORS.len() * KINDS.len())) as u64 + 17);
            let body = format!("snap entry; {m}; probe in-child");
            let script = format!(
                "{}{}\nsnap before\n{}\nsnap after\n",
                setup(&mut rng),
                kpre.replace("{B}", &body),
                ktpl.replace("{B}", &body)
            );
            let schedules = if quick { 3 } else { 10 };
            for k in 0..schedules {
                let st = if k == 0 {
                    Strategy::Fifo
                } else {
                    Strategy::Random {
                        seed: rng.next(),
                        preempt_pct: 50,
                        max_preempt: 100,
                    }
                };
                if check_run(ctx, &script, kname, &[m], st).is_none() {
                    break;
                }
            }
            ctx.nontrivial_str(&format!("sys|{kname}|{m}"));
            if i % 97 == 0 {
                ctx.sample(J::obj(vec![("kind", J::s(kname)), ("mutator", J::s(m)), ("script", J::s(script))]));
            }
        },
        |i, msg| {
            ctx.violation(
                if crate::util::panic_in_repo(&msg) { format!("panic:{}", msg.split(": ").next().unwrap_or("")) } else { "harness-panic".into() },
                format!("systematic {i}: {msg}"),
            )
        },
    );
    ctx.count("systematic_pairs", (MUTATORS.len() * KINDS.len()) as i64);
    // random sequences of mutators, nested kinds
    let nrand = if quick { 40_000 } else { 1_000_000 };
    ctx.par_for(
        nrand,
        |i| {
            let mut rng = Rng::new(seed.wrapping_mul(0xC08).wrapping_add(i as u64));
            let n = rng.range(1, 6);
            let muts: Vec<&str> = (0..n).map(|_| *rng.pick(&MUTATORS)).collect();
            let (kname, kpre, ktpl) = *rng.pick(&KINDS);
            let mut body = String::from("snap entry");
            for m in &muts {
                body.push_str("; ");
                body.push_str(m);
            }
            body.push_str("; probe in-child");
            let script = format!(
                "{}{}\nsnap before\n{}\nsnap after\n",
                setup(&mut rng),
                kpre.replace("{B}", &body),
                ktpl.replace("{B}", &body)
            );
            let st = if rng.chance(30) {
                Strategy::Fifo
            } else {
                Strategy::Random {
                    seed: rng.next(),
                    preempt_pct: rng.range(10, 90) as u32,
                    max_preempt: 200,
                }
            };
            check_run(ctx, &script, kname, &muts, st);
            ctx.nontrivial_str(&format!("rnd|{kname}|{muts:?}"));
        },
        |i, msg| {
            ctx.violation(
                if crate::util::panic_in_repo(&msg) { format!("panic:{}", msg.split(": ").next().unwrap_or("")) } else { "harness-panic".into() },
                format!("random {i}: {msg}"),
            )
        },
    );
    *ctx.exhaustive.lock().unwrap() = Some(true);
    ctx.assume("the snapshot (vsh::snapshot) covers: variables with export/read-only attributes, positional parameters, functions (printed bodies), aliases, all options, trap actions, cwd, umask, fd table with open-file-description identity and close-on-exec flag, kernel signal dispositions and mask");
    ctx.assume("allowed differences: $?, the job list/$!, contents of files written through shared open files; descriptors 0-2 of pipeline stages / substitutions / async lists are re-plumbed by design");
}

pub const RULE: &str = "systematic: each of 40 mutators (assignment, unset, export, readonly, typeset, function definition/removal, alias/unalias, set -o/+o of five options, set --/shift, cd, umask, trap set/reset/ignore incl. EXIT, exec redirections opening/duplicating/closing descriptors) inside each of 11 subshell kinds (( ), $( ), backquotes, first/middle/last pipeline stage, asynchronous list, function body in a pipeline stage, nested, a substitution forked while a caught signal is pending, a subshell forked inside a trap action) under 2 random initial states and FIFO + 2 (quick) / 9 random preempting schedules; random: sequences of 1-6 mutators in a random kind under a random state and schedule. Deep snapshots before/after in the parent and at subshell entry are compared facet by facet. evaluations = runs; distinct_nontrivial = distinct (kind, mutator sequence) pairs";
