//! One module per property.
use crate::util::Ctx;

pub mod real;

pub fn run(ctx: &Ctx) -> bool {
    match ctx.id.as_str() {
        _ => return false,
    }
    #[allow(unreachable_code)]
    true
}
