//! One module per property.
use crate::util::Ctx;

pub mod real;
pub mod c01;
pub mod c02;
pub mod c02r;
pub mod ctlrun;
pub mod c03;
pub mod c04;
pub mod c05;
pub mod c06;
pub mod c07;
pub mod c08;
pub mod c09;
pub mod c11;
pub mod c11f;
pub mod c12;
pub mod c13;
pub mod c13r;
pub mod c14;
pub mod c14r;
pub mod c16;
pub mod c17;
pub mod c18;
pub mod c19;
pub mod c20;
pub mod c20b;

pub fn run(ctx: &mut Ctx) -> bool {
    // a single case (one parse, one run of the shell on the virtual system) that burns a minute of
    // CPU on its thread does not terminate: reported as a violation with the case in flight
    crate::util::start_watchdog(ctx.id.clone(), 60);
    match ctx.id.as_str() {
        "C01" => {
            ctx.rule = c01::RULE.into();
            c01::run(ctx)
        }
        "C02" => {
            ctx.rule = c02::RULE_C02.into();
            c02::run_c02(ctx)
        }
        "C05" => {
            ctx.rule = c05::RULE.into();
            c05::run(ctx)
        }
        "C06" => {
            ctx.rule = c06::RULE.into();
            c06::run(ctx)
        }
        "C07" => {
            ctx.rule = c07::RULE.into();
            c07::run(ctx)
        }
        "C08" => {
            ctx.rule = c08::RULE.into();
            c08::run(ctx)
        }
        "C09" => {
            ctx.rule = c09::RULE.into();
            ctx.level = "fault_enumeration";
            c09::run(ctx)
        }
        "C10" => {
            ctx.rule = c02::RULE_C10.into();
            c02::run_c10(ctx)
        }
        "C03" => {
            ctx.rule = c03::RULE.into();
            c03::run(ctx)
        }
        "C04" => {
            ctx.rule = c04::RULE.into();
            c04::run(ctx)
        }
        "C11" => {
            ctx.rule = c11::RULE.into();
            c11::run(ctx)
        }
        "C12" => {
            ctx.rule = c12::RULE.into();
            c12::run(ctx)
        }
        "C13" => {
            ctx.rule = c13::RULE.into();
            c13::run(ctx)
        }
        "C14" => {
            ctx.rule = c14::RULE.into();
            c14::run(ctx)
        }
        "C16" => {
            ctx.rule = c16::RULE.into();
            c16::run(ctx);
            c02::run_c16b(ctx)
        }
        "C17" => {
            ctx.rule = c17::RULE.into();
            c17::run(ctx)
        }
        "C18" => {
            ctx.rule = c18::RULE.into();
            c18::run(ctx)
        }
        "C19" => {
            ctx.rule = c19::RULE.into();
            c19::run(ctx)
        }
        "C20" => {
            ctx.rule = c20::RULE.into();
            c20::run(ctx)
        }
        _ => return false,
    }
    true
}
