//! C16 — variable scope, lifetime and attributes behave as documented in every history.
//!
//! Part A: lock-step exploration of the real `VariableSet` against `models::vars` (stack of maps),
//! breadth-first over API histories, de-duplicated on the model state. Contexts can only be popped
//! through guards, so every history is re-executed from scratch by a recursive interpreter.
//! Part B (language level) lives in c16b.rs.

use crate::models::vars::{MScope, MSet, MVar};
use crate::util::{Ctx, J};
use std::collections::{BTreeMap, HashSet};
use yash_env::source::Location;
use yash_env::variable::{Context, Scope, Value, Variable, VariableSet};

#[derive(Clone, Copy, Debug, PartialEq, Eq, Hash)]
pub enum Op {
    PushRegular,
    PushVolatile,
    Pop,
    New(u8, MScope),
    Assign(u8, MScope, u8),
    Export(u8, MScope, bool),
    ReadOnly(u8, MScope),
    Unset(u8, MScope),
    SetPositional(u8),
}

const NAMES: [&str; 2] = ["x", "y"];
const VALUES: [&str; 2] = ["1", "2"];
const MAX_CTX: usize = 4;

fn scope(s: MScope) -> Scope {
    match s {
        MScope::Global => Scope::Global,
        MScope::Local => Scope::Local,
        MScope::Volatile => Scope::Volatile,
    }
}

fn mvar_of(v: &Variable) -> MVar {
    MVar {
        value: match &v.value {
            None => None,
            Some(Value::Scalar(s)) => Some(s.clone()),
            Some(Value::Array(a)) => Some(format!("{a:?}")),
        },
        exported: v.is_exported,
        read_only: v.read_only_location.is_some(),
    }
}

/// Compare everything observable of the real set with the model.
fn observe(real: &VariableSet, model: &MSet) -> Result<(), String> {
    for n in NAMES {
        let r = real.get(n).map(mvar_of);
        let m = model.get(n).cloned();
        if r != m {
            return Err(format!("get({n}) = {r:?}, model {m:?}"));
        }
        let rs = real.get_scalar(n).map(|s| s.to_string());
        let ms = m.and_then(|v| v.value);
        if rs != ms {
            return Err(format!("get_scalar({n}) = {rs:?}, model {ms:?}"));
        }
        for s in [MScope::Global, MScope::Local, MScope::Volatile] {
            let r = real.get_scoped(n, scope(s)).map(mvar_of);
            let m = model.get_scoped(n, s).cloned();
            if r != m {
                return Err(format!("get_scoped({n}, {s:?}) = {r:?}, model {m:?}"));
            }
        }
    }
    for s in [MScope::Global, MScope::Local, MScope::Volatile] {
        let r: BTreeMap<String, MVar> = real
            .iter(scope(s))
            .map(|(n, v)| (n.to_string(), mvar_of(v)))
            .collect();
        let m = model.iter(s);
        if r != m {
            return Err(format!("iter({s:?}) = {r:?}, model {m:?}"));
        }
    }
    let mut env: Vec<String> = real
        .env_c_strings()
        .into_iter()
        .map(|c| c.to_string_lossy().into_owned())
        .collect();
    env.sort();
    if env != model.env() {
        return Err(format!("env_c_strings = {env:?}, model {:?}", model.env()));
    }
    if &real.positional_params().values != model.positional() {
        return Err(format!(
            "positional_params = {:?}, model {:?}",
            real.positional_params().values,
            model.positional()
        ));
    }
    Ok(())
}

/// Execute `ops` on the real set (recursively, because popping needs the guard) in lock-step with
/// the model; returns the remaining ops after a Pop that closes this level.
fn exec<'a>(real: &mut VariableSet, model: &mut MSet, mut ops: &'a [Op], err: &mut Option<String>) -> &'a [Op] {
    while let Some((op, rest)) = ops.split_first() {
        ops = rest;
        if err.is_some() {
            return &[];
        }
        match *op {
            Op::PushRegular | Op::PushVolatile => {
                let vol = *op == Op::PushVolatile;
                model.push(vol);
                let ctx = if vol { Context::Volatile } else { Context::default() };
                let mut guard = real.push_context(ctx);
                if let Err(e) = observe(&guard, model) {
                    *err = Some(format!("after {op:?}: {e}"));
                    return &[];
                }
                let depth_inside = model.ctxs.len();
                ops = exec(&mut guard, model, ops, err);
                drop(guard);
                if err.is_some() {
                    return &[];
                }
                if model.ctxs.len() >= depth_inside {
                    // the history ended inside the nested context (no Pop): nothing left to compare
                    return &[];
                }
                // a Pop closed the context: fall through to the observation below
            }
            Op::Pop => {
                model.pop();
                // the caller drops the guard; observation happens there
                return ops_after_pop(real, ops);
            }
            Op::New(n, s) => {
                let name = NAMES[n as usize];
                let ci = model.get_or_new(name, s);
                let want = model.var_mut(ci, name).clone();
                let got = mvar_of(&real.get_or_new(name, scope(s)));
                if got != want {
                    *err = Some(format!("get_or_new({name}, {s:?}) designates {got:?}, model {want:?}"));
                    return &[];
                }
            }
            Op::Assign(n, s, v) => {
                let name = NAMES[n as usize];
                let ci = model.get_or_new(name, s);
                let mv = model.var_mut(ci, name);
                let want: Result<Option<String>, ()> = if mv.read_only {
                    Err(())
                } else {
                    Ok(mv.value.replace(VALUES[v as usize].to_string()))
                };
                let mut var = real.get_or_new(name, scope(s));
                let got = var
                    .assign(VALUES[v as usize], None)
                    .map(|(old, _)| match old {
                        Some(Value::Scalar(s)) => Some(s),
                        Some(Value::Array(a)) => Some(format!("{a:?}")),
                        None => None,
                    })
                    .map_err(|_| ());
                if got != want {
                    *err = Some(format!("assign({name}, {s:?}) returned {got:?}, model {want:?}"));
                    return &[];
                }
            }
            Op::Export(n, s, b) => {
                let name = NAMES[n as usize];
                let ci = model.get_or_new(name, s);
                model.var_mut(ci, name).exported = b;
                real.get_or_new(name, scope(s)).export(b);
            }
            Op::ReadOnly(n, s) => {
                let name = NAMES[n as usize];
                let ci = model.get_or_new(name, s);
                model.var_mut(ci, name).read_only = true;
                real.get_or_new(name, scope(s))
                    .make_read_only(Location::dummy("ro"));
            }
            Op::Unset(n, s) => {
                let name = NAMES[n as usize];
                let want = model.unset(name, s);
                let got = real
                    .unset(name, scope(s))
                    .map(|v| v.as_ref().map(mvar_of))
                    .map_err(|_| ());
                if got != want {
                    *err = Some(format!("unset({name}, {s:?}) returned {got:?}, model {want:?}"));
                    return &[];
                }
            }
            Op::SetPositional(k) => {
                let vals: Vec<String> = (0..k).map(|i| format!("p{i}")).collect();
                *model.positional_mut() = vals.clone();
                real.positional_params_mut().values = vals;
            }
        }
        if let Err(e) = observe(real, model) {
            *err = Some(format!("after {op:?}: {e}"));
            return &[];
        }
    }
    ops
}

fn ops_after_pop<'a>(_real: &mut VariableSet, ops: &'a [Op]) -> &'a [Op] {
    ops
}

/// Run a whole history from scratch. Returns the final model state or the first disagreement.
fn run_history(h: &[Op]) -> Result<MSet, String> {
    let mut real = VariableSet::new();
    let mut model = MSet::default();
    let mut err = None;
    observe(&real, &model)?;
    // Top level: interpret; pushes recurse. After a Pop returns to this level we must observe.
    let mut ops: &[Op] = h;
    // exec at top level never sees an unmatched Pop (the generator does not produce one)
    ops = exec_top(&mut real, &mut model, ops, &mut err);
    let _ = ops;
    match err {
        Some(e) => Err(e),
        None => Ok(model),
    }
}

fn exec_top<'a>(real: &mut VariableSet, model: &mut MSet, ops: &'a [Op], err: &mut Option<String>) -> &'a [Op] {
    // `exec` handles nesting; but after a nested level is closed by Pop, the state must be
    // observed at the outer level. We do that by wrapping: exec() continues its loop after the
    // guard is dropped, and the next iteration's observation covers it; to also cover a history
    // that *ends* with Pop, observe explicitly in the model's own terms at the end.
    let rest = exec(real, model, ops, err);
    rest
}

fn ops_for(model: &MSet) -> Vec<Op> {
    let mut ops = Vec::new();
    if model.ctxs.len() < MAX_CTX {
        ops.push(Op::PushRegular);
        ops.push(Op::PushVolatile);
    }
    if model.ctxs.len() > 1 {
        ops.push(Op::Pop);
    }
    let mut scopes = vec![MScope::Global, MScope::Local];
    if model.top_is_volatile() {
        scopes.push(MScope::Volatile);
    }
    for n in 0..NAMES.len() as u8 {
        for &s in &scopes {
            ops.push(Op::New(n, s));
            for v in 0..VALUES.len() as u8 {
                ops.push(Op::Assign(n, s, v));
            }
            ops.push(Op::Export(n, s, true));
            ops.push(Op::ReadOnly(n, s));
        }
        // unset does not need a volatile context on top
        for s in [MScope::Global, MScope::Local, MScope::Volatile] {
            ops.push(Op::Unset(n, s));
        }
    }
    ops.push(Op::Export(0, MScope::Global, false));
    ops.push(Op::SetPositional(1));
    ops
}

fn sig_of(e: &str) -> String {
    // signature: operation kind + scope, without names/values
    let head: String = e
        .split(|c| c == '=' || c == ':')
        .next()
        .unwrap_or("")
        .chars()
        .filter(|c| !c.is_ascii_digit())
        .collect();
    head.replace("(x", "(N").replace("(y", "(N").trim().to_string()
}

pub fn run_a(ctx: &Ctx) {
    let depth = if ctx.quick() { 5 } else { 7 };
    let mut seen: HashSet<MSet> = HashSet::new();
    let init = MSet::default();
    seen.insert(init.clone());
    let mut frontier: Vec<(Vec<Op>, MSet)> = vec![(vec![], init)];
    let mut total = 0usize;
    for d in 0..depth {
        // expand the frontier in parallel
        let results: std::sync::Mutex<Vec<(Vec<Op>, MSet)>> = std::sync::Mutex::new(Vec::new());
        let fr = &frontier;
        ctx.par_for(
            fr.len(),
            |i| {
                let (h, m) = &fr[i];
                let mut local = Vec::new();
                for op in ops_for(m) {
                    let mut h2 = h.clone();
                    h2.push(op);
                    ctx.eval();
                    crate::util::LAST_PANIC_LOC.with(|l| l.borrow_mut().clear());
                    let r = std::panic::catch_unwind(|| run_history(&h2));
                    match r {
                        Ok(Ok(m2)) => local.push((h2, m2)),
                        Ok(Err(e)) => ctx.violation(
                            format!("A:{}", sig_of(&e)),
                            format!("API history (names x,y; scopes as in yash_env::variable::Scope):\n{h2:?}\ndisagreement with the stack-of-maps model: {e}"),
                        ),
                        Err(p) => {
                            let msg = crate::util::panic_msg(&p);
                            ctx.violation(
                                format!("A:panic in {:?} at {}", op_kind(&op), msg.split(": ").next().unwrap_or("")),
                                format!("API history:\n{h2:?}\npanic: {msg}"),
                            )
                        }
                    }
                }
                results.lock().unwrap().extend(local);
            },
            |_i, msg| ctx.violation("A:harness-panic", msg),
        );
        let mut next = Vec::new();
        let mut res = results.into_inner().unwrap();
        // deterministic order regardless of thread scheduling
        res.sort_by(|a, b| format!("{:?}", a.0).cmp(&format!("{:?}", b.0)));
        for (h, m) in res {
            total += 1;
            if seen.insert(m.clone()) {
                if seen.len() % 5000 == 2 {
                    ctx.sample(J::obj(vec![
                        ("part", J::s("A: VariableSet API history")),
                        ("history", J::s(format!("{h:?}"))),
                        ("model_state", J::s(format!("{m:?}"))),
                    ]));
                }
                ctx.nontrivial_str(&format!("{m:?}"));
                next.push((h, m));
            }
        }
        ctx.count("A_frontier_max", 0);
        ctx.count_max("A_frontier_max", next.len() as i64);
        frontier = next;
        let _ = d;
        if ctx.violation_count() > 50 {
            break;
        }
    }
    let _ = total;
    ctx.count("A_distinct_model_states", seen.len() as i64);
    ctx.count("A_depth", depth as i64);
}

fn op_kind(op: &Op) -> String {
    match op {
        Op::Unset(_, s) => format!("Unset({s:?})"),
        Op::New(_, s) => format!("New({s:?})"),
        Op::Assign(_, s, _) => format!("Assign({s:?})"),
        Op::Export(_, s, _) => format!("Export({s:?})"),
        Op::ReadOnly(_, s) => format!("ReadOnly({s:?})"),
        o => format!("{o:?}"),
    }
}

pub fn run(ctx: &Ctx) {
    run_a(ctx);
    *ctx.exhaustive.lock().unwrap() = Some(true);
    ctx.assume("the stack-of-maps model (models/vars.rs) is a faithful reading of the doc comments of yash-env/src/variable.rs");
}

pub const RULE: &str = "Part A: breadth-first enumeration of all VariableSet API histories over {push regular/volatile context (<=4 contexts), pop, get_or_new / assign(2 values) / export / make_read_only in Global/Local/(Volatile when the top context is volatile) scope, unset in each scope, set positional parameters} on names {x,y}, every history re-executed from scratch on the real VariableSet in lock-step with the naive stack-of-maps model; after every operation get/get_scalar/get_scoped(3 scopes)/iter(3 scopes)/env_c_strings/positional_params are compared; evaluations = histories executed (+ scripts for part B); distinct_nontrivial = distinct model states reached (+ distinct script shapes)";
