//! C13 — children are started, awaited and reaped correctly under every schedule.
//!
//! Race-free programs (pipelines, asynchronous lists + wait, nested subshells, command
//! substitutions, children that exit at once vs. block on a pipe) are run under FIFO, exhaustive
//! depth-first enumeration of scheduling choices (capped), preemption-bounded DFS and random
//! preempting schedules. Oracle: models::ctl for statuses and per-process traces (hence equal
//! across schedules), logical deadlock detection, and the process table at exit.

use crate::checks::ctlrun::{self, Opts, Prog};
use crate::models::ctl::Cmd;
use crate::sched::{Strategy, next_dfs_prefix};
use crate::util::{Ctx, J, Rng};
use crate::vsh;
use std::collections::HashSet;

struct G<'a> {
    rng: &'a mut Rng,
    next: u32,
    /// outstanding asynchronous jobs (pid-variable numbers)
    jobs: Vec<u32>,
    /// the program contains a stage whose status is schedule dependent: no pipefail
    has_gen: bool,
}

impl G<'_> {
    fn id(&mut self) -> u32 {
        self.next += 1;
        self.next
    }
    fn probe(&mut self) -> Cmd {
        let id = self.id();
        Cmd::Probe {
            id,
            st: *self.rng.pick(&[0, 0, 1, 2, 7]),
        }
    }
    /// a small command that may create processes; `depth` bounds nesting
    fn small(&mut self, depth: u32) -> Cmd {
        match self.rng.below(if depth == 0 { 3 } else { 8 }) {
            0..=2 => self.probe(),
            3 => Cmd::Subshell(Box::new(Cmd::Seq(vec![self.probe(), self.small(depth - 1)]))),
            4 => {
                let id = self.id();
                let body = Cmd::Seq(vec![self.probe(), self.small(depth - 1)]);
                let pid = self.id();
                Cmd::Seq(vec![
                    Cmd::CmdSubst {
                        id,
                        out: *self.rng.pick(&["out", "x y", ""]),
                        body: Box::new(body),
                    },
                    Cmd::ProbeS { id: pid, var_id: id },
                ])
            }
            5 => self.pipeline(depth - 1),
            6 => Cmd::Brace(Box::new(Cmd::Seq(vec![self.probe(), self.small(depth - 1)]))),
            _ => Cmd::Not(Box::new(self.probe())),
        }
    }
    fn pipeline(&mut self, depth: u32) -> Cmd {
        let n = self.rng.range(2, 4);
        let mut stages: Vec<Cmd> = Vec::new();
        let mut i = 0;
        while i < n {
            // a producer/consumer pair: the consumer blocks on the pipe until the producer wrote
            if i + 1 < n && self.rng.chance(30) {
                let data = *self.rng.pick(&["data", "a b", "z"]);
                stages.push(Cmd::Seq(vec![self.probe(), Cmd::Echo(data)]));
                let id = self.id();
                stages.push(Cmd::ReadProbe { id, data });
                i += 2;
                continue;
            }
            // a writer of more than the pipe holds whose reader exits without reading: the writer
            // must get EPIPE/SIGPIPE instead of blocking for ever
            if i + 1 < n && self.rng.chance(15) {
                self.has_gen = true;
                stages.push(Cmd::Seq(vec![self.probe(), Cmd::Gen(*self.rng.pick(&[1025, 3000, 5000]))]));
                stages.push(self.probe());
                i += 2;
                continue;
            }
            let s = match self.rng.below(4) {
                0 => Cmd::Subshell(Box::new(Cmd::Seq(vec![self.probe(), self.small(depth)]))),
                1 => Cmd::Brace(Box::new(Cmd::Seq(vec![self.probe(), self.small(depth)]))),
                _ => self.probe(),
            };
            stages.push(s);
            i += 1;
        }
        Cmd::Pipe(stages)
    }
    fn unit(&mut self) -> Vec<Cmd> {
        match self.rng.below(10) {
            0..=2 => vec![self.pipeline(1), self.probe()],
            3 | 4 if self.jobs.len() < 2 => {
                let var = self.id();
                // the body starts with a direct probe (names the lane, and its pid must be $!)
                let mut body = vec![self.probe()];
                if self.rng.chance(60) {
                    body.push(self.small(1));
                }
                self.jobs.push(var);
                let id = self.id();
                vec![
                    Cmd::Async {
                        var,
                        body: Box::new(Cmd::Brace(Box::new(Cmd::Seq(body)))),
                    },
                    Cmd::ProbeBang { id, var },
                ]
            }
            5 | 6 if !self.jobs.is_empty() => {
                // wait for one or all outstanding jobs, in any order
                let k = self.rng.range(1, self.jobs.len());
                let mut vars = Vec::new();
                for _ in 0..k {
                    let i = self.rng.below(self.jobs.len() as u64) as usize;
                    vars.push(self.jobs.remove(i));
                }
                vec![Cmd::Wait(vars), self.probe()]
            }
            7 => vec![Cmd::WaitUnknown, self.probe()],
            8 => vec![self.small(2), self.probe()],
            _ => vec![
                Cmd::If(vec![(self.pipeline(0), self.probe())], Some(Box::new(self.probe()))),
                self.probe(),
            ],
        }
    }
    fn program(&mut self) -> Vec<Cmd> {
        let mut lines = Vec::new();
        let pipefail = self.rng.chance(35);
        for _ in 0..self.rng.range(1, 4) {
            lines.extend(self.unit());
        }
        if pipefail && !self.has_gen {
            lines.insert(0, Cmd::SetPipefail(true));
        }
        // everything is waited for in the end
        if !self.jobs.is_empty() && self.rng.chance(50) {
            let vars = std::mem::take(&mut self.jobs);
            lines.push(Cmd::Wait(vars));
            lines.push(self.probe());
        }
        self.jobs.clear();
        lines.push(Cmd::Wait(vec![]));
        lines.push(self.probe());
        lines
    }
}

fn report(ctx: &Ctx, i: usize, strategy: &Strategy, v: &ctlrun::Verdict) {
    ctx.violation(
        format!("C13:{}", v.signature),
        format!("program #{i}, schedule {strategy:?} (choice vector {:?})\n{}", v.choices, v.detail),
    );
}

/// Process-creation faults: the k-th fork fails while a pipeline is being started. The shell may
/// give the script up or go on, but it must terminate, and it must not report success for a
/// pipeline whose last command never ran.
fn fork_fault_slice(ctx: &Ctx) {
    let mut jobs: Vec<(usize, usize, bool, bool)> = Vec::new();
    for n in 2..=4usize {
        for k in 0..n {
            for pipefail in [false, true] {
                for in_if in [false, true] {
                    jobs.push((n, k, pipefail, in_if));
                }
            }
        }
    }
    let jobs = &jobs;
    ctx.par_for(
        jobs.len(),
        |i| {
            let (n, k, pipefail, in_if) = jobs[i];
            let stages: Vec<String> = (0..n).map(|s| format!("probe -s 0 k{}", 10 + s)).collect();
            let pipeline = stages.join(" | ");
            let mut script = String::new();
            if pipefail {
                script.push_str("set -o pipefail\n");
            }
            script.push_str("probe k1\n");
            if in_if {
                script.push_str(&format!("if {pipeline}; then probe k8 then; else probe k8 else; fi\n"));
            } else {
                script.push_str(&format!("{pipeline}\nprobe k9 \"$?\"\n"));
            }
            let mut cfg = vsh::VCfg::script(&script);
            cfg.extra = vsh::v_probes();
            cfg.fail_spawn = Some(k);
            let out = vsh::run_v(cfg);
            ctx.eval();
            ctx.count("fork_fault_runs", 1);
            let ran = |id: &str| out.events.iter().any(|e| e.kind == "probe" && e.args.first().is_some_and(|a| a == id));
            let ctxt = || format!("pipeline of {n} commands, process creation #{k} fails\nscript:\n{script}\nevents: {:?}\nstderr:\n{}", out.events.iter().map(|e| e.args.join(" ")).collect::<Vec<_>>(), out.err());
            if out.end != vsh::End::Done {
                ctx.violation("C13:fork-fault:no-termination", format!("{:?}\n{}", out.end, ctxt()));
                return;
            }
            let last_ran = ran(&format!("k{}", 10 + n - 1));
            let reported_success = out.events.iter().any(|e| e.kind == "probe" && (e.args == ["k9", "0"] || e.args == ["k8", "then"]));
            if reported_success && !last_ran {
                ctx.violation("C13:fork-fault:success-reported-for-a-pipeline-that-did-not-run", ctxt());
                return;
            }
            ctx.nontrivial_str(&format!("fork-fault|{n}|{k}|{pipefail}|{in_if}"));
        },
        |i, msg| {
            if crate::util::panic_in_repo(&msg) {
                ctx.violation(format!("C13:panic:{}", msg.split(": ").next().unwrap_or("")), format!("fork-fault {i}: {msg}"));
            } else {
                ctx.violation("harness-panic", format!("fork-fault {i}: {msg}"));
            }
        },
    );
}

/// A third party stops a foreground child of a shell that does no job control and continues it
/// later: the shell must go on waiting and report the child's real exit status, exactly as if
/// nothing had happened. SIGSTOP / SIGCONT are raised on the child from outside at every pair of
/// scheduler steps.
pub fn stop_continue_slice(ctx: &Ctx, prop: &'static str) {
    let scripts = [
        "( probe -s 0 k1; sig STOP; probe -s 7 k2 ); probe k3 \"$?\"\n",
        "( probe -s 0 k1; ( sig STOP; probe -s 3 k2 ); probe -s 5 k4 ); probe k3 \"$?\"\n",
        "( sig TSTP; probe -s 6 k2 ); probe k3 \"$?\"\n",
        "if ( probe -s 0 k1; sig STOP; probe -s 2 k2 ); then probe k3 then; else probe k3 else; fi\n",
        "( probe k1; sig STOP; sig STOP; probe -s 9 k2 ) && probe k3 yes || probe k3 \"$?\"\n",
        // the stopped command is the one that reads the next line of the script
        "( probe k1; sig STOP; read x; probe -s 4 k2 \"$x\" )\nprobe k9 data-line-run-as-a-command\nprobe k3 \"$?\"\n",
        // the parent's state around the stopped subshell
        "v=1; ( v=2; sig TSTP; v=3; probe -s 5 k2 \"$v\" ); probe k3 \"$?\" \"$v\"\n",
    ];
    let scripts = &scripts;
    ctx.par_for(
        scripts.len() * 4,
        |j| stop_continue_one(ctx, prop, scripts[j / 4], [1u64, 2, 5, 11][j % 4]),
        |i, msg| {
            if crate::util::panic_in_repo(&msg) {
                ctx.violation(format!("{prop}:panic:{}", msg.split(": ").next().unwrap_or("")), format!("stop/continue case {i}: {msg}"));
            } else {
                ctx.violation("harness-panic", format!("stop/continue case {i}: {msg}"));
            }
        },
    );
}

/// `delay`: scheduler steps between the moment a process is seen stopped and its SIGCONT
fn stop_continue_one(ctx: &Ctx, prop: &str, script: &str, delay: u64) {
    use yash_env::system::r#virtual::SIGCONT;
    // expected events: the script with the stop signals taken out
    let plain = script.replace("sig STOP; ", "").replace("sig TSTP; ", "");
    // (the script is read from standard input, so that a stopped command can be the reader of
    // the next line)
    let mut bcfg = vsh::VCfg::stdin_script(&plain);
    bcfg.extra = vsh::v_probes();
    let base = vsh::run_v(bcfg);
    let want: Vec<String> = base.events.iter().filter(|e| e.kind == "probe").map(|e| e.args.join(" ")).collect();
    let mut cfg = vsh::VCfg::stdin_script(script);
    cfg.extra = vsh::v_probes();
    cfg.tick_on_stall = true;
    let stopped_since: std::rc::Rc<std::cell::RefCell<std::collections::BTreeMap<i32, u64>>> = Default::default();
    let continued = std::rc::Rc::new(std::cell::Cell::new(0u32));
    let (ss, cc) = (std::rc::Rc::clone(&stopped_since), std::rc::Rc::clone(&continued));
    cfg.on_step = Some(Box::new(move |state, step| {
        let mut st = state.borrow_mut();
        let pids: Vec<yash_env::job::Pid> = st.processes.keys().copied().collect();
        for pid in pids {
            let Some(p) = st.processes.get_mut(&pid) else { continue };
            let stopped = matches!(p.state(), yash_env::job::ProcessState::Halted(r) if r.is_stopped());
            let mut map = ss.borrow_mut();
            if stopped {
                let since = *map.entry(pid.0).or_insert(step);
                if step >= since + delay {
                    let r = p.raise_signal(SIGCONT);
                    let ppid = p.ppid();
                    if r.process_state_changed {
                        if let Some(pp) = st.processes.get_mut(&ppid) {
                            let _ = pp.raise_signal(yash_env::system::r#virtual::SIGCHLD);
                        }
                    }
                    map.remove(&pid.0);
                    cc.set(cc.get() + 1);
                }
            } else {
                map.remove(&pid.0);
            }
        }
    }));
    let out = vsh::run_v(cfg);
    ctx.eval();
    ctx.count("stop_continue_runs", 1);
    ctx.count("processes_continued_from_outside", continued.get() as i64);
    let got: Vec<String> = out.events.iter().filter(|e| e.kind == "probe").map(|e| e.args.join(" ")).collect();
    if out.end != vsh::End::Done || got != want {
        ctx.violation(
            format!("{prop}:stop-continue:result-changed"),
            format!(
                "a foreground child stops and is continued from outside {delay} steps later\nscript:\n{script}expected events {want:?}\nobserved events {got:?}, end {:?}, shell status {:?}\nstderr:\n{}",
                out.end,
                out.status,
                out.err()
            ),
        );
    } else if continued.get() > 0 {
        ctx.nontrivial_str(&format!("stopcont|{script}|{delay}"));
    }
}

/// Several children (and the parent) write to, or read from, one shared pipe end with payloads
/// beyond the pipe capacity: every schedule must end with all processes finished and reaped and
/// every byte accounted for (the would-block / wake-up machinery of each process sees the
/// descriptor change under it while it is suspended).
fn shared_pipe_slice(ctx: &Ctx) {
    // (script, bytes the final consumer must count)
    const SHAPES: [(&str, usize); 9] = [
        // pipelines of three and more stages started with standard output and/or input closed: the
        // pipe ends then land on descriptors 0 and 1 themselves and must be moved out of each other's way
        ("{ gen 2000 1 | relay | relay | sink total; probe k1 \"$?\"; } >&-\nprobe k2 \"$?\"\n", 2000),
        ("{ gen 1500 1 | relay | sink total; probe k1 \"$?\"; } <&- >&-\nprobe k2 \"$?\"\n", 1500),
        ("{ gen 1500 1 | relay | relay | relay | sink total; probe k1 \"$?\"; } <&-\nprobe k2 \"$?\"\n", 1500),
        ("exec 3>&1 >&-\ngen 2500 1 | { relay; } | ( relay ) | sink total\nprobe k1 \"$?\"\nexec >&3 3>&-\nprobe k2 \"$?\"\n", 2500),
        ("{ gen 3000 1 & gen 3000 2; wait; probe k1 \"$?\"; } | sink total\nprobe k2 \"$?\"\n", 6000),
        ("{ gen 3000 1 & gen 3000 2; } | sink total\nprobe k2 \"$?\"\n", 6000),
        ("{ ( gen 2000 1 ) & ( gen 2000 4 ) & gen 2000 2; wait; probe k1 \"$?\"; } | sink total\nprobe k2 \"$?\"\n", 6000),
        ("{ gen 1100 1 & gen 700 2 & gen 5000 3; wait; probe k1 \"$?\"; } | relay | sink total\nprobe k2 \"$?\"\n", 6800),
        ("gen 6000 5 64 | { relay & relay; wait; probe k1 \"$?\"; } | sink total\nprobe k2 \"$?\"\n", 6000),
    ];
    let per = if ctx.quick() { 60 } else { 1500 };
    ctx.par_for(
        SHAPES.len() * per,
        |i| {
            let (script, total) = SHAPES[i / per];
            let s = (i % per) as u64 + ctx.seed * 7919;
            let strat = || if i % per == 0 { Strategy::Fifo } else { Strategy::Random { seed: s, preempt_pct: [0, 10, 30, 60][i % 4], max_preempt: 60 } };
            let mut cfg = vsh::VCfg::script(script);
            cfg.extra = vsh::v_probes();
            cfg.strategy = strat();
            let out = vsh::run_v(cfg);
            ctx.eval();
            ctx.count("shared_pipe_runs", 1);
            let got: Vec<String> = out.events.iter().filter(|e| e.kind == "probe").map(|e| e.args.join(" ")).collect();
            let ctxt = || format!("schedule {:?}\nscript:\n{script}events {got:?}\nend {:?}, shell status {:?}, zombies {:?}, alive {:?}\nstderr:\n{}", strat(), out.end, out.status, out.zombies, out.alive, out.err());
            if out.end != vsh::End::Done {
                ctx.violation("C13:shared-pipe:no-termination", ctxt());
                return;
            }
            if !out.zombies.is_empty() || !out.alive.is_empty() {
                ctx.violation("C13:shared-pipe:children-left", ctxt());
                return;
            }
            let counted = out.events.iter().find(|e| e.kind == "probe" && e.args.first().map(|a| a.as_str()) == Some("total")).and_then(|e| e.args.get(1)).and_then(|n| n.parse::<usize>().ok());
            let k_ok = out.events.iter().filter(|e| e.kind == "probe" && matches!(e.args.first().map(|a| a.as_str()), Some("k1" | "k2"))).all(|e| e.args.get(1).map(|a| a.as_str()) == Some("0"));
            if counted != Some(total) || !k_ok || !out.events.iter().any(|e| e.args.first().map(|a| a.as_str()) == Some("k2")) {
                ctx.violation("C13:shared-pipe:result", format!("expected {total} bytes at the consumer and status 0 at k1/k2\n{}", ctxt()));
                return;
            }
            ctx.nontrivial(out.trace_hash ^ ((i / per) as u64) << 56);
        },
        |i, msg| {
            if crate::util::panic_in_repo(&msg) {
                ctx.violation(format!("C13:panic:{}", msg.split(": ").next().unwrap_or("")), format!("shared-pipe case {i}: {msg}"));
            } else {
                ctx.violation("harness-panic", format!("shared-pipe case {i}: {msg}"));
            }
        },
    );
}

/// Every final exit status a child shell can have, including the whole 384+signal range (a
/// subshell whose last status says "killed by N" kills itself with N if N terminates; for every
/// other N - stop signals, continue, ignored ones, unknown numbers - it must simply exit): each
/// kind of child terminates, is reaped, and `$?` / `wait` report the status.
/// The same child-starting scripts read from standard input by a non-interactive and by an
/// interactive shell (`-i`, with and without job control): an interactive shell runs built-ins
/// under a watcher for SIGINT, i.e. with a second task waiting for signals next to the one waiting
/// for the child. Probes, statuses and the process table at the end must be those of the
/// non-interactive run; nothing may block.
fn interactive_slice(ctx: &Ctx) {
    const SCRIPTS: [&str; 14] = [
        "command /bin/ext a\nprobe k1 \"$?\"\n",
        "command true\nprobe k1 \"$?\"\ncommand false\nprobe k2 \"$?\"\n",
        "eval '/bin/ext'\nprobe k1 \"$?\"\n",
        "command eval '(exit 3)'\nprobe k1 \"$?\"\n",
        "command command /bin/ext\nprobe k1 \"$?\"\n",
        "( /bin/ext ); probe k1 \"$?\"\n",
        "x=$(command /bin/ext); probe k1 \"$?\"\n",
        "command /bin/ext | command /bin/ext\nprobe k1 \"$?\"\n",
        "command . /tmp/dotext\nprobe k1 \"$?\"\n",
        "(exit 4) & wait $!\nprobe k1 \"$?\"\n",
        "command eval '(exit 5) & wait $!'\nprobe k1 \"$?\"\n",
        "f() { command /bin/ext; (exit 6); }\nf\nprobe k1 \"$?\"\ncommand f\nprobe k2 \"$?\"\n",
        "command eval 'x=$( (exit 7) ); probe k0 $?'\nprobe k1 \"$?\"\n",
        "true | command eval '( probe -s 8 k1 )'\nprobe k2 \"$?\"\n",
    ];
    let modes: [&[&str]; 4] = [&[], &["-i"], &["-i", "+m"], &["-m"]];
    let per = if ctx.quick() { 6 } else { 60 };
    ctx.par_for(
        SCRIPTS.len() * per,
        |i| {
            let script = SCRIPTS[i / per];
            let k = i % per;
            let run = |mode: &[&str]| {
                let mut a = vec!["yash".to_string()];
                a.extend(mode.iter().map(|s| s.to_string()));
                let mut cfg = vsh::VCfg::with_args(a);
                cfg.extra = vsh::v_probes();
                cfg.files = vec![("/tmp/dotext".into(), vsh::FileSpec::Regular(b"/bin/ext\n(exit 2)\n".to_vec())), ("/dev/tty".into(), vsh::FileSpec::Regular(Vec::new()))];
                cfg.stdin_chunks = Some(script.split_inclusive('\n').map(|l| l.as_bytes().to_vec()).collect());
                cfg.strategy = if k == 0 { Strategy::Fifo } else { Strategy::Random { seed: ctx.seed * 131 + i as u64, preempt_pct: [0, 20, 50][k % 3], max_preempt: 60 } };
                vsh::run_v(cfg)
            };
            let reference = run(modes[0]);
            let ev = |o: &vsh::VOut| -> Vec<String> { o.events.iter().filter(|e| e.kind == "probe").map(|e| e.args.join(" ")).collect() };
            for mode in &modes[1..] {
                let out = run(mode);
                ctx.eval();
                ctx.count("interactive_slice_runs", 1);
                let ctxt = || format!("mode {mode:?}, run #{k}\nscript (on standard input):\n{script}events {:?}; non-interactive run: {:?}\nend {:?}, zombies {:?}, alive {:?}\nstderr:\n{}", ev(&out), ev(&reference), out.end, out.zombies, out.alive, out.err());
                if reference.end != vsh::End::Done {
                    ctx.inconclusive.fetch_add(1, std::sync::atomic::Ordering::Relaxed);
                    return;
                }
                if out.end != vsh::End::Done {
                    ctx.violation("C13:interactive:no-termination", ctxt());
                    return;
                }
                if !out.zombies.is_empty() || !out.alive.is_empty() {
                    ctx.violation("C13:interactive:children-left", ctxt());
                    return;
                }
                if ev(&out) != ev(&reference) {
                    ctx.violation("C13:interactive:different-events", ctxt());
                    return;
                }
                ctx.nontrivial(out.trace_hash ^ ((i / per) as u64) << 52);
            }
        },
        |i, msg| {
            if crate::util::panic_in_repo(&msg) {
                ctx.violation(format!("C13:panic:{}", msg.split(": ").next().unwrap_or("")), format!("interactive slice case {i}: {msg}"));
            } else {
                ctx.violation("harness-panic", format!("interactive slice case {i}: {msg}"));
            }
        },
    );
}

fn exit_status_sweep(ctx: &Ctx) {
    const KINDS: [(&str, &str); 11] = [
        // children that end through `exit` / `return` rather than by running off their last command
        ("asynchronous group ending with exit", "{ probe k1; exit ST; probe never; } &\nwait $!\nprobe k2 \"$?\"\n"),
        ("asynchronous function call ending with return", "f() { probe k1; return ST; probe never; }\nf &\nwait $!\nprobe k2 \"$?\"\n"),
        ("subshell ending with exit", "( probe k1; exit ST; probe never )\nprobe k2 \"$?\"\n"),
        ("last pipeline stage ending with exit", "probe k0 | { probe k1; exit ST; }\nprobe k2 \"$?\"\n"),
        ("command substitution ending with exit", "x=$(probe k1; exit ST)\nprobe k2 \"$?\"\n"),
        ("asynchronous list ending with exit inside a loop", "for i in 1; do probe k1; exit ST; done &\nwait $!\nprobe k2 \"$?\"\n"),
        ("subshell", "( probe -s ST k1 )\nprobe k2 \"$?\"\n"),
        ("asynchronous list", "probe -s ST k1 &\nwait $!\nprobe k2 \"$?\"\n"),
        ("command substitution", "x=$(probe -s ST k1)\nprobe k2 \"$?\"\n"),
        ("last pipeline stage", "probe k0 | ( probe -s ST k1 )\nprobe k2 \"$?\"\n"),
        ("nested subshell", "( ( probe -s ST k1 ) )\nprobe k2 \"$?\"\n"),
    ];
    let statuses: Vec<i32> = (0..=3).chain(124..=130).chain(254..=258).chain(383..=384 + 140).chain([640, 1000]).collect();
    let statuses = &statuses;
    ctx.par_for(
        statuses.len() * KINDS.len(),
        |i| {
            let st = statuses[i / KINDS.len()];
            let (kname, tpl) = KINDS[i % KINDS.len()];
            let script = tpl.replace("ST", &st.to_string());
            let mut cfg = vsh::VCfg::script(&script);
            cfg.extra = vsh::v_probes();
            let out = vsh::run_v(cfg);
            ctx.eval();
            ctx.count("exit_status_sweep_runs", 1);
            let k2 = out.events.iter().find(|e| e.kind == "probe" && e.args.first().map(|a| a.as_str()) == Some("k2")).and_then(|e| e.args.get(1)).and_then(|v| v.parse::<i32>().ok());
            let ctxt = || format!("{kname} ending with status {st}\nscript:\n{script}end {:?}, shell status {:?}, zombies {:?}, alive {:?}, $? seen by the parent {k2:?}\nstderr:\n{}", out.end, out.status, out.zombies, out.alive, out.err());
            if out.end != vsh::End::Done || !out.zombies.is_empty() || !out.alive.is_empty() {
                ctx.violation(format!("C13:exit-status-sweep:not-finished-or-not-reaped:{st}"), ctxt());
                return;
            }
            // exited (low 8 bits) or killed by the signal the status names (status kept)
            if k2 != Some(st & 0xFF) && k2 != Some(st) {
                ctx.violation(format!("C13:exit-status-sweep:status:{st}"), ctxt());
                return;
            }
            ctx.nontrivial_str(&format!("sweep|{kname}|{st}"));
        },
        |i, msg| {
            if crate::util::panic_in_repo(&msg) {
                ctx.violation(format!("C13:panic:{}", msg.split(": ").next().unwrap_or("")), format!("exit-status sweep case {i}: {msg}"));
            } else {
                ctx.violation("harness-panic", format!("exit-status sweep case {i}: {msg}"));
            }
        },
    );
}

/// Signals that do not change what a child does (CONT to a running or finished child, signals
/// whose default action is to be ignored, the null signal): under every schedule - in particular
/// when the child has already finished but has not been waited for yet - `wait` still reports the
/// child's own exit status, exactly once, and the shell terminates.
fn harmless_signals_slice(ctx: &Ctx) {
    const SIGS: [&str; 5] = ["CONT", "URG", "WINCH", "CHLD", "0"];
    const SHAPES: [&str; 4] = [
        "( probe -s 3 k1 ) & p=$!\nkill -s SIG $p; probe k2 \"$?\"\nwait $p; probe k3 \"$?\"\n",
        "{ probe -s 4 k1; } & p=$!\nkill -s SIG $p; kill -s SIG $p; probe k2 \"$?\"\nwait $p; probe k3 \"$?\"\nwait $p; probe k4 \"$?\"\n",
        "probe -s 5 k1 & p=$!\nprobe k0 | relay\nkill -s SIG $p; probe k2 \"$?\"\nwait; probe k3 \"$?\"\n",
        "( probe -s 6 k1 ) & p=$!\n( probe -s 7 k5 ) & q=$!\nkill -s SIG $p $q; probe k2 \"$?\"\nwait $q; probe k3 \"$?\"\nwait $p; probe k4 \"$?\"\n",
    ];
    let per = if ctx.quick() { 12 } else { 300 };
    ctx.par_for(
        SIGS.len() * SHAPES.len() * per,
        |i| {
            let sig = SIGS[i % SIGS.len()];
            let shape = SHAPES[(i / SIGS.len()) % SHAPES.len()];
            let k = i / (SIGS.len() * SHAPES.len());
            let script = shape.replace("SIG", sig);
            let strat = || if k == 0 { Strategy::Fifo } else { Strategy::Random { seed: k as u64 + ctx.seed * 104729, preempt_pct: [0, 20, 50][k % 3], max_preempt: 40 } };
            // reference: the same script without the kill commands, FIFO
            let plain: String = script.lines().map(|l| if let Some(rest) = l.strip_prefix(&format!("kill -s {sig} $p; kill -s {sig} $p; ")) { rest.to_string() } else if let Some(rest) = l.strip_prefix(&format!("kill -s {sig} $p $q; ")) { rest.to_string() } else if let Some(rest) = l.strip_prefix(&format!("kill -s {sig} $p; ")) { rest.to_string() } else { l.to_string() }).collect::<Vec<_>>().join("\n") + "\n";
            let want: std::collections::BTreeMap<String, String> = vsh::run_script(&plain, Strategy::Fifo).events.iter().filter(|e| e.kind == "probe").map(|e| (e.args[0].clone(), e.args.get(1).cloned().unwrap_or_default())).collect();
            let mut cfg = vsh::VCfg::script(&script);
            cfg.extra = vsh::v_probes();
            cfg.strategy = strat();
            let out = vsh::run_v(cfg);
            ctx.eval();
            ctx.count("harmless_signal_runs", 1);
            let got: std::collections::BTreeMap<String, String> = out.events.iter().filter(|e| e.kind == "probe").map(|e| (e.args[0].clone(), e.args.get(1).cloned().unwrap_or_default())).collect();
            let ctxt = || format!("signal {sig}, schedule {:?}\nscript:\n{script}probes (id -> $?) {got:?}\nwithout the kill commands {want:?}\nend {:?}, zombies {:?}, alive {:?}\nstderr:\n{}", strat(), out.end, out.zombies, out.alive, out.err());
            if out.end != vsh::End::Done || !out.zombies.is_empty() || !out.alive.is_empty() {
                ctx.violation("C13:harmless-signal:not-finished-or-not-reaped", ctxt());
            } else if got.iter().filter(|(k, _)| *k != "k2").ne(want.iter().filter(|(k, _)| *k != "k2")) {
                // (k2 is the status of `kill` itself: 0, or 1 when the shell has already reaped
                // the finished child at a command boundary - both are right)
                ctx.violation(format!("C13:harmless-signal:result-changed:{sig}"), ctxt());
            } else {
                ctx.nontrivial(out.trace_hash ^ i as u64);
            }
        },
        |i, msg| {
            if crate::util::panic_in_repo(&msg) {
                ctx.violation(format!("C13:panic:{}", msg.split(": ").next().unwrap_or("")), format!("harmless-signal case {i}: {msg}"));
            } else {
                ctx.violation("harness-panic", format!("harmless-signal case {i}: {msg}"));
            }
        },
    );
}

pub fn run(ctx: &Ctx) {
    crate::checks::c13r::run(ctx);
    harmless_signals_slice(ctx);
    exit_status_sweep(ctx);
    interactive_slice(ctx);
    shared_pipe_slice(ctx);
    fork_fault_slice(ctx);
    stop_continue_slice(ctx, "C13");
    let quick = ctx.quick();
    let nprog = if quick { 1500 } else { 30_000 };
    let dfs_cap: usize = if quick { 60 } else { 400 };
    let nrandom = if quick { 20 } else { 60 };
    let seed = ctx.seed;
    let distinct: std::sync::Mutex<HashSet<u64>> = std::sync::Mutex::new(HashSet::new());
    ctx.par_for(
        nprog,
        |i| {
            let mut rng = Rng::new(seed.wrapping_mul(0xC13C13).wrapping_add(i as u64));
            let lines = {
                let mut g = G {
                    rng: &mut rng,
                    next: 1,
                    jobs: Vec::new(),
                    has_gen: false,
                };
                g.program()
            };
            let p = Prog {
                lines,
                trap: false,
                syntax_error_after: None,
                with_readonly: false,
                monitor: false,
                stdin_tty_stderr: false,
            };
            let text = ctlrun::render(&p, &mut rng);
            let opts = Opts {
                compare_execs: false,
                check_reaped: true,
            };
            let mut local_traces: HashSet<u64> = HashSet::new();
            let mut runs = 0i64;
            let mut max_spawned = 0usize;
            let mut preempts = 0i64;
            let mut run_one = |strategy: Strategy| -> Option<ctlrun::Verdict> {
                let v = ctlrun::check_opts(&p, &text, strategy.clone(), opts);
                runs += 1;
                max_spawned = max_spawned.max(v.spawned);
                preempts += v.preempts as i64;
                local_traces.insert(v.trace_hash);
                if !v.ok {
                    report(ctx, i, &strategy, &v);
                    return None;
                }
                Some(v)
            };
            'explore: {
                // 1. FIFO (what the test suite sees)
                let Some(_) = run_one(Strategy::Fifo) else { break 'explore };
                // 2. DFS over scheduling choices without preemption (capped)
                let mut prefix: Vec<u32> = vec![];
                let mut n = 0;
                loop {
                    let Some(v) = run_one(Strategy::Script {
                        prefix: prefix.clone(),
                        max_preempt: 0,
                    }) else {
                        break 'explore;
                    };
                    n += 1;
                    match next_dfs_prefix(&v.choices) {
                        Some(p) if n < dfs_cap => prefix = p,
                        _ => break,
                    }
                }
                // 3. preemption-bounded DFS (at most 2 preemptions), capped
                let mut prefix: Vec<u32> = vec![];
                let mut n = 0;
                loop {
                    let Some(v) = run_one(Strategy::Script {
                        prefix: prefix.clone(),
                        max_preempt: 2,
                    }) else {
                        break 'explore;
                    };
                    n += 1;
                    match next_dfs_prefix(&v.choices) {
                        Some(p) if n < dfs_cap => prefix = p,
                        _ => break,
                    }
                }
                // 4. random schedules with random preemption
                for k in 0..nrandom {
                    let pct = [10, 30, 60, 90][k % 4];
                    if run_one(Strategy::Random {
                        seed: rng.next(),
                        preempt_pct: pct,
                        max_preempt: 200,
                    })
                    .is_none()
                    {
                        break 'explore;
                    }
                }
            }
            ctx.evals(runs as usize);
            ctx.count("schedules_run", runs);
            ctx.count("preemptions_injected", preempts);
            ctx.count_max("max_processes_spawned_in_one_program", max_spawned as i64);
            let h = crate::util::fnv_str(&text);
            let mut d = distinct.lock().unwrap();
            for t in local_traces {
                d.insert(t ^ h);
            }
            drop(d);
            if i % (nprog / 6).max(1) == 0 {
                ctx.sample(J::obj(vec![("script", J::s(text.clone())), ("schedules_run", J::I(runs))]));
            }
        },
        |i, msg| {
            if crate::util::panic_in_repo(&msg) {
                ctx.violation(format!("C13:panic:{}", msg.split(": ").next().unwrap_or("")), format!("program #{i}: {msg}"));
            } else {
                ctx.violation("harness-panic", format!("program #{i}: {msg}"));
            }
        },
    );
    let d = distinct.into_inner().unwrap();
    for t in &d {
        ctx.nontrivial(*t);
    }
    ctx.count("distinct_schedule_traces", d.len() as i64);
    ctx.count("programs", nprog as i64);
    ctx.assume("programs are race-free by construction (no shared files; every probe id occurs in one process), so statuses and per-process traces must not depend on the schedule");
    ctx.assume("preemption points: Concurrent read/write and set_disposition (yash-env feature verif-hooks); other system calls of the virtual kernel are atomic with their neighbours");
    ctx.assume("traps are not mixed with wait here (a wait interrupted by a trap may legitimately leave a child unreaped); that interplay is C11 part B");
}

pub const RULE: &str = "generated race-free programs (pipelines of 2-4 stages incl. producer/consumer pairs that block on the pipe, asynchronous lists with $! and wait for one/several/all/unknown pids, nested subshells, command substitutions, pipefail on/off, pipelines as if-conditions) x schedules {FIFO; depth-first enumeration of all scheduling choices without preemption (capped); depth-first enumeration with at most 2 preemptions (capped); random schedules with 10-90% preemption at every preemption point}. Each run: per-process probe traces and $? against the reference interpreter, $! identity, exit status, logical deadlock (no runnable task and no timer), every child dead and reaped at exit. evaluations = (program, schedule) runs; distinct_nontrivial = distinct (program, poll-order trace) pairs observed";
