//! C04 — pattern matching accepts exactly the strings the POSIX notation denotes.

use crate::models::fnm::{self as m, PC, Parsed, Trim};
use crate::sched::Strategy;
use crate::util::{Ctx, J, Rng, panic_msg};
use crate::vsh;
use yash_fnmatch::{Config, Pattern, PatternChar};

fn to_real(p: &[PC]) -> Vec<PatternChar> {
    p.iter()
        .map(|c| match c {
            PC::N(c) => PatternChar::Normal(*c),
            PC::L(c) => PatternChar::Literal(*c),
        })
        .collect()
}

pub fn show(p: &[PC]) -> String {
    let mut s = String::new();
    for c in p {
        match c {
            PC::N(c) => s.push(*c),
            PC::L(c) => {
                s.push('\\');
                s.push(*c);
            }
        }
    }
    s
}

fn tokens(full: bool) -> Vec<Vec<PC>> {
    let mut t: Vec<Vec<PC>> = Vec::new();
    for c in ['a', 'b', '.', '-', '*', '?', '[', ']', '!', '^'] {
        t.push(vec![PC::N(c)]);
    }
    if full {
        t.push(vec![PC::N('é')]);
    }
    for c in ['*', '[', 'a'] {
        t.push(vec![PC::L(c)]);
    }
    let inner: &[&str] = if full {
        &["[.a.]", "[.-.]", "[.^.]", "[.].]", "[=a=]", "[=-=]", "[:alpha:]", "[:punct:]", "[:digit:]", ":", "="]
    } else {
        &["[.-.]", "[.^.]", "[=a=]", "[:alpha:]"]
    };
    for s in inner {
        t.push(s.chars().map(PC::N).collect());
    }
    if full {
        for c in ['?', ']', '-', '!'] {
            t.push(vec![PC::L(c)]);
        }
    }
    t
}

fn strings(maxlen: usize) -> Vec<String> {
    let alpha = ['a', 'b', '.', '-', ']', '[', '!', '^', '\n', 'é'];
    let mut out = vec![String::new()];
    let mut frontier = vec![String::new()];
    for _ in 0..maxlen {
        let mut next = Vec::new();
        for s in &frontier {
            for c in alpha {
                let mut t = s.clone();
                t.push(c);
                next.push(t);
            }
        }
        out.extend(next.iter().cloned());
        frontier = next;
    }
    out
}

struct Compiled {
    full: Pattern,
    period: Pattern,
    trims: [(Trim, Pattern); 4],
}

fn compile(p: &[PC]) -> Result<Compiled, String> {
    let real = to_real(p);
    let mk = |f: &dyn Fn(&mut Config)| -> Result<Pattern, String> {
        let mut c = Config::default();
        f(&mut c);
        Pattern::parse_with_config(real.iter().copied(), c).map_err(|e| format!("{e:?}"))
    };
    Ok(Compiled {
        full: mk(&|c| {
            c.anchor_begin = true;
            c.anchor_end = true;
        })?,
        period: mk(&|c| {
            c.anchor_begin = true;
            c.anchor_end = true;
            c.literal_period = true;
        })?,
        trims: [
            (
                Trim::PrefixShortest,
                mk(&|c| {
                    c.anchor_begin = true;
                    c.shortest_match = true;
                })?,
            ),
            (Trim::PrefixLongest, mk(&|c| c.anchor_begin = true)?),
            (
                Trim::SuffixShortest,
                mk(&|c| {
                    c.anchor_end = true;
                    c.shortest_match = true;
                })?,
            ),
            (Trim::SuffixLongest, mk(&|c| c.anchor_end = true)?),
        ],
    })
}

/// the way the shell applies a trim (mirrors the documented use: rfind for shortest suffix)
fn real_trim(p: &Pattern, text: &str) -> String {
    let c = p.config();
    let r = if c.anchor_end && c.shortest_match {
        p.rfind(text)
    } else {
        p.find(text)
    };
    let mut s = text.to_string();
    if let Some(r) = r {
        if !(s.is_char_boundary(r.start) && s.is_char_boundary(r.end) && r.end <= s.len()) {
            return format!("<invalid range {r:?}>");
        }
        s.drain(r);
    }
    s
}

fn sig_shape(p: &[PC]) -> String {
    // signature: the pattern with letters normalised
    show(p)
}

/// Check one pattern against all strings. Returns number of comparisons.
fn check_pattern(ctx: &Ctx, p: &[PC], strs: &[String], what: &str) -> usize {
    let atoms = match m::parse(p) {
        Parsed::Ok(a) => a,
        Parsed::Unspecified(_) => {
            ctx.skipped_unspecified.fetch_add(1, std::sync::atomic::Ordering::Relaxed);
            // still must not panic
            let real = to_real(p);
            let r = std::panic::catch_unwind(|| {
                if let Ok(pat) = Pattern::parse(real.iter().copied()) {
                    let _ = pat.is_match("a-]");
                }
            });
            if let Err(e) = r {
                ctx.violation("panic", format!("{what}: pattern {:?} panics: {}", show(p), panic_msg(&e)));
            }
            return 0;
        }
    };
    crate::util::LAST_PANIC_LOC.with(|l| l.borrow_mut().clear());
    let compiled = std::panic::catch_unwind(|| compile(p));
    let compiled = match compiled {
        Err(e) => {
            ctx.violation("panic", format!("{what}: compiling pattern {:?} panics: {}", show(p), panic_msg(&e)));
            return 0;
        }
        Ok(Err(e)) => {
            ctx.violation(
                format!("rejected:{}", sig_shape(p)),
                format!("{what}: pattern {:?} is well-defined in POSIX (model AST {atoms:?}) but yash-fnmatch rejects it: {e}", show(p)),
            );
            return 0;
        }
        Ok(Ok(c)) => c,
    };
    let mut n = 0;
    let has_meta = atoms.iter().any(|a| !matches!(a, m::At::Ch(_)));
    for s in strs {
        let chars: Vec<char> = s.chars().collect();
        let r = std::panic::catch_unwind(std::panic::AssertUnwindSafe(|| {
            let mut bad: Vec<(String, String)> = Vec::new();
            let want = m::matches(&atoms, &chars);
            let got = compiled.full.is_match(s);
            if want != got {
                bad.push(("match".into(), format!("is_match (anchored both ends) = {got}, POSIX says {want}")));
            }
            let got_find = compiled.full.find(s).is_some();
            if want != got_find {
                bad.push(("find".into(), format!("find (anchored both ends) matched = {got_find}, POSIX says {want}")));
            }
            let wantp = m::matches_period(&atoms, &chars);
            let gotp = compiled.period.is_match(s);
            if wantp != gotp {
                bad.push(("period".into(), format!("is_match with literal_period = {gotp}, POSIX says {wantp}")));
            }
            for (how, pat) in &compiled.trims {
                let want = m::trim(&atoms, s, *how);
                let got = real_trim(pat, s);
                if want != got {
                    bad.push((format!("{how:?}"), format!("{how:?}: remaining text {got:?}, POSIX says {want:?}")));
                }
            }
            (want, bad)
        }));
        n += 7;
        match r {
            Err(e) => ctx.violation(
                format!("panic:{}", sig_shape(p)),
                format!("{what}: pattern {:?} on text {s:?} panics: {}", show(p), panic_msg(&e)),
            ),
            Ok((want, bad)) => {
                if has_meta && want {
                    ctx.nontrivial(crate::util::fnv_str(&format!("{}|{s}", show(p))));
                }
                for (kind, msg) in bad {
                    ctx.violation(
                        format!("{kind}:{}", sig_shape(p)),
                        format!("{what}: pattern {:?} (\\x = quoted x), text {s:?}\nmodel AST: {atoms:?}\n{msg}", show(p)),
                    );
                }
            }
        }
    }
    ctx.evals(n);
    n
}

fn exhaustive(ctx: &Ctx) {
    let quick = ctx.quick();
    let toks = tokens(!quick);
    let maxlen = 4;
    let strs = strings(if quick { 3 } else { 4 });
    let nt = toks.len();
    // enumerate patterns of length <= maxlen as index vectors, sharded by the first two tokens
    let shards = nt * nt;
    let strs = &strs;
    let toks = &toks;
    let counter = std::sync::atomic::AtomicUsize::new(0);
    // short patterns (length 0 and 1) first
    check_pattern(ctx, &[], strs, "exhaustive");
    for t in toks.iter() {
        check_pattern(ctx, t, strs, "exhaustive");
    }
    ctx.par_for(
        shards,
        |sh| {
            let (i0, i1) = (sh / nt, sh % nt);
            let mut base: Vec<PC> = toks[i0].clone();
            base.extend(toks[i1].iter().copied());
            let mut pats: Vec<Vec<PC>> = vec![base.clone()];
            for l in 3..=maxlen {
                let k = l - 2;
                let total = nt.pow(k as u32);
                for mut idx in 0..total {
                    let mut p = base.clone();
                    for _ in 0..k {
                        p.extend(toks[idx % nt].iter().copied());
                        idx /= nt;
                    }
                    pats.push(p);
                }
            }
            for p in pats {
                check_pattern(ctx, &p, strs, "exhaustive");
                let c = counter.fetch_add(1, std::sync::atomic::Ordering::Relaxed);
                if c % 20011 == 0 {
                    ctx.sample(J::obj(vec![
                        ("kind", J::s("exhaustive pattern")),
                        ("pattern", J::s(show(&p))),
                        ("model", J::s(format!("{:?}", m::parse(&p)))),
                    ]));
                }
            }
        },
        |i, msg| ctx.violation("harness-panic", format!("exhaustive shard {i}: {msg}")),
    );
    ctx.count("patterns_exhaustive", counter.load(std::sync::atomic::Ordering::Relaxed) as i64 + nt as i64 + 1);
    ctx.count("strings_per_pattern", strs.len() as i64);
    ctx.count("token_alphabet", nt as i64);
}

/// bracket expressions: every sequence of <=4 inner tokens inside [ ... ] and [! ... ]
fn brackets(ctx: &Ctx) {
    let inner: Vec<Vec<PC>> = {
        let mut t: Vec<Vec<PC>> = Vec::new();
        for c in ['a', 'b', 'c', '-', ']', '[', '!', '^', '.', 'é'] {
            t.push(vec![PC::N(c)]);
        }
        for s in ["[.a.]", "[.-.]", "[.^.]", "[.].]", "[.[.]", "[.!.]", "[=a=]", "[=-=]", "[=^=]", "[=]=]", "[:alpha:]", "[:punct:]", "[:space:]"] {
            t.push(s.chars().map(PC::N).collect());
        }
        // quoted characters are plain members, whatever they would mean unquoted
        for c in ['a', '-', ']', '!', '^', '['] {
            t.push(vec![PC::L(c)]);
        }
        t
    };
    let strs: Vec<String> = ["a", "b", "c", "-", "]", "[", "!", "^", ".", "é", "\n", "x", "", "ab", "=", ":", "A", "1", " "]
        .iter()
        .map(|s| s.to_string())
        .collect();
    let maxlen = if ctx.quick() { 3 } else { 4 };
    let n = inner.len();
    let total: usize = (1..=maxlen).map(|l| n.pow(l as u32)).sum();
    let inner = &inner;
    let strs = &strs;
    ctx.par_for(
        total.div_ceil(512),
        |chunk| {
            for id in chunk * 512..((chunk + 1) * 512).min(total) {
                // decode id -> (len, index)
                let mut rest = id;
                let mut len = 1;
                while rest >= n.pow(len as u32) {
                    rest -= n.pow(len as u32);
                    len += 1;
                }
                let mut body: Vec<PC> = Vec::new();
                for _ in 0..len {
                    body.extend(inner[rest % n].iter().copied());
                    rest /= n;
                }
                for neg in [false, true] {
                    for tail in [&[][..], &[PC::N('*')][..]] {
                        let mut p = vec![PC::N('[')];
                        if neg {
                            p.push(PC::N('!'));
                        }
                        p.extend(body.iter().copied());
                        p.push(PC::N(']'));
                        p.extend(tail.iter().copied());
                        check_pattern(ctx, &p, strs, "bracket expression");
                        if id % 9973 == 0 && !neg && tail.is_empty() {
                            ctx.sample(J::obj(vec![
                                ("kind", J::s("bracket expression")),
                                ("pattern", J::s(show(&p))),
                                ("model", J::s(format!("{:?}", m::parse(&p)))),
                            ]));
                        }
                    }
                }
            }
        },
        |i, msg| ctx.violation("harness-panic", format!("bracket chunk {i}: {msg}")),
    );
    ctx.count("bracket_bodies", total as i64);
}

fn random_long(ctx: &Ctx, n: usize) {
    let seed = ctx.seed;
    let lits: Vec<char> = "ab.-+(){}|$&~^\\/ é日\n\t,;<>#%@".chars().collect();
    ctx.par_for(
        n.div_ceil(200),
        |chunk| {
            let mut rng = Rng::new(seed.wrapping_mul(2654435761).wrapping_add(chunk as u64));
            for k in 0..200 {
                let len = rng.range(1, 10);
                let mut p: Vec<PC> = Vec::new();
                for _ in 0..len {
                    match rng.below(10) {
                        0 | 1 => p.push(PC::N('*')),
                        2 => p.push(PC::N('?')),
                        3 => {
                            // a bracket expression
                            p.push(PC::N('['));
                            if rng.chance(30) {
                                p.push(PC::N('!'));
                            }
                            for _ in 0..rng.range(1, 4) {
                                match rng.below(6) {
                                    0 => {
                                        let a = *rng.pick(&['a', 'b', '0', 'A']);
                                        p.push(PC::N(a));
                                        p.push(PC::N('-'));
                                        p.push(PC::N(char::from_u32(a as u32 + rng.below(5) as u32).unwrap()));
                                    }
                                    1 => p.extend(format!("[:{}:]", rng.pick(&m::CLASSES)).chars().map(PC::N)),
                                    2 => p.extend(format!("[.{}.]", rng.pick(&lits)).chars().map(PC::N)),
                                    3 => p.extend(format!("[={}=]", rng.pick(&lits)).chars().map(PC::N)),
                                    _ => {
                                        let c = *rng.pick(&lits);
                                        if c != ']' && c != '[' && c != '-' && c != '\\' {
                                            p.push(PC::N(c));
                                        }
                                    }
                                }
                            }
                            p.push(PC::N(']'));
                        }
                        4 => p.push(PC::L(*rng.pick(&['*', '?', '[', ']', '\\', 'a']))),
                        _ => p.push(PC::N(*rng.pick(&lits))),
                    }
                }
                // strings: derived from the pattern so that matches are likely, plus random ones
                let mut strs: Vec<String> = Vec::new();
                for _ in 0..6 {
                    let mut s = String::new();
                    for c in &p {
                        match c {
                            PC::N('*') => {
                                for _ in 0..rng.range(0, 3) {
                                    s.push(*rng.pick(&lits));
                                }
                            }
                            PC::N('?') => s.push(*rng.pick(&lits)),
                            PC::N('[') | PC::N(']') | PC::N('!') => {
                                if rng.chance(30) {
                                    s.push(*rng.pick(&['a', 'b', '0', 'A', '.', '-']))
                                }
                            }
                            c => {
                                if rng.chance(85) {
                                    s.push(c.ch())
                                }
                            }
                        }
                    }
                    strs.push(s);
                }
                for _ in 0..3 {
                    let l = rng.range(0, 6);
                    strs.push((0..l).map(|_| *rng.pick(&lits)).collect());
                }
                check_pattern(ctx, &p, &strs, "random long pattern");
                if chunk % 100 == 0 && k == 0 {
                    ctx.sample(J::obj(vec![("kind", J::s("random pattern")), ("pattern", J::s(show(&p))), ("texts", J::s(format!("{strs:?}")))]));
                }
            }
        },
        |i, msg| ctx.violation("harness-panic", format!("random chunk {i}: {msg}")),
    );
}

// ------------------------------------------------------------------ shell level

fn sh_quote(s: &str) -> String {
    format!("'{}'", s.replace('\'', "'\\''"))
}

/// render a pattern as shell word text; quoted chars get a random quoting form
fn sh_pattern(p: &[PC], rng: &mut Rng) -> String {
    let mut s = String::new();
    for c in p {
        match c {
            PC::N(c) => s.push(*c),
            PC::L(c) => match rng.below(3) {
                0 => {
                    s.push('\\');
                    s.push(*c);
                }
                1 => {
                    s.push('\'');
                    s.push(*c);
                    s.push('\'');
                }
                _ => {
                    s.push('"');
                    if matches!(c, '\\' | '"' | '$' | '`') {
                        s.push('\\');
                    }
                    s.push(*c);
                    s.push('"');
                }
            },
        }
    }
    s
}

fn shell_level(ctx: &Ctx, n: usize) {
    let toks = tokens(true);
    let strs = strings(3);
    let seed = ctx.seed;
    ctx.par_for(
        n,
        |i| {
            let mut rng = Rng::new(seed.wrapping_mul(48271).wrapping_add(i as u64));
            // 12 cases per script
            let mut script = String::new();
            let mut expect: Vec<(String, Vec<String>)> = Vec::new();
            for _ in 0..12 {
                // pattern of 1..5 tokens that is specified
                let (p, atoms) = loop {
                    let len = rng.range(1, 5);
                    let mut p = Vec::new();
                    for _ in 0..len {
                        p.extend(rng.pick(&toks).iter().copied());
                    }
                    // shell syntax: a leading unquoted '!' or '^' is fine in a pattern; avoid
                    // characters that end the word
                    if let Parsed::Ok(a) = m::parse(&p) {
                        break (p, a);
                    }
                };
                let text = rng.pick(&strs).clone();
                let ptxt = sh_pattern(&p, &mut rng);
                let chars: Vec<char> = text.chars().collect();
                // case with two items: the first matching one must run. The first item has 1-3
                // alternatives `p1|p2|p3`; when one of the well-defined alternatives matches, the
                // item must run whatever the shell makes of the others, so alternatives whose
                // meaning POSIX leaves open (unknown class, reversed range, empty collating
                // symbol...) may be mixed in at any position.
                let other = rng.pick(&strs).clone();
                let mut alts: Vec<(String, bool)> = vec![(ptxt.clone(), m::matches(&atoms, &chars))];
                for _ in 0..rng.range(0, 2) {
                    let (q, qa) = loop {
                        let len = rng.range(1, 3);
                        let mut q = Vec::new();
                        for _ in 0..len {
                            q.extend(rng.pick(&toks).iter().copied());
                        }
                        if let Parsed::Ok(a) = m::parse(&q) {
                            break (q, a);
                        }
                    };
                    let at = rng.range(0, alts.len());
                    alts.insert(at, (sh_pattern(&q, &mut rng), m::matches(&qa, &chars)));
                }
                let m1 = alts.iter().any(|a| a.1);
                if m1 {
                    for _ in 0..rng.range(0, 2) {
                        let odd = *rng.pick(&["[[:foo:]]", "[b-a]", "[[..]]", "[[==]]", "[[:alpha:]-z]", "[a-b-c]"]);
                        let at = rng.range(0, alts.len());
                        alts.insert(at, (odd.to_string(), false));
                    }
                }
                let item = alts.iter().map(|a| a.0.as_str()).collect::<Vec<_>>().join(if rng.chance(50) { "|" } else { " | " });
                let want_case = if m1 {
                    "first"
                } else if chars == other.chars().collect::<Vec<_>>() {
                    "second"
                } else {
                    "none"
                };
                // pattern matching in case items and trims does not depend on noglob (that option only
                // turns pathname expansion off) nor on the other options toggled here
                if rng.chance(30) {
                    script.push_str(rng.pick(&["set -f\n", "set +f\n", "set -o noglob\n", "set -fC\n", "set -a\n", "set +a +C\n", "set -fu\n", "set +u\n"]));
                    ctx.count("shell_scripts_option_toggles", 1);
                }
                script.push_str(&format!(
                    "v={}\ncase \"$v\" in {}) probe case first;; {}) probe case second;; *) probe case none;; esac\n",
                    sh_quote(&text),
                    item,
                    sh_quote(&other)
                ));
                expect.push((format!("case {item:?} on {text:?}"), vec!["case".into(), want_case.into()]));
                script.push_str(&format!(
                    "probe trim \"${{v#{ptxt}}}\" \"${{v##{ptxt}}}\" \"${{v%{ptxt}}}\" \"${{v%%{ptxt}}}\"\n"
                ));
                expect.push((
                    format!("trims of {text:?} by {ptxt:?}"),
                    vec![
                        "trim".into(),
                        m::trim(&atoms, &text, Trim::PrefixShortest),
                        m::trim(&atoms, &text, Trim::PrefixLongest),
                        m::trim(&atoms, &text, Trim::SuffixShortest),
                        m::trim(&atoms, &text, Trim::SuffixLongest),
                    ],
                ));
            }
            // a trim pattern that begins with the *other* trim symbol: `${v#%*}` is the shortest-prefix
            // trim by the pattern `%*`, not a longest-prefix trim (and likewise `${w%#*}`)
            {
                let tail = *rng.pick(&["*", "", "?", "a", "a*", "?*"]);
                let tv = rng.pick(&["%a%b%", "%", "%%a", "a%b", "%ab"]).to_string();
                let tw = rng.pick(&["#a#b#", "#", "a##", "a#b", "ab#"]).to_string();
                let pat = |sym: char| -> Vec<m::At> {
                    let mut p = vec![PC::N(sym)];
                    p.extend(tail.chars().map(PC::N));
                    match m::parse(&p) {
                        Parsed::Ok(a) => a,
                        _ => unreachable!("plain patterns are well defined"),
                    }
                };
                let (pa, ha) = (pat('%'), pat('#'));
                script.push_str(&format!(
                    "v={}; w={}\nprobe trimx \"${{v#%{tail}}}\" \"${{v##%{tail}}}\" \"${{w%#{tail}}}\" \"${{w%%#{tail}}}\"\n",
                    sh_quote(&tv),
                    sh_quote(&tw)
                ));
                expect.push((
                    format!("trims of {tv:?} by the pattern %{tail} (prefix) and of {tw:?} by #{tail} (suffix)"),
                    vec![
                        "trimx".into(),
                        m::trim(&pa, &tv, Trim::PrefixShortest),
                        m::trim(&pa, &tv, Trim::PrefixLongest),
                        m::trim(&ha, &tw, Trim::SuffixShortest),
                        m::trim(&ha, &tw, Trim::SuffixLongest),
                    ],
                ));
            }
            // a pattern that comes out of an unquoted expansion: a backslash in the value quotes the
            // next character; a backslash that ends the value stands for itself
            {
                let pv = *rng.pick(&["a\\", "\\a", "a\\*", "\\\\", "*\\", "\\*a", "a\\\\", "?\\"]);
                let tx = rng.pick(&["a", "a\\", "\\a", "a*", "\\", "ab", "*a", "b\\"]).to_string();
                // model: the value as pattern characters
                let mut pcs: Vec<PC> = Vec::new();
                let cs: Vec<char> = pv.chars().collect();
                let mut k = 0;
                while k < cs.len() {
                    if cs[k] == '\\' {
                        if k + 1 < cs.len() {
                            pcs.push(PC::L(cs[k + 1]));
                            k += 2;
                        } else {
                            pcs.push(PC::L('\\'));
                            k += 1;
                        }
                    } else {
                        pcs.push(PC::N(cs[k]));
                        k += 1;
                    }
                }
                if let Parsed::Ok(at) = m::parse(&pcs) {
                    let chars: Vec<char> = tx.chars().collect();
                    script.push_str(&format!(
                        "p={}; v={}\ncase \"$v\" in $p) probe casev yes;; *) probe casev no;; esac\nprobe trimv \"${{v#$p}}\" \"${{v%$p}}\"\n",
                        sh_quote(pv),
                        sh_quote(&tx)
                    ));
                    expect.push((format!("case {tx:?} against the value {pv:?} used as a pattern"), vec!["casev".into(), if m::matches(&at, &chars) { "yes".into() } else { "no".into() }]));
                    expect.push((
                        format!("trims of {tx:?} by the value {pv:?} used as a pattern"),
                        vec!["trimv".into(), m::trim(&at, &tx, Trim::PrefixShortest), m::trim(&at, &tx, Trim::SuffixShortest)],
                    ));
                }
            }
            let out = vsh::run_script(&script, Strategy::Fifo);
            ctx.evals(expect.len());
            if out.events.len() != expect.len() {
                ctx.violation(
                    "shell:event-count",
                    format!("script:\n{script}\nexpected {} probe events, got {}\nstderr: {}", expect.len(), out.events.len(), out.err()),
                );
                return;
            }
            for ((what, want), ev) in expect.iter().zip(out.events.iter()) {
                if &ev.args != want {
                    ctx.violation(
                        format!("shell:{}", want[0]),
                        format!("{what}: shell gave {:?}, POSIX says {want:?}\nscript:\n{script}", ev.args),
                    );
                } else if want[0] == "case" && want[1] == "first" || want[0] == "trim" && want[1..].iter().any(|w| w != &want[1]) {
                    ctx.nontrivial(crate::util::fnv_str(what));
                }
            }
            if i % 200 == 0 {
                ctx.sample(J::obj(vec![("kind", J::s("shell script (case + four trims)")), ("script_head", J::s(script.lines().take(3).collect::<Vec<_>>().join("\n")))]));
            }
        },
        |i, msg| {
            ctx.violation(
                if crate::util::panic_in_repo(&msg) { "shell:panic" } else { "harness-panic" },
                format!("shell script #{i}: {msg}"),
            )
        },
    );
}

/// The result of a tilde expansion is "treated as if quoted" (XCU 2.6.1): used as a `case`
/// pattern or as the pattern of a prefix/suffix removal its characters match only themselves.
fn tilde_patterns(ctx: &Ctx) {
    let homes = ["*", "a*", "[ab]", "?", "a?c", "*b", "[!a]", "ab", "/x/*"];
    let strings = ["*", "a*", "ab", "abc", "a", "b", "?", "[ab]", "a?c", "*b", "[!a]", "/x/*", "/x/y", "xab", "ab*"];
    for home in homes {
        for s in strings {
            let script = format!(
                "HOME='{home}'; s='{s}'\ncase $s in ~) probe case match;; *) probe case no;; esac\ncase $s in ~/t) probe case2 match;; *) probe case2 no;; esac\nprobe trims \"${{s#~}}\" \"${{s##~}}\" \"${{s%~}}\" \"${{s%%~}}\"\n"
            );
            let out = vsh::run_script(&script, Strategy::Fifo);
            ctx.eval();
            ctx.count("tilde_pattern_cases", 1);
            let ev = |id: &str| out.events.iter().find(|e| e.kind == "probe" && e.args.first().map(|a| a.as_str()) == Some(id)).map(|e| e.args[1..].to_vec());
            let want_case = if s == home { "match" } else { "no" };
            let want_case2 = if *s == format!("{home}/t") { "match" } else { "no" };
            let pre = s.strip_prefix(home).unwrap_or(s).to_string();
            let suf = s.strip_suffix(home).unwrap_or(s).to_string();
            let want_trims = vec![pre.clone(), pre, suf.clone(), suf];
            let got = (ev("case"), ev("case2"), ev("trims"));
            if got != (Some(vec![want_case.to_string()]), Some(vec![want_case2.to_string()]), Some(want_trims.clone())) {
                ctx.violation(
                    "shell:tilde-result-as-pattern",
                    format!("HOME={home:?}, s={s:?}: case ~ / case ~/t / trims gave {got:?}, expected {want_case:?} / {want_case2:?} / {want_trims:?}\nscript:\n{script}stderr:\n{}", out.err()),
                );
            } else if s.starts_with(home) || s.ends_with(home) {
                ctx.nontrivial_str(&format!("tilde|{home}|{s}"));
            }
        }
    }
}

pub fn run(ctx: &Ctx) {
    tilde_patterns(ctx);
    exhaustive(ctx);
    brackets(ctx);
    *ctx.exhaustive.lock().unwrap() = Some(true);
    random_long(ctx, if ctx.quick() { 40_000 } else { 1_000_000 });
    shell_level(ctx, if ctx.quick() { 400 } else { 8000 });
    ctx.assume("models/fnm.rs: POSIX XCU 2.14 / XBD 9.3.5 reading; collating symbols and equivalence classes stand for their single literal character; classes are ASCII");
    ctx.assume("skipped as unspecified: [^...], reversed ranges, a-b-c, unknown [:class:], multi-character [.xx.], unterminated [. inside a bracket");
}

pub const RULE: &str = "library level (yash_fnmatch::Pattern with the five configurations the shell uses: anchored both ends, anchored+literal_period, and the four trim configurations applied like the shell does): exhaustive token sequences up to length 4 over {a b . - * ? [ ] ! ^, quoted * [ a (+ ? ] - !), bracket-inner forms [.x.] [=x=] [:class:] as single tokens} x all strings up to length 3 (quick) / 4 over {a b . - ] [ ! ^ newline e-acute}; exhaustive bracket bodies of up to 3 (quick) / 4 inner tokens, plain and complemented, with and without a trailing *; random longer patterns with regex-special and non-ASCII characters; shell level: case (first matching item) and the four trims with random quoting. evaluations = individual comparisons (7 per pattern/text pair); distinct_nontrivial = distinct (pattern with a metacharacter, text) pairs that match";
