//! R back-end: the harness shell on the real system.
use crate::vsh;
use std::rc::Rc;
use yash_env::system::{Concurrent, Disposition, Sigaction as _, Signals as _};
use yash_env::{Env, RealSystem};
use yash_env::semantics::exit_or_raise;

pub fn real_shell_main(mut args: Vec<String>) -> ! {
    args.insert(0, "yash".to_string());
    // Whoever launched the check may have left HUP / INT / QUIT ignored (nohup, a background job of a
    // non-interactive shell); a non-interactive shell cannot trap a signal that was ignored on
    // entry, so the scripts with traps and self-signals would behave differently from the simulated
    // run for a reason that has nothing to do with the code under test. Start from defaults.
    unsafe {
        for s in 1..32 {
            if s != libc::SIGKILL && s != libc::SIGSTOP {
                libc::signal(s, libc::SIG_DFL);
            }
        }
        let mut set: libc::sigset_t = std::mem::zeroed();
        libc::sigemptyset(&mut set);
        libc::sigprocmask(libc::SIG_SETMASK, &set, std::ptr::null_mut());
    }
    // SAFETY: the only RealSystem instance in this process.
    let system = unsafe { RealSystem::new() };
    system.sigaction(RealSystem::SIGPIPE, Disposition::Default).ok();
    let system = Rc::new(Concurrent::new(system));
    let runner = Rc::clone(&system);
    let env_vars: Vec<(String, String)> = std::env::vars().collect();
    let task = async {
        let mut env = Env::with_system(system);
        let extra = vsh::generic_probes::<Rc<Concurrent<RealSystem>>>();
        vsh::run_as_shell_process(&mut env, args, env_vars, extra).await;
        exit_or_raise(&env.system, env.exit_status).await
    };
    runner.run_real(task)
}
