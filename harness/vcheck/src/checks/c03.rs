//! C03 — arithmetic expansion is exact 64-bit C arithmetic or an error, never wrong.

use crate::models::arith::{self as m, Bin, E, Outcome, Un};
use crate::sched::Strategy;
use crate::util::{Ctx, J, Rng, panic_msg};
use crate::vsh;
use std::collections::BTreeMap;

/// Run the real evaluator. Ok(value) / Err(description); panics are caught by the caller.
fn real_eval(src: &str, env: &mut BTreeMap<String, String>) -> Result<i64, String> {
    match yash_arith::eval(src, env) {
        Ok(yash_arith::Value::Integer(v)) => Ok(v),
        Ok(_) => Err("non-integer value".into()),
        Err(e) => Err(format!("{:?}", e.cause)),
    }
}

fn envs() -> Vec<m::Env> {
    let vals: [Option<&str>; 5] = [None, Some("0"), Some("1"), Some("-3"), Some("9223372036854775807")];
    let mut out = Vec::new();
    for a in vals {
        for b in [None, Some("2"), Some("-1")] {
            let mut e = m::Env::new();
            if let Some(a) = a {
                e.insert("a".into(), a.into());
            }
            if let Some(b) = b {
                e.insert("b".into(), b.into());
            }
            e.insert("c".into(), "5".into());
            out.push(e);
        }
    }
    out
}

/// Compare one (expression, environment) case. Returns whether the case was "non-trivial".
fn check_case(ctx: &Ctx, e: &E, src: &str, env0: &m::Env, what: &str) -> bool {
    let mut menv = env0.clone();
    let expect = m::eval(e, &mut menv);
    let mut renv = env0.clone();
    let src_owned = src.to_string();
    crate::util::LAST_PANIC_LOC.with(|l| l.borrow_mut().clear());
    let got = std::panic::catch_unwind(std::panic::AssertUnwindSafe(|| real_eval(&src_owned, &mut renv)));
    ctx.eval();
    let got = match got {
        Ok(g) => g,
        Err(p) => {
            ctx.violation(
                "panic",
                format!("{what}\nexpression: {src}\nenvironment: {env0:?}\npanic: {}", panic_msg(&p)),
            );
            return true;
        }
    };
    let report = |kind: &str, detail: String| {
        ctx.violation(
            kind.to_string(),
            format!("{what}\nexpression: {src}\ntree: {e:?}\nenvironment before: {env0:?}\n{detail}"),
        );
    };
    match (&expect, &got) {
        (Outcome::Value { v, .. }, Ok(g)) => {
            if v != g {
                report(
                    &format!("wrong-value:{}", shape(e)),
                    format!("exact value {v}, yash-arith returned {g}"),
                );
            } else if menv != renv {
                report(
                    &format!("wrong-side-effect:{}", shape(e)),
                    format!("value {v} agrees, variables after: model {menv:?}, yash-arith {renv:?}"),
                );
            }
        }
        (Outcome::Value { v, may_error }, Err(err)) => {
            if !may_error {
                report(
                    &format!("spurious-error:{}", shape(e)),
                    format!("exact value {v} is representable, yash-arith reported error {err}"),
                );
            }
        }
        (Outcome::Error(why), Ok(g)) => {
            report(
                &format!("missing-error:{why}:{}", shape(e)),
                format!("result is undefined/unrepresentable ({why}), yash-arith returned {g}"),
            );
        }
        (Outcome::Error(_), Err(_)) => {}
    }
    !matches!(expect, Outcome::Value { v: 0 | 1, may_error: false }) || menv != *env0
}

/// coarse shape for violation signatures: top-level operator kinds to depth 2
fn shape(e: &E) -> String {
    fn k(e: &E, d: u32) -> String {
        if d == 0 {
            return "_".into();
        }
        match e {
            E::Num(..) => "n".into(),
            E::Var(_) => "v".into(),
            E::Un(op, a) => format!("{}{}", op.sym(), k(a, d - 1)),
            E::Bin(op, a, b) => format!("({}{}{})", k(a, d - 1), op.sym(), k(b, d - 1)),
            E::Cond(c, a, b) => format!("({}?{}:{})", k(c, d - 1), k(a, d - 1), k(b, d - 1)),
            E::Assign(_, op, a) => format!("(v{}={})", op.map(|o| o.sym()).unwrap_or(""), k(a, d - 1)),
            E::PreInc(_) => "++v".into(),
            E::PreDec(_) => "--v".into(),
            E::PostInc(_) => "v++".into(),
            E::PostDec(_) => "v--".into(),
        }
    }
    k(e, 2)
}

fn nt_key(src: &str, env: &m::Env) -> u64 {
    crate::util::fnv_str(&format!("{src}|{env:?}"))
}

fn exhaustive_unary_binary(ctx: &Ctx) {
    let empty = m::Env::new();
    let mut rng = Rng::new(7);
    let mut n = 0usize;
    for &a in &m::BOUNDARY {
        for op in m::ALL_UN {
            let e = E::Un(op, Box::new(m::lit(a, 10)));
            let src = m::render(&m::tokens(&e), &mut rng);
            if check_case(ctx, &e, &src, &empty, "exhaustive unary x boundary operand") {
                ctx.nontrivial(nt_key(&src, &empty));
            }
            n += 1;
        }
        for &b in &m::BOUNDARY {
            for op in m::ALL_BIN {
                for radix in [10u8, 16] {
                    let e = E::Bin(op, Box::new(m::lit(a, radix)), Box::new(m::lit(b, 10)));
                    let src = m::render(&m::tokens(&e), &mut rng);
                    if check_case(ctx, &e, &src, &empty, "exhaustive binary x boundary operands") {
                        ctx.nontrivial(nt_key(&src, &empty));
                    }
                    n += 1;
                    if n % 3001 == 0 {
                        ctx.sample(J::obj(vec![("kind", J::s("binary boundary")), ("expr", J::s(src.clone()))]));
                    }
                }
            }
            // compound assignment through a variable holding the left operand
            if a >= i64::MIN as i128 && a <= i64::MAX as i128 {
                for op in m::ASSIGN_OPS {
                    let mut env = m::Env::new();
                    env.insert("a".into(), a.to_string());
                    let e = E::Assign("a", Some(op), Box::new(m::lit(b, 10)));
                    let src = m::render(&m::tokens(&e), &mut rng);
                    if check_case(ctx, &e, &src, &env, "exhaustive compound assignment x boundary operands") {
                        ctx.nontrivial(nt_key(&src, &env));
                    }
                }
            }
        }
        // ++/-- at the boundaries
        if a >= i64::MIN as i128 && a <= i64::MAX as i128 {
            for e in [E::PreInc("a"), E::PreDec("a"), E::PostInc("a"), E::PostDec("a")] {
                let mut env = m::Env::new();
                env.insert("a".into(), a.to_string());
                let src = m::render(&m::tokens(&e), &mut rng);
                if check_case(ctx, &e, &src, &env, "increment/decrement at boundary") {
                    ctx.nontrivial(nt_key(&src, &env));
                }
            }
        }
    }
    ctx.count("exhaustive_unary_binary_cases", n as i64);
}

/// all two-operator shapes over a small operand set, both association orders, printed with the
/// minimum of parentheses: the parenthesis-free strings test precedence and associativity.
fn exhaustive_two_ops(ctx: &Ctx) {
    let operands: Vec<i128> = if ctx.quick() {
        vec![0, 1, 2, 3, -1, 7]
    } else {
        vec![0, 1, 2, 3, -1, 7, 63, -8, 1 << 31, i64::MAX as i128]
    };
    let ops = m::ALL_BIN;
    let total = ops.len() * ops.len();
    ctx.par_for(
        total,
        |i| {
            let (o1, o2) = (ops[i / ops.len()], ops[i % ops.len()]);
            let empty = m::Env::new();
            let mut rng = Rng::new(i as u64);
            let mut paren_free = 0;
            for &a in &operands {
                for &b in &operands {
                    for &c in &operands {
                        let la = || Box::new(m::lit(a, 10));
                        let lb = || Box::new(m::lit(b, 10));
                        let lc = || Box::new(m::lit(c, 10));
                        for e in [
                            E::Bin(o2, Box::new(E::Bin(o1, la(), lb())), lc()),
                            E::Bin(o1, la(), Box::new(E::Bin(o2, lb(), lc()))),
                        ] {
                            let toks = m::tokens(&e);
                            let src = m::render(&toks, &mut rng);
                            // negative literals carry their own parentheses-free unary minus
                            if !toks.iter().any(|t| t == "(") {
                                paren_free += 1;
                            }
                            if check_case(ctx, &e, &src, &empty, "two-operator shape (precedence/associativity)") {
                                ctx.nontrivial(nt_key(&src, &empty));
                            }
                        }
                    }
                }
            }
            ctx.count("two_operator_cases_without_parentheses", paren_free);
            if i % 37 == 0 {
                let e = E::Bin(o1, Box::new(m::lit(7, 10)), Box::new(E::Bin(o2, Box::new(m::lit(2, 10)), Box::new(m::lit(3, 10)))));
                ctx.sample(J::obj(vec![
                    ("kind", J::s("two-operator shape")),
                    ("expr", J::s(m::tokens(&e).join(" "))),
                ]));
            }
        },
        |i, msg| ctx.violation("harness-panic", format!("two-op shard {i}: {msg}")),
    );
    // ternary and unary in combination with a binary operator
    let empty = m::Env::new();
    let mut rng = Rng::new(99);
    for o1 in ops {
        for un in m::ALL_UN {
            for &a in &operands {
                for &b in &operands {
                    for e in [
                        E::Bin(o1, Box::new(E::Un(un, Box::new(m::lit(a, 10)))), Box::new(m::lit(b, 10))),
                        E::Un(un, Box::new(E::Bin(o1, Box::new(m::lit(a, 10)), Box::new(m::lit(b, 10))))),
                        E::Cond(
                            Box::new(E::Bin(o1, Box::new(m::lit(a, 10)), Box::new(m::lit(b, 10)))),
                            Box::new(m::lit(b, 10)),
                            Box::new(E::Bin(o1, Box::new(m::lit(b, 10)), Box::new(m::lit(a, 10)))),
                        ),
                        E::Bin(
                            o1,
                            Box::new(E::Cond(Box::new(m::lit(a, 10)), Box::new(m::lit(b, 10)), Box::new(m::lit(a, 10)))),
                            Box::new(m::lit(b, 10)),
                        ),
                    ] {
                        let src = m::render(&m::tokens(&e), &mut rng);
                        if check_case(ctx, &e, &src, &empty, "unary/conditional combined with a binary operator") {
                            ctx.nontrivial(nt_key(&src, &empty));
                        }
                    }
                }
            }
        }
    }
}

fn random_trees(ctx: &Ctx, n: usize) {
    let envs = envs();
    let seed = ctx.seed;
    ctx.par_for(
        n.div_ceil(1000),
        |chunk| {
            let mut rng = Rng::new(seed.wrapping_mul(7919).wrapping_add(chunk as u64));
            for k in 0..1000 {
                let depth = rng.range(1, 6) as u32;
                let e = m::random_expr(&mut rng, depth);
                if m::unsequenced(&e) {
                    ctx.skipped_unspecified.fetch_add(1, std::sync::atomic::Ordering::Relaxed);
                    continue;
                }
                let env = rng.pick(&envs).clone();
                let src = m::render(&m::tokens(&e), &mut rng);
                if check_case(ctx, &e, &src, &env, "random expression tree") {
                    ctx.nontrivial(nt_key(&src, &env));
                }
                if chunk % 50 == 0 && k == 3 {
                    ctx.sample(J::obj(vec![
                        ("kind", J::s("random tree")),
                        ("expr", J::s(src)),
                        ("env", J::s(format!("{env:?}"))),
                    ]));
                }
            }
        },
        |i, msg| ctx.violation("harness-panic", format!("random chunk {i}: {msg}")),
    );
}

/// Laziness: unevaluated operands must have no side effects and raise no errors.
fn laziness(ctx: &Ctx) {
    let empty = m::Env::new();
    let mut rng = Rng::new(5);
    let bad: Vec<E> = vec![
        E::Bin(Bin::Div, Box::new(m::lit(1, 10)), Box::new(m::lit(0, 10))),
        E::Bin(Bin::Rem, Box::new(m::lit(1, 10)), Box::new(m::lit(0, 10))),
        E::Bin(Bin::Add, Box::new(m::lit(i64::MAX as i128, 10)), Box::new(m::lit(1, 10))),
        E::Bin(Bin::Shl, Box::new(m::lit(1, 10)), Box::new(m::lit(64, 10))),
        E::Bin(Bin::Shr, Box::new(m::lit(1, 10)), Box::new(m::lit(-1, 10))),
        E::Assign("a", None, Box::new(m::lit(9, 10))),
        E::PreInc("a"),
        E::PostDec("b"),
        E::Assign("b", Some(Bin::Mul), Box::new(m::lit(3, 10))),
        E::Un(Un::Minus, Box::new(m::lit(i64::MIN as i128, 10))),
    ];
    for b in &bad {
        for c in [0i128, 1, 5, -1] {
            for e in [
                E::Bin(Bin::And, Box::new(m::lit(c, 10)), Box::new(b.clone())),
                E::Bin(Bin::Or, Box::new(m::lit(c, 10)), Box::new(b.clone())),
                E::Cond(Box::new(m::lit(c, 10)), Box::new(b.clone()), Box::new(m::lit(4, 10))),
                E::Cond(Box::new(m::lit(c, 10)), Box::new(m::lit(4, 10)), Box::new(b.clone())),
                E::Cond(
                    Box::new(m::lit(c, 10)),
                    Box::new(E::Cond(Box::new(m::lit(0, 10)), Box::new(b.clone()), Box::new(m::lit(6, 10)))),
                    Box::new(b.clone()),
                ),
            ] {
                let src = m::render(&m::tokens(&e), &mut rng);
                if check_case(ctx, &e, &src, &empty, "short-circuit: unevaluated operand must be inert") {
                    ctx.nontrivial(nt_key(&src, &empty));
                }
            }
        }
    }
}

/// `$((x))` and `$(($x))` agree when x holds an integer constant.
fn variable_constants(ctx: &Ctx) {
    let mut consts: Vec<String> = Vec::new();
    for v in [0u64, 1, 7, 8, 9, 10, 15, 16, 63, 64, 255, 4096, i64::MAX as u64] {
        consts.push(format!("{v}"));
        consts.push(format!("0{v:o}"));
        consts.push(format!("0x{v:x}"));
        consts.push(format!("0X{v:X}"));
    }
    consts.push("00".into());
    consts.push("0x0".into());
    consts.push("9223372036854775808".into()); // too large: both must be errors
    // hexadecimal and octal constants of magnitude 2^63 .. 2^64 and beyond: errors, never wrapped
    for c in ["0x8000000000000000", "0X8000000000000001", "0xFFFFFFFFFFFFFFFF", "0x10000000000000000", "01000000000000000000000", "01777777777777777777777", "02000000000000000000000"] {
        consts.push(c.into());
    }
    consts.push("0x7fffffffffffffff".into());
    consts.push("0777777777777777777777".into());
    consts.push("08".into()); // invalid octal: both must be errors
    consts.push("0x".into());
    consts.push("1a".into());
    // not constants at all: a sign hidden behind the radix prefix, a dangling sign. As expression text
    // each is a syntax error, so as a variable value it must be an error too (never a fabricated value)
    for c in ["0x-5", "0X-8", "0x+A", "0x-", "0x+", "0x-0", "0x+0", "0x--1", "0-", "5-", "0x1-", "0x-80000000000000000000000000000000", "0x+7fffffffffffffff", "0X-7FFFFFFFFFFFFFFF"] {
        consts.push(c.into());
    }
    let signed: Vec<String> = consts
        .iter()
        .flat_map(|c| [c.clone(), format!("-{c}"), format!("+{c}")])
        .collect();
    for c in &signed {
        let is_plain = !c.starts_with(['-', '+']);
        let mut env_x = m::Env::new();
        env_x.insert("x".into(), c.clone());
        let direct = std::panic::catch_unwind(|| real_eval(c, &mut m::Env::new()));
        let via_var = std::panic::catch_unwind(std::panic::AssertUnwindSafe(|| real_eval("x", &mut env_x.clone())));
        ctx.eval();
        ctx.nontrivial(crate::util::fnv_str(&format!("const:{c}")));
        let (Ok(direct), Ok(via_var)) = (direct, via_var) else {
            ctx.violation("panic", format!("constant {c:?}: panic"));
            continue;
        };
        let model = m::parse_const_signed(c);
        // -2^63 written as "-9223372036854775808": the value is representable but the constant
        // 2^63 it is built from is not; both the exact value and an error are acceptable, and the
        // agreement between $((x)) and $(($x)) is not demanded there.
        let edge = m::parse_const(c.trim_start_matches(['-', '+'])).is_some_and(|mag| mag > i64::MAX as i128);
        if edge {
            match &direct {
                Ok(d) if Some(*d) != model => ctx.violation(
                    "constant:edge",
                    format!("constant expression {c:?}: yash-arith {direct:?}, exact {model:?}"),
                ),
                _ => {}
            }
            continue;
        }
        // the constant itself must evaluate to the model's value (or error)
        match (&direct, model) {
            (Ok(d), Some(mv)) if *d == mv => {}
            (Err(_), None) => {}
            _ => ctx.violation(
                format!("constant:{}", class_of_const(c)),
                format!("constant expression {c:?}: yash-arith {direct:?}, exact {model:?}"),
            ),
        }
        let agree = match (&direct, &via_var) {
            (Ok(a), Ok(b)) => a == b,
            (Err(_), Err(_)) => true,
            _ => false,
        };
        if !agree {
            ctx.violation(
                format!("var-constant:{}{}", if is_plain { "" } else { "signed-" }, class_of_const(c)),
                format!(
                    "x={c:?}: $((x)) evaluates to {via_var:?} but $(($x)) i.e. the expression {c:?} evaluates to {direct:?}"
                ),
            );
        }
    }
    ctx.count("variable_constant_cases", signed.len() as i64);
}

fn class_of_const(c: &str) -> &'static str {
    let d = c.trim_start_matches(['-', '+']);
    if d.starts_with("0x") || d.starts_with("0X") {
        "hex"
    } else if d.len() > 1 && d.starts_with('0') {
        "octal"
    } else {
        "decimal"
    }
}

/// Totality: any text gives Ok or Err, never a panic.
fn totality(ctx: &Ctx, n: usize) {
    let pieces: Vec<&str> = vec![
        "0", "1", "7", "08", "0x", "0x1f", "0X", "9223372036854775807", "9223372036854775808", "99999999999999999999", "a", "b", "_", "a1",
        "é", "1é", "0é", "あ", "١", "x²", "+", "-", "++", "--", "*", "/", "%", "<<", ">>", "<", ">", "<=", ">=", "==", "!=", "&", "|", "^",
        "&&", "||", "!", "~", "?", ":", "=", "+=", "-=", "*=", "/=", "%=", "<<=", ">>=", "&=", "|=", "^=", "(", ")", " ", "\t", "\n", ",", ";",
        "$", "#", "\\", "'", "\"", ".", "1.5", "1e3", "\u{0}", "\u{3000}", "\u{feff}", "🙂",
    ];
    let seed = ctx.seed;
    let envs = envs();
    ctx.par_for(
        n.div_ceil(1000),
        |chunk| {
            let mut rng = Rng::new(seed.wrapping_mul(31337).wrapping_add(chunk as u64));
            for k in 0..1000 {
                let mut s = String::new();
                if rng.chance(50) {
                    // token soup
                    for _ in 0..rng.range(0, 12) {
                        s.push_str(rng.pick(&pieces));
                        if rng.chance(40) {
                            s.push(' ');
                        }
                    }
                } else if rng.chance(60) {
                    // mutation of a valid expression
                    let e = m::random_expr(&mut rng, 4);
                    let mut toks = m::tokens(&e);
                    for _ in 0..rng.range(1, 3) {
                        if toks.is_empty() {
                            break;
                        }
                        let i = rng.below(toks.len() as u64) as usize;
                        match rng.below(4) {
                            0 => {
                                toks.remove(i);
                            }
                            1 => toks.insert(i, rng.pick(&pieces).to_string()),
                            2 => {
                                let j = rng.below(toks.len() as u64) as usize;
                                toks.swap(i, j);
                            }
                            _ => toks[i] = rng.pick(&pieces).to_string(),
                        }
                    }
                    s = toks.join(if rng.chance(50) { " " } else { "" });
                } else {
                    // arbitrary unicode
                    for _ in 0..rng.range(0, 16) {
                        let c = match rng.below(4) {
                            0 => char::from_u32(rng.below(0x80) as u32),
                            1 => char::from_u32(0x80 + rng.below(0x800) as u32),
                            2 => char::from_u32(0x3000 + rng.below(0x100) as u32),
                            _ => char::from_u32(rng.below(0x11_0000) as u32),
                        };
                        if let Some(c) = c {
                            s.push(c);
                        }
                    }
                }
                let mut env = rng.pick(&envs).clone();
                crate::util::LAST_PANIC_LOC.with(|l| l.borrow_mut().clear());
                let s2 = s.clone();
                let r = std::panic::catch_unwind(std::panic::AssertUnwindSafe(|| real_eval(&s2, &mut env)));
                ctx.eval();
                match r {
                    Ok(res) => {
                        if res.is_ok() {
                            ctx.count("totality_inputs_that_evaluated", 1);
                        }
                        ctx.nontrivial(crate::util::fnv_str(&s));
                    }
                    Err(p) => {
                        let msg = panic_msg(&p);
                        ctx.violation(
                            format!("panic:{}", msg.split(": ").next().unwrap_or("")),
                            format!("expression text {s:?} made yash_arith::eval panic: {msg}"),
                        );
                    }
                }
                if chunk % 40 == 0 && k == 1 {
                    ctx.sample(J::obj(vec![("kind", J::s("totality input")), ("text", J::s(s))]));
                }
            }
        },
        |i, msg| ctx.violation("harness-panic", format!("totality chunk {i}: {msg}")),
    );
}

/// Through the shell: `probe $((expr))` in a subshell, side effects via `probe $a`.
fn through_shell(ctx: &Ctx, n: usize) {
    let seed = ctx.seed;
    ctx.par_for(
        n,
        |i| {
            let mut rng = Rng::new(seed.wrapping_mul(104729).wrapping_add(i as u64));
            // one script with up to 20 expressions, each in its own subshell so that an error
            // (which makes a non-interactive shell exit) is contained
            let mut script = String::from("a=3 b=-2 c=5\n");
            let mut cases = Vec::new();
            for _ in 0..20 {
                let e = loop {
                    let e = m::random_expr(&mut rng, 3);
                    if !m::unsequenced(&e) {
                        break e;
                    }
                };
                let src = m::render(&m::tokens(&e), &mut rng).replace(['\t', '\n'], " ");
                script.push_str(&format!("(probe \"$(({src}))\" \"$a\" \"$b\" \"$c\"); probe st $?\n"));
                cases.push((e, src));
            }
            let out = vsh::run_script(&script, Strategy::Fifo);
            let mut ev = out.events.iter();
            for (e, src) in cases {
                let mut env = m::Env::new();
                env.insert("a".into(), "3".into());
                env.insert("b".into(), "-2".into());
                env.insert("c".into(), "5".into());
                let expect = m::eval(&e, &mut env);
                ctx.eval();
                let first = ev.next();
                let Some(first) = first else {
                    ctx.violation("shell:missing-events", format!("script:\n{script}\nstderr: {}", out.err()));
                    return;
                };
                let (value_event, status_event) = if first.args.first().map(|s| s.as_str()) == Some("st") {
                    (None, Some(first))
                } else {
                    (Some(first), ev.next())
                };
                let status = status_event.map(|e| e.status).unwrap_or(-1);
                match (&expect, value_event) {
                    (Outcome::Value { v, .. }, Some(pe)) => {
                        let want = vec![v.to_string(), env["a"].clone(), env["b"].clone(), env["c"].clone()];
                        if pe.args != want || status != 0 {
                            ctx.violation(
                                format!("shell:wrong-value:{}", shape(&e)),
                                format!("$(({src})) with a=3 b=-2 c=5: shell gave {:?} status {status}, exact [value,a,b,c] = {want:?}", pe.args),
                            );
                        }
                        ctx.nontrivial(crate::util::fnv_str(&src));
                    }
                    (Outcome::Value { v, may_error }, None) => {
                        if !may_error {
                            ctx.violation(
                                format!("shell:spurious-error:{}", shape(&e)),
                                format!("$(({src})) = {v} exactly, but the shell reported an error (status {status})\nstderr: {}", out.err()),
                            );
                        }
                    }
                    (Outcome::Error(why), Some(pe)) => ctx.violation(
                        format!("shell:missing-error:{why}"),
                        format!("$(({src})) is undefined ({why}) but the shell expanded it to {:?}", pe.args),
                    ),
                    (Outcome::Error(_), None) => {
                        if status == 0 {
                            ctx.violation("shell:error-status-zero", format!("$(({src})) failed but the subshell status is 0"));
                        }
                    }
                }
            }
        },
        |i, msg| {
            if crate::util::panic_in_repo(&msg) {
                ctx.violation(format!("shell:panic:{}", msg.split(": ").next().unwrap_or("")), format!("script #{i}: {msg}"));
            } else {
                ctx.violation("harness-panic", format!("shell script #{i}: {msg}"));
            }
        },
    );
}

/// `$((x))` and `$(($x))` agree for the variables the shell maintains itself, too (their value is
/// an integer constant at every point where it can be observed).
fn shell_maintained_variables(ctx: &Ctx) {
    let names = ["LINENO", "OPTIND", "PPID", "v"];
    let prefixes = ["", "\n\n", "f() {\n", "v=7; getopts ab o -a -b; "];
    for name in names {
        for (pi, prefix) in prefixes.iter().enumerate() {
            for form in ["NAME", "NAME+0", "(NAME)*2", "-NAME"] {
                let bare = form.replace("NAME", name);
                let dollar = form.replace("NAME", &format!("${name}"));
                let body = format!("probe k \"$(({bare}))\" \"$(({dollar}))\"");
                let script = if pi == 2 { format!("v=7\n{prefix}{body}\n}}\nf\n") } else { format!("v=7\n{prefix}{body}\n") };
                let out = vsh::run_script(&script, Strategy::Fifo);
                ctx.eval();
                ctx.count("shell_maintained_variable_cases", 1);
                let ev = out.events.iter().find(|e| e.kind == "probe" && e.args.first().map(|a| a.as_str()) == Some("k"));
                match ev {
                    Some(e) if e.args.len() == 3 && e.args[1] == e.args[2] => ctx.nontrivial_str(&script),
                    other => ctx.violation(
                        format!("shell:bare-vs-dollar:{name}"),
                        format!("$(({bare})) and $(({dollar})) disagree: {:?}\nscript:\n{script}stderr:\n{}", other.map(|e| &e.args), out.err()),
                    ),
                }
            }
        }
    }
}

pub fn run(ctx: &Ctx) {
    shell_maintained_variables(ctx);
    exhaustive_unary_binary(ctx);
    exhaustive_two_ops(ctx);
    laziness(ctx);
    variable_constants(ctx);
    *ctx.exhaustive.lock().unwrap() = Some(true);
    random_trees(ctx, if ctx.quick() { 300_000 } else { 10_000_000 });
    totality(ctx, if ctx.quick() { 300_000 } else { 5_000_000 });
    through_shell(ctx, if ctx.quick() { 300 } else { 5000 });
    ctx.assume("models/arith.rs: exact i128 evaluation with ISO C precedence; left/right shift of negatives and INT_MIN % -1 accept {exact value, error}");
    ctx.assume("expressions whose value depends on C-unspecified operand evaluation order are not generated (counted as skipped_unspecified)");
    ctx.assume("an empty variable value is not generated (POSIX leaves it unspecified)");
}

pub const RULE: &str = "library level (yash_arith::eval on a BTreeMap environment): exhaustive unary and binary operators (and compound assignments, ++/--) over 16 boundary operands in decimal and hex; exhaustive two-operator shapes in both association orders printed with minimal parentheses; unary/conditional x binary combinations; short-circuit inertness table; variable-holds-constant agreement table; random trees (depth<=6, variables a,b,c over 15 environments, seeded); totality inputs (token soup, mutations, Unicode); shell level: probe $((expr)) in subshells on the virtual system. evaluations = expressions evaluated; distinct_nontrivial = distinct (expression text, environment) pairs whose exact result is not 0/1-without-side-effects (or, for totality, distinct input texts)";
