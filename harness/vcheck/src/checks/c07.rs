//! C07 — quoted output reads back verbatim; state listings recreate the state.
//!
//! Part A: for every string s, `yash_quote::quoted(s)` is embedded in a script run by the complete
//! shell on the virtual system as a command argument, as an assignment value and as the value in
//! an operand of a declaration utility; the probe must receive exactly [s]. The working directory
//! holds files named `a`, `b`, `*`, `[`, `ab`, and HOME=/h, so a character left unprotected
//! changes the result.
//!
//! Part B: a random shell state is built (variables with attributes and odd names, arrays,
//! aliases, functions with generated bodies, options, traps, umask); every listing command writes
//! its output to a file; each listing is evaluated by a fresh shell and the facet of the state it
//! covers is compared (kernel/Env-level snapshot, not text).

use crate::checks::c06;
use crate::util::{Ctx, J, Rng};
use crate::vsh::{self, Event, FileSpec};
use futures_util::FutureExt as _;
use std::collections::{BTreeMap, BTreeSet};
use yash_syntax::parser::lex::{Lexer, Operator, TokenId};

const ALPHABET: [char; 31] = [
    ';', '&', '|', '(', ')', '<', '>', ' ', '\t', '\n', '$', '`', '\\', '"', '\'', '=', '*', '?', '[', ']', '{', '}', '#', '~', ':', '!', '-',
    '\u{a0}', '\u{3000}', 'a', '/',
];
/// further characters for the random strings
const EXTRA: [char; 14] = ['b', 'é', '日', '%', '^', ',', '.', '+', '@', '\u{2003}', '\u{85}', '\r', '\u{7f}', '🙂'];

/// quoting we trust for building the defining scripts: single quotes, `'` as `'\''`
fn sq(s: &str) -> String {
    format!("'{}'", s.replace('\'', "'\\''"))
}

fn files() -> Vec<(String, FileSpec)> {
    vec![
        ("/w".into(), FileSpec::Dir),
        ("/w/a".into(), FileSpec::Regular(vec![])),
        ("/w/b".into(), FileSpec::Regular(vec![])),
        ("/w/ab".into(), FileSpec::Regular(vec![])),
        ("/w/*".into(), FileSpec::Regular(vec![])),
        ("/w/[".into(), FileSpec::Regular(vec![])),
        ("/w/~".into(), FileSpec::Regular(vec![])),
        ("/h".into(), FileSpec::Dir),
        ("/out".into(), FileSpec::Dir),
    ]
}

fn run_script(script: &str, keep: bool) -> vsh::VOut {
    let mut cfg = vsh::VCfg::stdin_script(script);
    cfg.extra = vsh::v_probes();
    cfg.files = files();
    cfg.cwd = "/w".into();
    cfg.env_vars = vec![("PATH".into(), "/bin".into()), ("HOME".into(), "/h".into())];
    cfg.keep_state = keep;
    vsh::run_v(cfg)
}

// ------------------------------------------------------------------ part A

const CONTEXTS: [&str; 3] = ["command argument", "assignment value", "declaration-utility operand value"];

fn script_a(strings: &[String]) -> String {
    let mut s = String::new();
    for (i, x) in strings.iter().enumerate() {
        let q = yash_quote::quoted(x).to_string();
        s.push_str(&format!("probe a{i} {q}\n"));
        s.push_str(&format!("v={q}\nprobe b{i} \"$v\"\n"));
        s.push_str(&format!("typeset w={q}\nprobe c{i} \"$w\"\n"));
    }
    s.push_str("probe end\n");
    s
}

/// returns indices of strings that did not come back verbatim (with what came back)
fn run_a(strings: &[String]) -> Vec<(usize, String)> {
    let script = script_a(strings);
    let out = run_script(&script, false);
    let mut bad = Vec::new();
    let ev: BTreeMap<&str, &Event> = out.events.iter().filter(|e| e.kind == "probe" && !e.args.is_empty()).map(|e| (e.args[0].as_str(), e)).collect();
    let complete = ev.contains_key("end") && out.end == vsh::End::Done;
    for (i, x) in strings.iter().enumerate() {
        for (c, tag) in ["a", "b", "c"].iter().enumerate() {
            let key = format!("{tag}{i}");
            match ev.get(key.as_str()) {
                Some(e) if e.args.len() == 2 && e.args[1] == *x => {}
                Some(e) => {
                    bad.push((i, format!("{}: read back as {:?}", CONTEXTS[c], &e.args[1..])));
                    break;
                }
                None => {
                    if complete || strings.len() == 1 {
                        bad.push((i, format!("{}: the command was not executed; stderr: {}", CONTEXTS[c], out.err())));
                        break;
                    }
                }
            }
        }
    }
    if !complete && bad.is_empty() && strings.len() > 1 {
        // something broke the script: the caller bisects
        bad.push((usize::MAX, String::new()));
    }
    bad
}

fn check_batch(ctx: &Ctx, strings: &[String], origin: &str) {
    ctx.evals(strings.len());
    let bad = run_a(strings);
    if bad.is_empty() {
        return;
    }
    // re-run every string on its own so that one broken word cannot hide or implicate others
    for x in strings {
        let one = run_a(std::slice::from_ref(x));
        for (_, what) in one {
            let q = yash_quote::quoted(x).to_string();
            let class = classify(x);
            ctx.violation(
                format!("quote-readback:{class}"),
                format!("{origin}: string {x:?} is quoted as {q:?}\n{what}"),
            );
        }
    }
}

/// a coarse input class for signatures (so that a new kind of failure is not hidden by a known one)
fn classify(x: &str) -> String {
    let mut set: BTreeSet<String> = BTreeSet::new();
    for c in x.chars() {
        if c.is_ascii_alphanumeric() {
            continue;
        }
        if c.is_ascii() {
            set.insert(format!("{c:?}").trim_matches('\'').to_string());
        } else if c.is_whitespace() {
            set.insert("non-ascii-blank".into());
        } else {
            set.insert("non-ascii".into());
        }
    }
    set.into_iter().collect::<Vec<_>>().join("")
}

fn part_a(ctx: &Ctx) {
    let quick = ctx.quick();
    let maxlen = if quick { 3 } else { 4 };
    let n = ALPHABET.len();
    // all strings up to maxlen, enumerated by index
    let mut total: usize = 0;
    let mut offsets = vec![0usize];
    for l in 0..=maxlen {
        total += n.pow(l as u32);
        offsets.push(total);
    }
    let nth = |mut k: usize| -> String {
        let mut l = 0;
        while k >= offsets[l + 1] {
            l += 1;
        }
        k -= offsets[l];
        let mut s = String::new();
        for _ in 0..l {
            s.push(ALPHABET[k % n]);
            k /= n;
        }
        s
    };
    const B: usize = 48;
    let nb = total.div_ceil(B);
    ctx.par_for(
        nb,
        |b| {
            let strings: Vec<String> = (b * B..((b + 1) * B).min(total)).map(nth).collect();
            check_batch(ctx, &strings, "exhaustive");
            for s in &strings {
                if yash_quote::quoted(s).needs_quoting() {
                    ctx.count("strings_that_needed_quoting", 1);
                }
                ctx.nontrivial_str(s);
            }
        },
        |i, msg| ctx.violation("harness-panic", format!("part A batch {i}: {msg}")),
    );
    ctx.count("exhaustive_strings", total as i64);
    // random longer strings
    let nr = if quick { 20_000 } else { 600_000 };
    let seed = ctx.seed;
    ctx.par_for(
        nr / B,
        |b| {
            let mut rng = Rng::new(seed.wrapping_mul(0xC07).wrapping_add(b as u64));
            let strings: Vec<String> = (0..B).map(|_| random_string(&mut rng, 40)).collect();
            check_batch(ctx, &strings, "random");
            for s in &strings {
                ctx.nontrivial_str(s);
            }
        },
        |i, msg| ctx.violation("harness-panic", format!("part A random batch {i}: {msg}")),
    );
    ctx.count("random_strings", nr as i64);
}

fn random_string(rng: &mut Rng, maxlen: usize) -> String {
    let len = match rng.below(4) {
        0 => rng.range(0, 3),
        1 => rng.range(3, 8),
        _ => rng.range(5, maxlen),
    };
    let mut s = String::new();
    for _ in 0..len {
        let c = match rng.below(10) {
            0..=5 => *rng.pick(&ALPHABET),
            6 | 7 => *rng.pick(&EXTRA),
            _ => *rng.pick(&['a', 'b', 'x', '1', '_']),
        };
        s.push(c);
    }
    // a few structured forms: PATH-like lists with tildes, brace and bracket pairs
    match rng.below(12) {
        0 => format!("/bin:{s}:~/bin"),
        1 => format!("a{{{s}}}"),
        2 => format!("[{s}]"),
        3 => format!("~{s}"),
        4 => format!("#{s}"),
        _ => s,
    }
}

// ------------------------------------------------------------------ part B

const VAR_NAMES: [&str; 6] = ["v1", "v2", "v3", "V_4", "_v5", "IFS"];
const ODD_NAMES: [&str; 17] = ["a b", "-n", "x*", "é", "a.b", "q'q", "~t", "#h", "-a b", "-x*", "", "-", "\u{65e5}\u{672c}", "a\u{e9}b", "\u{3000}x", "--", "+x"];
const ALIAS_NAMES: [&str; 9] = ["al1", "al2", "b*c", "-x", "a.b", "é1", "x y", "q'q", "!z"];
const FUNC_NAMES: [&str; 8] = ["f1", "f2", "a.b", "-f", "x*", "é", "f 3", "q\"q"];
const OPTIONS: [&str; 11] = ["allexport", "noclobber", "noglob", "hashondefinition", "ignoreeof", "nolog", "notify", "pipefail", "nounset", "vi", "posixlycorrect"];
const CONDS: [&str; 11] = ["EXIT", "INT", "USR1", "TERM", "HUP", "QUIT", "RTMIN", "RTMIN+2", "RTMAX", "RTMAX-1", "RTMAX-3"];

/// (listing command, output file, how the listing is turned into the script of the fresh shell)
const PRINTERS: [(&str, &str); 11] = [
    ("alias", "alias"),
    ("export -p", "export"),
    ("readonly -p", "readonly"),
    ("typeset -p", "typeset"),
    ("typeset -fp", "typesetf"),
    ("set", "set"),
    ("set +o", "seto"),
    ("trap", "trap"),
    ("trap -p", "trapp"),
    ("umask", "umask"),
    ("umask -S", "umaskS"),
];

struct State {
    script: String,
    /// which kinds of definitions were made (for counters)
    kinds: BTreeSet<&'static str>,
}

fn gen_value(rng: &mut Rng) -> String {
    random_string(rng, 10)
}

fn gen_function_body(rng: &mut Rng) -> Option<String> {
    for _ in 0..20 {
        let text = {
            let mut g = c06::G {
                rng,
                pending: Vec::new(),
                budget: 25,
            };
            let t = g.compound(2);
            if !g.pending.is_empty() {
                continue;
            }
            t
        };
        let def = format!("zz() {text}\n");
        let p = c06::parse_all(&def);
        if p.error.is_some() || p.lists.len() != 1 {
            continue;
        }
        let dbg = format!("{:?}", p.lists[0]);
        if dbg.contains("HereDoc") || !dbg.contains("FunctionDefinition") {
            continue;
        }
        // the definition must be the whole command (no pipeline etc. swallowed part of the text)
        if !dbg.starts_with("List([Item { and_or: AndOrList { first: Pipeline { commands: [Function(") {
            continue;
        }
        return Some(text);
    }
    None
}

fn gen_state(rng: &mut Rng) -> State {
    let mut s = String::new();
    let mut kinds = BTreeSet::new();
    let mut readonly_vars: BTreeSet<String> = BTreeSet::new();
    let n = rng.range(3, 10);
    for _ in 0..n {
        match rng.below(16) {
            0..=2 => {
                let name = *rng.pick(&VAR_NAMES);
                if readonly_vars.contains(name) {
                    continue;
                }
                s.push_str(&format!("{name}={}\n", sq(&gen_value(rng))));
                kinds.insert("scalar");
            }
            3 => {
                let name = *rng.pick(&VAR_NAMES[..5]);
                if readonly_vars.contains(name) {
                    continue;
                }
                let k = rng.below(4);
                let vals: Vec<String> = (0..k).map(|_| sq(&gen_value(rng))).collect();
                s.push_str(&format!("{name}=({})\n", vals.join(" ")));
                kinds.insert("array");
            }
            4 | 5 => {
                // attribute on a regular or odd name, with or without a value
                let odd = rng.chance(40);
                let name = if odd { *rng.pick(&ODD_NAMES) } else { *rng.pick(&VAR_NAMES[..5]) };
                if readonly_vars.contains(name) {
                    continue;
                }
                let cmd = *rng.pick(&["export", "readonly", "typeset", "typeset -x", "typeset -r", "typeset -xr"]);
                let operand = if rng.chance(75) || odd { format!("{name}={}", gen_value(rng)) } else { name.to_string() };
                s.push_str(&format!("{cmd} -- {}\n", sq(&operand)));
                if cmd.contains("readonly") || cmd.contains('r') && cmd.starts_with("typeset -") {
                    readonly_vars.insert(name.to_string());
                }
                kinds.insert(if odd { "odd-variable-name" } else { "attribute" });
            }
            6 | 7 => {
                let name = *rng.pick(&ALIAS_NAMES);
                let mut v = gen_value(rng);
                if rng.chance(30) {
                    v.push(' ');
                }
                s.push_str(&format!("alias -- {}\n", sq(&format!("{name}={v}"))));
                kinds.insert("alias");
            }
            8 | 9 => {
                if let Some(body) = gen_function_body(rng) {
                    let simple = rng.chance(60);
                    let name = if simple { rng.pick(&FUNC_NAMES[..2]).to_string() } else { sq(rng.pick(&FUNC_NAMES)) };
                    s.push_str(&format!("{name}() {body}\n"));
                    kinds.insert(if simple { "function" } else { "odd-function-name" });
                    if rng.chance(15) {
                        s.push_str(&format!("typeset -fr -- {name}\n"));
                        kinds.insert("readonly-function");
                    }
                }
            }
            10 | 11 => {
                let cond = *rng.pick(&CONDS);
                let action = match rng.below(6) {
                    0 => String::new(),
                    1 => "-".to_string(),
                    // actions that look like options or like the option terminator
                    2 => rng.pick(&["--", "-p", "--x", "-- --", "-", "+", "--print"]).to_string(),
                    _ => gen_value(rng),
                };
                if action == "-" {
                    s.push_str(&format!("trap - {cond}\n"));
                } else {
                    s.push_str(&format!("trap -- {} {cond}\n", sq(&action)));
                }
                kinds.insert("trap");
            }
            12 => {
                s.push_str(&format!("umask {}{}{}\n", rng.below(8), rng.below(8), rng.below(8)));
                kinds.insert("umask");
            }
            _ => {}
        }
    }
    // options last (allexport/nounset would otherwise influence the definitions above)
    for _ in 0..rng.below(4) {
        let o = *rng.pick(&OPTIONS);
        s.push_str(&format!("set {}o {o}\n", if rng.chance(75) { "-" } else { "+" }));
        kinds.insert("option");
    }
    State { script: s, kinds }
}

/// split a listing into its shell words with the shell's own lexer; None if it cannot be lexed
fn listing_words(text: &str) -> Option<Vec<String>> {
    let chars: Vec<char> = text.chars().collect();
    let mut lexer = Lexer::with_code(text);
    let mut words = Vec::new();
    for _ in 0..chars.len() + 2 {
        lexer.skip_blanks_and_comment().now_or_never()?.ok()?;
        let t = lexer.token().now_or_never()?.ok()?;
        match t.id {
            TokenId::EndOfInput => return Some(words),
            TokenId::Operator(Operator::Newline) => {}
            TokenId::Operator(_) => return None,
            _ => {
                let r = t.word.location.range.clone();
                words.push(chars[r.start.min(chars.len())..r.end.min(chars.len())].iter().collect());
            }
        }
    }
    None
}

fn parse_snap(e: &Event) -> BTreeMap<String, String> {
    e.args[1..].iter().filter_map(|a| a.split_once('=').map(|(k, v)| (k.to_string(), v.to_string()))).collect()
}

#[derive(Clone, Debug, PartialEq, Eq, PartialOrd, Ord)]
struct Var {
    name: String,
    value: String,
    exported: bool,
    readonly: bool,
}

fn parse_vars(facet: &str) -> Vec<Var> {
    facet
        .split('\u{1}')
        .filter(|s| !s.is_empty())
        .filter_map(|e| {
            let (name, rest) = e.split_once('=')?;
            let (rest, readonly) = match rest.strip_suffix(" ro") {
                Some(r) => (r, true),
                None => (rest, false),
            };
            let (rest, exported) = match rest.strip_suffix(" x") {
                Some(r) => (r, true),
                None => (rest, false),
            };
            Some(Var {
                name: name.to_string(),
                value: rest.to_string(),
                exported,
                readonly,
            })
        })
        .collect()
}

/// the part of the state a listing is responsible for, as comparable text
fn facet_of(printer: &str, snap: &BTreeMap<String, String>) -> String {
    let get = |k: &str| snap.get(k).cloned().unwrap_or_default();
    let vars = || parse_vars(&get("vars"));
    match printer {
        "alias" => get("aliases"),
        "export" => format!("{:?}", vars().into_iter().filter(|v| v.exported).map(|v| (v.name, v.value)).collect::<Vec<_>>()),
        "readonly" => format!("{:?}", vars().into_iter().filter(|v| v.readonly).map(|v| (v.name, v.value)).collect::<Vec<_>>()),
        "typeset" => format!("{:?}", vars()),
        "typesetf" => get("functions"),
        "set" => format!(
            "{:?}",
            vars()
                .into_iter()
                .filter(|v| yash_syntax::parser::lex::is_name(&v.name) && v.value != "None")
                .map(|v| (v.name, v.value))
                .collect::<Vec<_>>()
        ),
        "seto" => get("options"),
        "trap" | "trapp" => get("traps"),
        "umask" | "umaskS" => get("umask"),
        _ => unreachable!(),
    }
}

fn check_state(ctx: &Ctx, idx: usize, rng: &mut Rng) {
    let st = gen_state(rng);
    // S1: build the state, write every listing to its own file, snapshot
    let mut s1 = st.script.clone();
    for (cmd, file) in PRINTERS {
        s1.push_str(&format!("{cmd} >|/out/{file}\n"));
    }
    s1.push_str("snap s1\n");
    let out1 = run_script(&s1, true);
    ctx.eval();
    let Some(e1) = out1.events.iter().find(|e| e.kind == "snap") else {
        // the defining script itself failed (e.g. assignment to a read-only variable): not a verdict
        ctx.count("states_skipped_definition_failed", 1);
        if std::env::var_os("C07_DEBUG").is_some() {
            eprintln!("C07SKIP\n{s1}\n--stderr:\n{}\n=====", out1.err());
        }
        return;
    };
    let snap1 = parse_snap(e1);
    let state = out1.state.as_ref().unwrap();
    for k in &st.kinds {
        ctx.count(&format!("states_with_{k}"), 1);
    }
    for (cmd, file) in PRINTERS {
        let Some(bytes) = vsh::read_file(&state.borrow(), &format!("/out/{file}")) else {
            ctx.violation(format!("listing-missing:{cmd}"), format!("state #{idx}: `{cmd}` wrote nothing\nscript:\n{s1}\nstderr:\n{}", out1.err()));
            continue;
        };
        let listing = String::from_utf8_lossy(&bytes).into_owned();
        let script2 = match file {
            "alias" => {
                // one word per alias; each is given back to the alias built-in
                let Some(words) = listing_words(&listing) else {
                    ctx.violation(
                        format!("listing-not-evaluable:{cmd}"),
                        format!("state #{idx}: the output of `{cmd}` is not a sequence of shell words\nlisting:\n{listing}\ndefining script:\n{}", st.script),
                    );
                    continue;
                };
                let mut s = String::new();
                for w in words {
                    s.push_str(&format!("alias -- {w}\n"));
                }
                s
            }
            "umask" | "umaskS" => format!("umask {listing}"),
            _ => listing.clone(),
        };
        // (the EXIT trap is taken out after the snapshot: its action is arbitrary text and must not run)
        let mut s2 = format!("{script2}\nsnap s2\ntrap - EXIT\n");
        let mut out2 = run_script(&s2, false);
        if file == "typesetf" && out2.err().contains("the `function` keyword is not yet supported") && listing.lines().any(|l| l.starts_with("function ")) {
            // a function whose name needs quoting is printed with the `function` keyword, which this
            // shell's parser rejects. Reported under its own signature; the rest of the listing is
            // still checked with the keyword taken out (the name() form is accepted for any name).
            ctx.violation(
                "typeset-fp:function-keyword-for-quoted-name",
                format!(
                    "state #{idx}: `typeset -fp` prints a function whose name needs quoting with the `function` keyword, which the parser does not support\nlisting:\n{listing}\nstderr of the fresh shell:\n{}\ndefining script:\n{}",
                    out2.err(),
                    st.script
                ),
            );
            let stripped: String = listing.lines().map(|l| l.strip_prefix("function ").unwrap_or(l)).collect::<Vec<_>>().join("\n");
            s2 = format!("{stripped}\nsnap s2\ntrap - EXIT\n");
            out2 = run_script(&s2, false);
        }
        ctx.count("listings_evaluated", 1);
        let detail = |what: &str| {
            format!(
                "state #{idx}: {what}\nlisting printed by `{cmd}`:\n{listing}\nscript given to the fresh shell:\n{s2}\nstderr of the fresh shell:\n{}\ndefining script:\n{}",
                out2.err(),
                st.script
            )
        };
        let Some(e2) = out2.events.iter().find(|e| e.kind == "snap") else {
            ctx.violation(format!("listing-not-evaluable:{cmd}"), detail("the fresh shell did not get through the listing"));
            continue;
        };
        if !out2.err().is_empty() {
            ctx.violation(format!("listing-evaluation-reports-errors:{cmd}"), detail("the fresh shell printed diagnostics while evaluating the listing"));
            continue;
        }
        let snap2 = parse_snap(e2);
        let f1 = facet_of(file, &snap1);
        let f2 = facet_of(file, &snap2);
        if f1 != f2 {
            ctx.violation(
                format!("state-differs:{cmd}"),
                detail(&format!("the state recreated from the listing differs\n  original : {f1}\n  recreated: {f2}")),
            );
            continue;
        }
        if !listing.trim().is_empty() {
            ctx.nontrivial(crate::util::fnv_str(&listing) ^ crate::util::fnv_str(file));
        }
    }
}

fn part_b(ctx: &Ctx) {
    let n = if ctx.quick() { 3000 } else { 120_000 };
    let seed = ctx.seed;
    ctx.par_for(
        n,
        |i| {
            let mut rng = Rng::new(seed.wrapping_mul(0xB07).wrapping_add(i as u64));
            check_state(ctx, i, &mut rng);
            if i % (n / 5).max(1) == 0 {
                let mut r2 = Rng::new(seed.wrapping_mul(0xB07).wrapping_add(i as u64));
                ctx.sample(J::obj(vec![("kind", J::s("state-defining script")), ("script", J::s(gen_state(&mut r2).script))]));
            }
        },
        |i, msg| {
            if crate::util::panic_in_repo(&msg) {
                ctx.violation(format!("panic:{}", msg.split(": ").next().unwrap_or("")), format!("state #{i}: {msg}"));
            } else {
                ctx.violation("harness-panic", format!("state #{i}: {msg}"));
            }
        },
    );
    ctx.count("states", n as i64);
}

pub fn run(ctx: &Ctx) {
    part_a(ctx);
    part_b(ctx);
    ctx.assume("strings do not contain NUL (not representable in shell words)");
    ctx.assume("the defining scripts embed strings in single quotes with ' written as '\\'' (the only quoting the harness itself trusts)");
    ctx.assume("`alias` prints one word NAME=VALUE per alias; the listing is split with the shell's own lexer and each word is given to `alias --`; `umask`'s output is given to `umask` as its operand; every other listing is evaluated as is");
    ctx.assume("variables whose name contains `=` cannot exist; arrays only under ordinary names (no syntax creates an array under another name); `set` lists only variables whose name is a valid identifier (compared on those)");
    ctx.assume("default variables of a fresh shell (PATH, PWD, IFS, PS1...) are never unset by the generated states, so absence never has to be recreated");
}

pub const RULE: &str = "A: every string of length <= 3 (quick) / 4 over the 31-character alphabet {; & | ( ) < > space tab newline $ ` \\ \" ' = * ? [ ] { } # ~ : ! - NBSP U+3000 a /} plus 2*10^4 / 6*10^5 random strings up to length 40 (also other Unicode blanks, controls, PATH-like lists with ~, brace/bracket pairs): quoted(s) as command argument, assignment value and declaration-utility operand, in a directory whose files would match unprotected patterns, HOME set; the probe must receive [s]. B: 3000 / 120000 random states (scalars, arrays, export/readonly/typeset attributes incl. odd variable names, aliases incl. odd names and trailing blanks, functions with grammar-generated bodies incl. odd and read-only names, 11 options, traps on 6 conditions with arbitrary action text, umask); alias, export -p, readonly -p, typeset -p, typeset -fp, set, set +o, trap, trap -p, umask, umask -S each evaluated by a fresh shell; the facet of the Env/kernel snapshot that listing covers must be equal. evaluations = strings + states; distinct_nontrivial = distinct strings + distinct non-empty listings";
