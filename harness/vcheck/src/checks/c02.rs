//! C02 — control flow and exit status follow the POSIX command semantics.
//! C10 — the script aborts exactly when errexit or a shell error says so.
//! C16 part B — variable scope/lifetime through the language.
//! (one generator family, three configurations; see models/ctl.rs and checks/ctlrun.rs)

use crate::checks::ctlrun::{self, Prog};
use crate::models::ctl::{self as m, Cmd, GenCfg};
use crate::sched::Strategy;
use crate::util::{Ctx, J, Rng};

const C02_CFG: GenCfg = GenCfg {
    errors: false,
    vars: false,
    max_depth: 5,
};
const C10_CFG: GenCfg = GenCfg {
    errors: true,
    vars: false,
    max_depth: 4,
};
const C16_CFG: GenCfg = GenCfg {
    errors: false,
    vars: true,
    max_depth: 3,
};

/// systematic part: every construct nested in every construct, with break/continue/return at each
/// level count, as hand-built templates around fresh probes
fn systematic(ctx: &Ctx, errexit: bool) {
    #[derive(Clone, Copy, Debug)]
    enum K {
        Brace,
        Sub,
        If,
        Else,
        While,
        Until,
        For,
        Case,
        AndL,
        OrR,
        Not,
        PipeLast,
        Func,
    }
    let kinds = [
        K::Brace,
        K::Sub,
        K::If,
        K::Else,
        K::While,
        K::Until,
        K::For,
        K::Case,
        K::AndL,
        K::OrR,
        K::Not,
        K::PipeLast,
        K::Func,
    ];
    // leaves to plant innermost
    #[derive(Clone, Copy, Debug)]
    enum Leaf {
        P(i32),
        Break(u32),
        Continue(u32),
        Return(Option<i32>),
        Exit(Option<i32>),
        False,
        NotFound,
    }
    let leaves = [
        Leaf::P(0),
        Leaf::P(3),
        Leaf::Break(1),
        Leaf::Break(2),
        Leaf::Continue(1),
        Leaf::Continue(2),
        Leaf::Return(Some(5)),
        Leaf::Return(None),
        Leaf::Exit(Some(4)),
        Leaf::Exit(None),
        Leaf::False,
        Leaf::NotFound,
    ];
    let depth = if ctx.quick() { 2 } else { 3 };
    let total = kinds.len().pow(depth as u32) * leaves.len();
    let kinds = &kinds;
    let leaves = &leaves;
    ctx.par_for(
        total,
        |idx| {
            let leaf = leaves[idx % leaves.len()];
            let mut k = idx / leaves.len();
            let mut stack = Vec::new();
            for _ in 0..depth {
                stack.push(kinds[k % kinds.len()]);
                k /= kinds.len();
            }
            // validity: break/continue need an enclosing loop not separated by a subshell/function;
            // return needs a function
            let mut loops = 0u32;
            let mut all_loops = 0u32;
            let mut in_func = false;
            for kd in stack.iter().rev() {
                // stack[0] is innermost; iterate outermost first
                match kd {
                    K::While | K::Until | K::For => {
                        loops += 1;
                        all_loops += 1;
                    }
                    K::Sub | K::PipeLast => loops = 0,
                    K::Func => {
                        loops = 0;
                        in_func = true;
                    }
                    _ => {}
                }
            }
            match leaf {
                Leaf::Break(n) | Leaf::Continue(n) if loops == 0 || n > loops + 1 => return,
                // `break n` reaching beyond the loops of the current function/subshell while the
                // caller has loops of its own: lexical (model) vs dynamic (yash, dash) scoping is not
                // settled by the standard
                Leaf::Break(n) | Leaf::Continue(n) if n > loops && all_loops > loops => return,
                Leaf::Return(_) if !in_func => return,
                _ => {}
            }
            let next_id = std::cell::Cell::new(10u32);
            let id = || {
                next_id.set(next_id.get() + 1);
                next_id.get()
            };
            let p = |st: i32| Cmd::Probe { id: id(), st };
            let inner = match leaf {
                Leaf::P(s) => p(s),
                Leaf::Break(n) => Cmd::Break(n),
                Leaf::Continue(n) => Cmd::Continue(n),
                Leaf::Return(n) => Cmd::Return(n),
                Leaf::Exit(n) => Cmd::Exit(n),
                Leaf::False => Cmd::False,
                Leaf::NotFound => Cmd::NotFound,
            };
            // body = probe(7); LEAF; probe(0)   so that $? before and after is observable
            let mut cur = Cmd::Seq(vec![p(7), inner, p(0)]);
            let mut funcs: Vec<Cmd> = Vec::new();
            let mut nf = 0u32;
            for kd in &stack {
                cur = match kd {
                    K::Brace => Cmd::Brace(Box::new(cur)),
                    K::Sub => Cmd::Subshell(Box::new(cur)),
                    K::If => Cmd::If(vec![(p(0), cur)], None),
                    K::Else => Cmd::If(vec![(p(1), p(0))], Some(Box::new(cur))),
                    K::While => Cmd::Loop {
                        until: false,
                        id: id(),
                        count: 2,
                        body: Box::new(cur),
                    },
                    K::Until => Cmd::Loop {
                        until: true,
                        id: id(),
                        count: 2,
                        body: Box::new(cur),
                    },
                    K::For => Cmd::For {
                        id: id(),
                        words: vec!["a", "b"],
                        body: Box::new(cur),
                    },
                    K::Case => Cmd::Case {
                        word: "ab",
                        items: vec![(vec!["c"], p(0)), (vec!["b", "a*"], cur), (vec!["*"], p(0))],
                        terms: vec![0, 0, 0],
                    },
                    K::AndL => Cmd::AndOr(Box::new(cur), vec![(true, p(0)), (false, p(2))]),
                    K::OrR => Cmd::AndOr(Box::new(p(1)), vec![(false, cur), (true, p(0))]),
                    K::Not => Cmd::Not(Box::new(Cmd::Brace(Box::new(cur)))),
                    K::PipeLast => Cmd::Pipe(vec![p(0), cur]),
                    K::Func => {
                        nf += 1;
                        funcs.push(Cmd::FuncDef(nf, Box::new(cur)));
                        Cmd::Call(nf)
                    }
                };
            }
            let mut lines = funcs;
            if errexit {
                lines.push(Cmd::SetE(true));
            }
            lines.push(p(9));
            lines.push(cur);
            lines.push(p(0));
            let prog = Prog {
                lines,
                trap: errexit,
                syntax_error_after: None,
                with_readonly: false,
                monitor: false,
                stdin_tty_stderr: false,
            };
            let mut rng = Rng::new(idx as u64);
            let text = ctlrun::render(&prog, &mut rng);
            ctx.eval();
            let v = ctlrun::check(&prog, &text, Strategy::Fifo, false);
            ctx.count("probe_events_compared", v.events as i64);
            if !v.ok {
                ctx.violation(
                    format!("systematic:{}:{stack:?}:{leaf:?}", v.signature),
                    format!("systematic nesting {stack:?} (innermost first) around {leaf:?}{}\n{}", if errexit { " with set -e" } else { "" }, v.detail),
                );
            }
            ctx.nontrivial_str(&format!("sys{errexit}{stack:?}{leaf:?}"));
            if idx % 3001 == 0 {
                ctx.sample(J::obj(vec![("kind", J::s("systematic nesting")), ("script", J::s(text))]));
            }
        },
        |i, msg| {
            ctx.violation(
                if crate::util::panic_in_repo(&msg) { "systematic:panic" } else { "harness-panic" },
                format!("systematic #{i}: {msg}"),
            )
        },
    );
    ctx.count("systematic_programs", total as i64);
}

/// "Zero if none": `eval`, `.`, a trap action, a function body's `eval`, and a whole `-c` script
/// that contain no command at all (empty, blanks, newlines, comments) yield status 0 whatever `$?`
/// was before.
fn commandless_scripts(ctx: &Ctx) {
    let texts = ["", " ", "\n", "\n\n", "# comment", "# comment\n", "  \n# c\n\t\n", "\\\n", "\\\n\n"];
    let carriers = [
        ("eval", "probe -s 5 k0; eval \"$t\"; probe k1 \"$?\"\n"),
        ("eval with two operands", "probe -s 5 k0; eval \"$t\" \"$t\"; probe k1 \"$?\"\n"),
        ("command eval", "probe -s 5 k0; command eval \"$t\"; probe k1 \"$?\"\n"),
        ("dot script", "probe -s 5 k0; . /tmp/empty.sh; probe k1 \"$?\"\n"),
        ("dot script in a function", "f() { probe -s 5 k0; . /tmp/empty.sh; }; f; probe k1 \"$?\"\n"),
        ("eval as the last command of a function", "f() { probe -s 5 k0; eval \"$t\"; }; f; probe k1 \"$?\"\n"),
        ("eval in an and-or list", "probe -s 5 k0; eval \"$t\" && probe k1 0 || probe k1 \"$?\"\n"),
        ("eval in a subshell", "probe -s 5 k0; ( eval \"$t\" ); probe k1 \"$?\"\n"),
        ("sh -c", ""),
    ];
    for t in texts {
        for (cname, tpl) in carriers {
            let mut cfg = if cname == "sh -c" {
                crate::vsh::VCfg::with_args(vec!["yash".into(), "-c".into(), t.to_string()])
            } else {
                crate::vsh::VCfg::script(tpl)
            };
            cfg.extra = crate::vsh::v_probes();
            cfg.env_vars.push(("t".into(), t.to_string()));
            cfg.files.push(("/tmp/empty.sh".into(), crate::vsh::FileSpec::Regular(t.as_bytes().to_vec())));
            let out = crate::vsh::run_v(cfg);
            ctx.eval();
            ctx.count("commandless_script_cases", 1);
            let got = if cname == "sh -c" {
                out.exit_code().map(|c| c.to_string())
            } else {
                out.events.iter().find(|e| e.kind == "probe" && e.args.first().map(|a| a.as_str()) == Some("k1")).and_then(|e| e.args.get(1).cloned())
            };
            if got.as_deref() == Some("0") && out.end == crate::vsh::End::Done {
                ctx.nontrivial_str(&format!("commandless|{cname}|{t}"));
            } else {
                ctx.violation(
                    format!("commandless:{cname}"),
                    format!("{cname} of the command-less text {t:?} after a command that returned 5: status {got:?}, expected 0\nscript:\n{tpl}stderr:\n{}", out.err()),
                );
            }
        }
    }
}

pub fn run_c02(ctx: &Ctx) {
    commandless_scripts(ctx);
    systematic(ctx, false);
    *ctx.exhaustive.lock().unwrap() = Some(true);
    ctlrun::drive(ctx, if ctx.quick() { 150_000 } else { 3_000_000 }, C02_CFG, "C02", false, false, 1, 0);
    crate::checks::c02r::run(ctx);
    // `$?` and the order of commands around a foreground child that is stopped and continued
    crate::checks::c13::stop_continue_slice(ctx, "C02");
    ctx.assume("models/ctl.rs is a faithful reading of XCU 2.9-2.15 (validated against dash and bash at development time)");
    ctx.assume("not generated: break/continue outside a lexically enclosing loop or across a function/subshell boundary, return outside a function, `! !`, probes of a non-last pipeline stage are ordered only within their own stage");
}

/// A built-in cannot print its results (standard output closed, or a pipe whose reader is gone):
/// for a special built-in that is an error of a special built-in - the shell stops, nothing after
/// it runs, the EXIT trap runs once with a non-zero status; for an ordinary built-in, and for a
/// special built-in run through `command`, only `$?` is set and execution goes on.
fn builtin_output_error(ctx: &Ctx) {
    // (command, preparation, special?, output is larger than a pipe?)
    const PRINTERS: [(&str, &str, bool, bool); 12] = [
        ("set", "", true, true),
        ("set -o", "", true, false),
        ("set +o", "", true, false),
        ("export -p", "export big", true, true),
        ("export", "export big", true, true),
        ("readonly -p", "readonly big", true, true),
        ("readonly", "readonly big", true, true),
        ("trap", "trap \"$big\" USR1", true, true),
        ("trap -p", "trap \"$big\" USR1", true, true),
        ("alias", "alias a=\"$big\"", false, true),
        ("pwd", "", false, false),
        ("command -v probe", "", false, false),
    ];
    let contexts = ["CMD", "{ CMD; }; probe k70", "for v in a; do CMD; probe k70; done", "f() { CMD; probe k70; }; f", "if true; then CMD; fi"];
    for (cmd, prep, special, large) in PRINTERS {
        for wrapped in [false, true] {
            for (fname, tpl) in [("closed", "( BODY ) >&-\nprobe k3 \"$?\"\n"), ("closed-on-the-command", "( BODY )\nprobe k3 \"$?\"\n"), ("broken-pipe", "( BODY ) | :\nprobe k3 \"$?\"\n")] {
                if fname == "broken-pipe" && !large {
                    continue;
                }
                for cxt in contexts {
                    let mut c = if wrapped { format!("command {cmd}") } else { cmd.to_string() };
                    if fname == "closed-on-the-command" {
                        c.push_str(" >&-");
                    }
                    let body = format!("{prep}{}trap 'probe k99 \"$?\"' EXIT; {}; probe k80 \"$?\"", if prep.is_empty() { "" } else { "; " }, cxt.replace("CMD", &c));
                    let script = format!("big=$(gen 3000 1)\n{}", tpl.replace("BODY", &body));
                    let out = crate::vsh::run_script(&script, Strategy::Fifo);
                    ctx.eval();
                    ctx.count("builtin_output_error_cases", 1);
                    let aborts = special && !wrapped;
                    let evs: Vec<(String, String)> = out
                        .events
                        .iter()
                        .filter(|e| e.kind == "probe")
                        .map(|e| (e.args.first().cloned().unwrap_or_default(), e.args.get(1).cloned().unwrap_or_default()))
                        .collect();
                    let count = |k: &str| evs.iter().filter(|(i, _)| i == k).count();
                    let val = |k: &str| evs.iter().find(|(i, _)| i == k).map(|(_, v)| v.clone()).unwrap_or_default();
                    let mut problems = Vec::new();
                    if out.end != crate::vsh::End::Done {
                        problems.push(format!("did not terminate: {:?}", out.end));
                    }
                    if aborts {
                        if count("k70") + count("k80") > 0 {
                            problems.push("commands after the failing special built-in ran".into());
                        }
                    } else {
                        if count("k80") != 1 {
                            problems.push("execution did not go on after the failing command".into());
                        } else if val("k80") == "0" && cxt == "CMD" {
                            problems.push("$? is 0 after the failing command".into());
                        }
                    }
                    if count("k99") != 1 {
                        problems.push(format!("EXIT trap ran {} times", count("k99")));
                    } else if aborts && val("k99") == "0" {
                        problems.push("EXIT trap saw $?=0".into());
                    }
                    if aborts && fname != "broken-pipe" && (count("k3") != 1 || val("k3") == "0") {
                        problems.push(format!("exit status of the aborted subshell: {:?}", val("k3")));
                    }
                    if problems.is_empty() {
                        ctx.nontrivial_str(&format!("outerr|{cmd}|{wrapped}|{fname}|{cxt}"));
                    } else {
                        ctx.violation(
                            format!("builtin-output-error:{}:{fname}", if aborts { "special" } else if special { "command-wrapped" } else { "ordinary" }),
                            format!("`{c}` cannot print its results ({fname}): {}\nscript:\n{script}events: {evs:?}\nstderr:\n{}", problems.join("; "), out.err()),
                        );
                    }
                }
            }
        }
    }
}

/// The stock shell binary (`yash_cli::main`, on the real system; the harness shell has its own
/// copy of the top-level driver): every kind of abort x syntactic context x way of passing the
/// script. Observed through `/bin/echo`: nothing after the abort point runs, the EXIT trap runs
/// exactly once and sees the failing status, which is also the exit status of the process.
fn stock_shell_aborts(ctx: &Ctx) {
    // (name, command, exact status if pinned, aborts the shell?)
    const CASES: [(&str, &str, Option<i32>, bool); 21] = [
        // exempt contexts of errexit, with the failing command spelled through an alias (defined on
        // the first line of the script) or inside a subshell / function: execution goes on
        ("errexit-exempt:negated-alias", "set -e; ! chk; ! chk | chk", None, false),
        ("errexit-exempt:and-or-alias", "set -e; chk && :; chk || :", None, false),
        ("errexit-exempt:condition-subshell", "set -e; if (chk; /bin/true); then :; fi; until (chk; /bin/true); do :; done", None, false),
        ("errexit-exempt:negated-group", "set -e; ! { chk; /bin/true; }; ! (chk; /bin/false; chk)", None, false),
        ("assignment-error", "ro=2", None, true),
        ("special-builtin-error:export", "export ro=2", None, true),
        ("special-builtin-error:dot", ". /nonexistent/file", None, true),
        ("special-builtin-error:shift", "shift 5", None, true),
        ("special-builtin-error:unset", "unset ro", None, true),
        ("special-builtin-error:option", "readonly -x", None, true),
        ("special-builtin-error:redirection", "exec 3</nonexistent/file", None, true),
        ("exec-failure", "exec /nonexistent/cmd", Some(127), true),
        ("expansion-error", ": ${uu?}", None, true),
        ("arithmetic-error", ": $((1/0))", None, true),
        ("errexit", "set -e; /bin/sh -c \"exit 7\"", Some(7), true),
        ("exit", "exit 3", Some(3), true),
        ("syntax-error", "fi", None, true),
        ("subshell-confined", "( ro=2 )", None, false),
        ("command-wrapped", "command export ro=2", None, false),
        ("ordinary-redirection-error", "/bin/echo x </nonexistent/file", None, false),
        ("command-not-found", "/nonexistent/cmd", None, false),
    ];
    let contexts = ["CMD", "{ CMD\n}", "f() { CMD\n}; f", "for v in a; do CMD\ndone", "if true; then CMD\nfi", "eval 'CMD'", "while true; do CMD\nbreak; done"];
    let Some(stock) = std::env::current_exe().ok().and_then(|e| e.parent().map(|d| d.join("yash3w"))).filter(|p| p.exists()) else {
        ctx.inconclusive.fetch_add(1, std::sync::atomic::Ordering::Relaxed);
        return;
    };
    let jobs: Vec<(usize, usize, usize)> = (0..CASES.len()).flat_map(|c| (0..contexts.len()).flat_map(move |x| (0..3usize).map(move |m| (c, x, m)))).collect();
    let (jobs, stock, contexts) = (&jobs, &stock, &contexts);
    ctx.par_for(
        jobs.len(),
        |i| {
            let (c, x, mode) = jobs[i];
            let (name, cmd, exact, aborts) = CASES[c];
            let cxt = contexts[x];
            // (a syntax error inside a compound command or eval string is another program: the whole
            // compound command is rejected before any of it runs)
            if name == "syntax-error" && cxt != "CMD" {
                return;
            }
            // the EXIT trap is set in one of several spellings, some naming signals in the same command;
            // in those runs the shell is started with INT and QUIT ignored, so that these conditions
            // cannot be trapped (silently, in a non-interactive shell) - EXIT must be all the same
            let form = (i.wrapping_mul(7).wrapping_add(ctx.seed as usize)) % 6;
            let trap_line = [
                "trap '/bin/echo EXIT $?' EXIT",
                "trap '/bin/echo EXIT $?' INT EXIT",
                "trap '/bin/echo EXIT $?' EXIT QUIT",
                "trap '/bin/echo EXIT $?' 0",
                "trap '/bin/echo EXIT $?' QUIT 0 INT",
                "trap '/bin/echo EXIT $?' EXIT",
            ][form];
            let ignore_at_start = matches!(form, 1 | 2 | 4);
            let script = format!("alias chk=false\nreadonly ro=1\n{trap_line}\n/bin/echo before\n{}\n/bin/echo after\n", cxt.replace("CMD", cmd));
            let dir = std::env::temp_dir().join(format!("verif-c10s-{}-{i}", std::process::id()));
            let _ = std::fs::remove_dir_all(&dir);
            if std::fs::create_dir_all(&dir).is_err() || std::fs::write(dir.join("s.sh"), &script).is_err() {
                ctx.inconclusive.fetch_add(1, std::sync::atomic::Ordering::Relaxed);
                return;
            }
            let mut command = std::process::Command::new(stock);
            command.current_dir(&dir).env_clear().env("PATH", "/bin:/usr/bin").env("LANG", "C");
            let mname = ["script file", "-c string", "standard input"][mode];
            let mut input = None;
            match mode {
                0 => {
                    command.arg("s.sh");
                }
                1 => {
                    command.args(["-c", &script]);
                }
                _ => input = Some(script.clone().into_bytes()),
            }
            crate::util::start_with_default_signals(&mut command);
            if ignore_at_start {
                use std::os::unix::process::CommandExt;
                // SAFETY: signal(2) is async-signal-safe; nothing else happens between fork and exec
                unsafe {
                    command.pre_exec(|| {
                        libc::signal(libc::SIGINT, libc::SIG_IGN);
                        libc::signal(libc::SIGQUIT, libc::SIG_IGN);
                        Ok(())
                    });
                }
                ctx.count("stock_shell_runs_started_with_INT_QUIT_ignored", 1);
            }
            let out = crate::util::run_child(command, input, 60);
            let _ = std::fs::remove_dir_all(&dir);
            let Ok(out) = out else {
                ctx.inconclusive.fetch_add(1, std::sync::atomic::Ordering::Relaxed);
                return;
            };
            ctx.eval();
            ctx.count("stock_shell_runs", 1);
            let text = String::from_utf8_lossy(&out.stdout).into_owned();
            let lines: Vec<&str> = text.lines().collect();
            let code = out.status.code();
            let mut problems = Vec::new();
            let exits: Vec<&str> = lines.iter().filter_map(|l| l.strip_prefix("EXIT ")).collect();
            if lines.first() != Some(&"before") {
                problems.push("the commands before the abort point did not run".to_string());
            }
            if aborts {
                if lines.iter().any(|l| *l == "after") {
                    problems.push("`after` ran after the abort point".into());
                }
                match exact {
                    Some(e) if code != Some(e) => problems.push(format!("exit status {code:?}, expected {e}")),
                    None if code == Some(0) || code.is_none() => problems.push(format!("exit status {code:?}, expected non-zero")),
                    _ => {}
                }
            } else if !lines.iter().any(|l| *l == "after") || code != Some(0) {
                problems.push(format!("execution did not go on to the end (exit status {code:?})"));
            }
            let trap_problem = if exits.len() != 1 {
                Some(format!("EXIT trap ran {} times", exits.len()))
            } else if Some(exits[0].to_string()) != code.map(|c| c.to_string()) {
                Some(format!("EXIT trap saw $?={}, exit status {code:?}", exits[0]))
            } else {
                None
            };
            let ctxt = |p: &str| format!("stock shell, {mname}, {name} in context `{}`: {p}\nscript:\n{script}stdout:\n{text}stderr:\n{}", cxt.replace('\n', "; "), String::from_utf8_lossy(&out.stderr));
            if !problems.is_empty() {
                ctx.violation(format!("stock-shell:{name}"), ctxt(&problems.join("; ")));
            }
            if let Some(t) = trap_problem {
                if name == "exec-failure" && exits.is_empty() {
                    ctx.violation("stock-shell:exec-failure:no-exit-trap", ctxt(&t));
                } else {
                    ctx.violation(format!("stock-shell:{name}:exit-trap"), ctxt(&t));
                }
            } else if problems.is_empty() {
                ctx.nontrivial_str(&format!("stock|{name}|{cxt}|{mode}"));
            }
        },
        |i, msg| ctx.violation("harness-panic", format!("stock-shell case {i}: {msg}")),
    );
}

pub fn run_c10(ctx: &Ctx) {
    stock_shell_aborts(ctx);
    systematic(ctx, true);
    trap_vs_abort(ctx);
    builtin_output_error(ctx);
    *ctx.exhaustive.lock().unwrap() = Some(true);
    ctlrun::drive(ctx, if ctx.quick() { 150_000 } else { 3_000_000 }, C10_CFG, "C10", true, true, 0, 77);
    ctx.assume("statuses of shell errors are only required to be non-zero (the model carries a symbolic non-zero status)");
    ctx.assume("errexit model: applies to simple commands, multi-command pipelines and subshells outside exempt contexts (XCU 2.8.1 / set -e rules 1-3)");
}

/// An abort (errexit / shell error) coinciding with a signal trap whose action ends in a weaker
/// divert (`return`, `break`, `continue`) or none: the abort must win, nothing after the abort
/// point runs, the EXIT trap runs once and sees the failing status.
fn trap_vs_abort(ctx: &Ctx) {
    let aborts: [(&str, &str, Option<i32>, bool); 5] = [
        // (name, command, exact exit status if POSIX pins it, does the command itself probe k1?)
        ("errexit", "probe -s 7 k1 $(kill -s USR1 $$)", Some(7), true),
        ("errexit-false", "false $(kill -s USR1 $$)", Some(1), false),
        ("expansion-error", ": $(kill -s USR1 $$) ${uu?}", None, false),
        ("special-builtin-error", "export ro=$(kill -s USR1 $$)", None, false),
        ("assignment-error", "ro=$(kill -s USR1 $$)", None, false),
    ];
    // (`break`/`continue` in a trap action are outside any loop of the action itself: unspecified, not used)
    let actions = ["probe -s 0 k50; return 0", "probe -s 0 k50; return", "probe -s 0 k50", "probe -s 3 k50; return 5"];
    let contexts = ["CMD", "for v in a b; do CMD; probe k70; done", "{ CMD; }; probe k70", "if true; then CMD; probe k70; fi"];
    for (name, cmd, exact, has_k1) in aborts {
        for action in actions {
            for cxt in contexts {
                if (action.ends_with("break") || action.ends_with("continue")) && !cxt.starts_with("for") {
                    continue;
                }
                let errexit = name.starts_with("errexit");
                let body = cxt.replace("CMD", cmd);
                let script = format!(
                    "readonly ro=1\ntrap 'probe -s 0 k99' EXIT\ntrap '{action}' USR1\n{}f() {{ {body}; probe k80; }}\nf\nprobe k90\n",
                    if errexit { "set -e\n" } else { "" }
                );
                let out = crate::vsh::run_script(&script, Strategy::Fifo);
                ctx.eval();
                ctx.nontrivial_str(&format!("trapabort{name}{action}{cxt}"));
                let ids: Vec<(String, i32)> = out
                    .events
                    .iter()
                    .filter(|e| e.pid == 2)
                    .map(|e| (e.args.first().cloned().unwrap_or_default(), e.status))
                    .collect();
                let mut problems = Vec::new();
                for bad in ["k70", "k80", "k90"] {
                    if ids.iter().any(|(i, _)| i == bad) {
                        problems.push(format!("{bad} ran after the abort point"));
                    }
                }
                let n50 = ids.iter().filter(|(i, _)| i == "k50").count();
                if n50 > 1 || (errexit && n50 != 1) {
                    problems.push(format!("USR1 trap action ran {n50} times"));
                }
                if has_k1 && !ids.iter().any(|(i, _)| i == "k1") {
                    problems.push("the failing command itself did not run".into());
                }
                let exits: Vec<i32> = ids.iter().filter(|(i, _)| i == "k99").map(|(_, s)| *s).collect();
                if exits.len() != 1 {
                    problems.push(format!("EXIT trap ran {} times", exits.len()));
                } else {
                    let ok = match exact {
                        Some(x) => exits[0] == x,
                        None => exits[0] != 0,
                    };
                    if !ok {
                        problems.push(format!("EXIT trap saw $?={} (expected {})", exits[0], exact.map(|x| x.to_string()).unwrap_or("non-zero".into())));
                    }
                }
                match (out.exit_code(), exact) {
                    (Some(c), Some(x)) if c == x => {}
                    (Some(c), None) if c != 0 => {}
                    (c, _) => problems.push(format!("exit status {c:?}")),
                }
                if out.end != crate::vsh::End::Done {
                    problems.push(format!("did not terminate: {:?}", out.end));
                }
                if !problems.is_empty() {
                    ctx.violation(
                        format!("trap-vs-abort:{name}"),
                        format!("abort ({name}) coinciding with a USR1 trap `{action}` in context `{cxt}`: {}\nscript:\n{script}\nevents of the main shell: {ids:?}\nstderr:\n{}", problems.join("; "), out.err()),
                    );
                }
            }
        }
    }
}

pub fn run_c16b(ctx: &Ctx) {
    ctlrun::drive(ctx, if ctx.quick() { 80_000 } else { 1_500_000 }, C16_CFG, "C16B", false, false, 0, 1616);
    readonly_routes(ctx);
    attributes_from_functions(ctx);
    allexport_slice(ctx);
}

/// `readonly` and `export` inside a function (any depth) act on the variable that is visible there:
/// the global one unless a local hides it; value, read-only mark and export flag are then seen
/// inside the function and, for a global, persist after the return.
fn attributes_from_functions(ctx: &Ctx) {
    #[derive(Clone, Copy)]
    struct Want {
        value: &'static str,
        readonly: bool,
        exported: bool,
    }
    let w = |value: &'static str, readonly: bool, exported: bool| Want { value, readonly, exported };
    // (body of the function, variable looked at, state inside, state after the return)
    let cases: Vec<(&str, &str, Want, Want)> = vec![
        ("readonly g", "g", w("1", true, false), w("1", true, false)),
        ("readonly g=new", "g", w("new", true, false), w("new", true, false)),
        ("typeset g=l; readonly g", "g", w("l", true, false), w("1", false, false)),
        ("typeset g; readonly g=v", "g", w("v", true, false), w("1", false, false)),
        ("export g", "g", w("1", false, true), w("1", false, true)),
        ("export g=new", "g", w("new", false, true), w("new", false, true)),
        ("typeset g=l; export g", "g", w("l", false, true), w("1", false, false)),
        ("readonly h=new", "h", w("new", true, false), w("new", true, false)),
        ("export h=new", "h", w("new", false, true), w("new", false, true)),
        ("readonly h", "h", w("UNSET", true, false), w("UNSET", true, false)),
        ("export g; readonly g", "g", w("1", true, true), w("1", true, true)),
        ("g=2; readonly g", "g", w("2", true, false), w("2", true, false)),
        ("readonly g; typeset x=1", "g", w("1", true, false), w("1", true, false)),
        // (the first `=` separates name and value)
        ("export g=a=b", "g", w("a=b", false, true), w("a=b", false, true)),
        ("readonly h=x=y=z", "h", w("x=y=z", true, false), w("x=y=z", true, false)),
        ("typeset g=p=q; export g", "g", w("p=q", false, true), w("1", false, false)),
        ("typeset g==; readonly g", "g", w("=", true, false), w("1", false, false)),
        ("export g=", "g", w("", false, true), w("", false, true)),
    ];
    let wrappers = ["f() { BODY; LOOK; }\nf\n", "f2() { BODY; }\nf() { f2; LOOK; }\nf\n", "f() { if true; then { BODY; }; fi; LOOK; }\nf\n", "f() { BODY; LOOK; }\nx=t f\n", "f() { eval 'BODY'; LOOK; }\nf\n"];
    for (body, var, inside, after) in &cases {
        for (wi, wr) in wrappers.iter().enumerate() {
            // nested call: a `typeset` in f2 is local to f2, so f sees the global again
            let inside = if wi == 1 && body.contains("typeset g") { *after } else { *inside };
            let look = |tag: &str| format!("pvar {tag} {var}; ( {var}=zz; probe {tag}-written ) 2>/dev/null");
            let script = format!("g=1\n{}{}\n", wr.replace("BODY", body).replace("LOOK", &look("in")), look("out"));
            let out = crate::vsh::run_script(&script, Strategy::Fifo);
            ctx.eval();
            ctx.count("attributes_from_functions_cases", 1);
            let mut problems = Vec::new();
            for (tag, want) in [("in", inside), ("out", *after)] {
                let pv = out.events.iter().find(|e| e.kind == "probe" && e.args.first().map(|a| a.as_str()) == Some(tag));
                match pv {
                    None => problems.push(format!("no look at `{tag}`")),
                    Some(e) => {
                        let (val, exp) = (e.args.get(1).cloned().unwrap_or_default(), e.args.get(2).map(|s| s == "exported").unwrap_or(false));
                        if val != want.value {
                            problems.push(format!("{tag}: ${var} is {val:?}, expected {:?}", want.value));
                        }
                        if exp != want.exported {
                            problems.push(format!("{tag}: exported = {exp}, expected {}", want.exported));
                        }
                    }
                }
                let written = out.events.iter().any(|e| e.kind == "probe" && e.args.first().map(|a| a.as_str()) == Some(&format!("{tag}-written")));
                if written == want.readonly {
                    problems.push(format!("{tag}: an assignment to {var} {}, expected it to {}", if written { "succeeded" } else { "failed" }, if want.readonly { "fail (read-only)" } else { "succeed" }));
                }
            }
            if out.end != crate::vsh::End::Done {
                problems.push(format!("did not terminate: {:?}", out.end));
            }
            if problems.is_empty() {
                ctx.nontrivial_str(&format!("attrfn|{body}|{wi}"));
            } else {
                ctx.violation(
                    format!("attribute-from-function:{}", body.split(' ').next().unwrap_or("")),
                    format!("`{body}` inside a function: {}\nscript:\n{script}stderr:\n{}", problems.join("; "), out.err()),
                );
            }
        }
    }
}

/// `allexport`: every form of assignment performed while the option is on gives the variable the
/// export attribute (XCU 2.14 set -a: plain assignments, the `for` variable, `${v=w}`, `$((v=1))`,
/// `read`, `getopts`); with the option off none of them does, and turning it off again does not
/// take the attribute away.
fn allexport_slice(ctx: &Ctx) {
    // (how the variable v gets its value, the value)
    let forms: [(&str, &str); 9] = [
        ("v=1", "1"),
        ("for v in a b; do :; done", "b"),
        (": ${v=dflt}", "dflt"),
        (": ${v:=dflt}", "dflt"),
        (": $((v=7))", "7"),
        ("read v <<E\nline\nE", "line"),
        ("getopts ab v -a", "a"),
        ("v=1; v=2", "2"),
        ("for v in x; do for w in y; do :; done; done", "x"),
    ];
    let contexts = ["FORM", "{ FORM\n}", "f() { FORM\n}; f", "if true; then FORM\nfi", "eval 'FORM'"];
    for (form, value) in forms {
        for (ci, cx) in contexts.iter().enumerate() {
            // a here-document cannot sit inside the eval string / one-line contexts as rendered here
            if form.contains("<<") && ci != 0 {
                continue;
            }
            for on in [true, false] {
                let script = format!("unset v w\n{}\n{}\npvar during v\nset +a\npvar after v\n", if on { "set -a" } else { "set +a" }, cx.replace("FORM", form));
                let out = crate::vsh::run_script(&script, Strategy::Fifo);
                ctx.eval();
                ctx.count("allexport_cases", 1);
                let mut problems = Vec::new();
                for tag in ["during", "after"] {
                    match out.events.iter().find(|e| e.kind == "probe" && e.args.first().map(|a| a.as_str()) == Some(tag)) {
                        None => problems.push(format!("no look at `{tag}`")),
                        Some(e) => {
                            let (val, exp) = (e.args.get(1).cloned().unwrap_or_default(), e.args.get(2).map(|s| s == "exported").unwrap_or(false));
                            if val != value {
                                problems.push(format!("{tag}: $v is {val:?}, expected {value:?}"));
                            }
                            if exp != on {
                                problems.push(format!("{tag}: exported = {exp}, expected {on}"));
                            }
                        }
                    }
                }
                if out.end != crate::vsh::End::Done {
                    problems.push(format!("did not terminate: {:?}", out.end));
                }
                if problems.is_empty() {
                    ctx.nontrivial_str(&format!("allexport|{form}|{ci}|{on}"));
                } else {
                    ctx.violation(
                        format!("allexport:{}", form.split(' ').next().unwrap_or("")),
                        format!("`{form}` with allexport {}: {}\nscript:\n{script}stderr:\n{}", if on { "on" } else { "off" }, problems.join("; "), out.err()),
                    );
                }
            }
        }
    }
}

/// A read-only variable is never modified or unset by any route.
fn readonly_routes(ctx: &Ctx) {
    let routes: Vec<(&str, &str)> = vec![
        ("assignment", "ro=2"),
        ("prefix assignment on a regular built-in", "ro=2 probe k1"),
        ("prefix assignment on a special built-in", "ro=2 :"),
        ("prefix assignment on a function", "f() { :; }; ro=2 f"),
        ("${ro=2} (only assigns when unset: no change, no error)", "probe k1 ${ro=2}"),
        ("${ro:=2}", "probe k1 ${ro:=2}"),
        ("read", "read ro <<E\n2\nE"),
        ("for", "for ro in 2; do :; done"),
        ("unset", "unset ro"),
        ("unset -v", "unset -v ro"),
        ("typeset", "typeset ro=2"),
        ("typeset in function", "f() { typeset ro=2; probe k1 \"$ro\"; }; f"),
        ("export with value", "export ro=2"),
        ("readonly with value", "readonly ro=2"),
        ("getopts", "getopts a ro -a"),
        ("arithmetic assignment", "probe k1 $((ro=2))"),
        ("arithmetic increment", "probe k1 $((ro++))"),
        ("read into second var", "read x ro <<E\na b\nE"),
    ];
    for empty in [false, true] {
        for (name, cmd) in &routes {
            let value = if empty { "" } else { "1" };
            // each attempt in a subshell (it may abort the shell), then look at the variable in
            // the same subshell after the attempt (if it survives) and in the parent
            let script = format!(
                "readonly ro={value}\n({cmd}\nprobe k2 \"${{ro-UNSET}}\")\nprobe k3 \"${{ro-UNSET}}\"\n(readonly -p) | while read -r l; do case $l in *ro*) probe k4 \"$l\";; esac; done\n"
            );
            let out = crate::vsh::run_script(&script, Strategy::Fifo);
            ctx.eval();
            ctx.nontrivial_str(&format!("ro{empty}{name}"));
            for e in &out.events {
                let id = e.args.first().map(|s| s.as_str()).unwrap_or("");
                if (id == "k2" || id == "k3") && e.args.get(1).map(|s| s.as_str()) != Some(value) {
                    ctx.violation(
                        format!("readonly:{name}"),
                        format!("read-only variable ro={value:?} changed through {name}: `{cmd}` then saw {:?}\nscript:\n{script}", e.args.get(1)),
                    );
                }
            }
            if !out.events.iter().any(|e| e.args.first().map(|s| s.as_str()) == Some("k3")) {
                ctx.violation(
                    format!("readonly:parent-died:{name}"),
                    format!("the parent shell did not survive an attempt made in a subshell\nscript:\n{script}\nstderr: {}", out.err()),
                );
            }
        }
    }
    ctx.count("readonly_routes", (routes.len() * 2) as i64);
}

/// development tool: dump programs for cross-shell validation of the model
pub fn dump(which: &str, n: usize, seed: u64) {
    let (cfg, trap, syn) = match which {
        "c10" => (C10_CFG, true, true),
        "c16" => (C16_CFG, false, false),
        _ => (C02_CFG, false, false),
    };
    let mut rng = Rng::new(seed);
    let mut produced = 0;
    while produced < n {
        let budget = rng.range(6, 40) as i32;
        let nlines = rng.range(1, 5);
        let lines = {
            let mut g = m::Gen::new(&mut rng, cfg, budget);
            g.program(nlines)
        };
        // other shells have no lanes: skip programs with pipelines
        fn has_pipe(c: &Cmd) -> bool {
            match c {
                Cmd::Pipe(_) => true,
                Cmd::Seq(cs) => cs.iter().any(has_pipe),
                Cmd::AndOr(a, r) => has_pipe(a) || r.iter().any(|(_, c)| has_pipe(c)),
                Cmd::Not(c) | Cmd::Brace(c) | Cmd::Subshell(c) | Cmd::FuncDef(_, c) | Cmd::Dot { body: c, .. } => has_pipe(c),
                Cmd::If(arms, e) => arms.iter().any(|(a, b)| has_pipe(a) || has_pipe(b)) || e.as_ref().is_some_and(|e| has_pipe(e)),
                Cmd::Loop { body, .. } | Cmd::For { body, .. } => has_pipe(body),
                Cmd::Case { items, .. } => items.iter().any(|(_, b)| has_pipe(b)),
                Cmd::Temp { cmd, .. } => has_pipe(cmd),
                _ => false,
            }
        }
        if lines.iter().any(has_pipe) {
            continue;
        }
        let p = Prog {
            syntax_error_after: (syn && rng.chance(25)).then(|| rng.range(0, lines.len())),
            lines,
            trap,
            with_readonly: cfg.errors || cfg.vars,
            monitor: cfg.errors && rng.chance(25),
            stdin_tty_stderr: false,
        };
        let text = ctlrun::render(&p, &mut rng);
        let run_lines: &[Cmd] = match p.syntax_error_after {
            Some(k) => &p.lines[..k],
            None => &p.lines[..],
        };
        let mut want = m::run_program(run_lines, None);
        let mut l2 = run_lines.to_vec();
        l2.push(Cmd::Probe { id: 999_997, st: 0 });
        let reached_end = m::run_program(&l2, None).events.iter().any(|e| e.id == 999_997);
        if p.syntax_error_after.is_some() && reached_end {
            want.status = m::NZ;
        }
        let mut expect: Vec<String> = want
            .events
            .iter()
            .map(|e| {
                let st = if e.st == m::NZ { "!".to_string() } else { e.st.to_string() };
                let mut s = format!("k{} {st}", e.id);
                for a in &e.args {
                    // other shells cannot show the export flag
                    if a == "exported" || a == "-" {
                        continue;
                    }
                    s.push(' ');
                    s.push_str(a);
                }
                s
            })
            .collect();
        if p.trap {
            expect.push(format!("k999999 {}", if want.status == m::NZ { "!".to_string() } else { want.status.to_string() }));
        }
        let status = if want.status == m::NZ { "!".to_string() } else { want.status.to_string() };
        let j = J::obj(vec![("script", J::s(text)), ("expect", J::arr_s(expect)), ("status", J::s(status))]);
        println!("{}", j.render().replace('\n', " "));
        produced += 1;
    }
}

pub const RULE_C02: &str = "programs are generated from the model's AST (lists, and-or, !, multi-command pipelines, groups, subshells, if/elif/else, while/until with a countdown, for, case, functions, break/continue n, return, exit, true/false/not-found/external) with every leaf a probe, rendered with random surface syntax, run by the complete shell on the virtual system (FIFO and one random schedule with preemption) and compared with the reference interpreter: probe order per lane, $? at every probe, final exit status. Systematic part: every construct nested in every construct to depth 2 (quick) / 3 around each of 12 leaves (probe, break/continue 1-2, return, exit, false, not found). evaluations = program runs; distinct_nontrivial = distinct (enclosing-construct path, leaf kind) pairs exercised";
pub const RULE_C10: &str = "the C02 generator with failing commands of every category planted (redirection error on an ordinary command, 5 special-built-in errors, the same through `command`, assignment to a read-only variable, ${u?} expansion error, command not found, false, non-zero probes), set -e / set +e switched anywhere, a line with a syntax error planted after a random line, and `trap 'probe' EXIT`; compared with the reference interpreter extended with errexit contexts and the shell-error table: trace (what runs after which failure), $? seen by the EXIT trap, exactly one EXIT-trap run, exit status (non-zero where POSIX only says non-zero). Systematic part as C02 under set -e. evaluations = program runs; distinct_nontrivial = distinct (enclosing-construct path, leaf kind) pairs";
