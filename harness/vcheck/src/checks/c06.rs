//! C06 — the parser is total and printing a parsed command re-parses to the same tree.
//!
//! The real `Lexer`/`Parser::command_line` loop (the entry the shell uses) is fed line by line by
//! our own `Input` that counts `next_line` calls. Totality: outcome is a tree or a syntax error —
//! no panic, no runaway read-ahead, bounded CPU (a watchdog reads the worker thread's CPU clock).
//! Round trip: for every parsed command line T, parse(print(T)) == T with locations erased (a
//! balanced-brace scrubber over the `Debug` rendering, so it is exhaustive over node kinds), and
//! print(parse(print(T))) == print(T).

use crate::util::{Ctx, J, Rng};
use std::cell::Cell;
use std::rc::Rc;
use yash_env::input::{Context, Input};
use yash_syntax::parser::Parser;
use yash_syntax::parser::lex::Lexer;
use yash_syntax::syntax::List;
use futures_util::FutureExt as _;

struct CountingInput {
    lines: Vec<String>,
    pos: usize,
    calls: Rc<Cell<usize>>,
}

impl Input for CountingInput {
    async fn next_line(&mut self, _context: &Context) -> yash_env::input::Result {
        self.calls.set(self.calls.get() + 1);
        let l = self.lines.get(self.pos).cloned().unwrap_or_default();
        self.pos += 1;
        Ok(l)
    }
}

pub struct Parsed {
    pub lists: Vec<List>,
    pub error: Option<String>,
    pub next_line_calls: usize,
    pub nlines: usize,
}

/// Parse a whole text the way the shell's read-eval loop does (without executing).
pub fn parse_all(text: &str) -> Parsed {
    parse_all_with(text, &yash_syntax::alias::EmptyGlossary, 0)
}

/// the same with an alias glossary
pub fn parse_all_with(text: &str, aliases: &dyn yash_syntax::alias::Glossary, extra_lines: usize) -> Parsed {
    parse_all_mode(text, aliases, extra_lines, false)
}

/// `portable`: the parser mode of `set -o portable` (non-portable constructs are syntax errors)
pub fn parse_all_mode(text: &str, aliases: &dyn yash_syntax::alias::Glossary, extra_lines: usize, portable: bool) -> Parsed {
    let lines: Vec<String> = text.split_inclusive('\n').map(|s| s.to_string()).collect();
    let nlines = lines.len();
    let calls = Rc::new(Cell::new(0));
    let input = CountingInput {
        lines,
        pos: 0,
        calls: Rc::clone(&calls),
    };
    let mut lexer = Lexer::new(Box::new(input));
    if portable {
        let mut mode = lexer.mode();
        mode.portable = true;
        lexer.set_mode(mode);
    }
    let mut lists = Vec::new();
    let mut error = None;
    let mut guard = 0;
    loop {
        guard += 1;
        // (alias values may contain newlines: the caller says how many more command lines may arise)
        if guard > nlines + 10 + extra_lines {
            error = Some("harness: too many command lines".into());
            break;
        }
        if !lexer.pending() {
            lexer.flush();
        }
        let mut parser = Parser::config().aliases(aliases).input(&mut lexer);
        let r = parser.command_line().now_or_never();
        match r {
            None => {
                error = Some("harness: parser future pending".into());
                break;
            }
            Some(Ok(Some(list))) => lists.push(list),
            Some(Ok(None)) => break,
            Some(Err(e)) => {
                error = Some(format!("{:?}", e.cause));
                break;
            }
        }
    }
    Parsed {
        lists,
        error,
        next_line_calls: calls.get(),
        nlines,
    }
}

/// Replace every `Location { ... }` (balanced braces) in a Debug rendering by `_`.
pub fn scrub(s: &str) -> String {
    let b = s.as_bytes();
    let mut out = String::with_capacity(s.len() / 2);
    let pat = b"Location {";
    let mut i = 0;
    while i < b.len() {
        if b[i..].starts_with(pat) {
            // skip to the matching brace; strings inside may contain braces: handle quotes
            let mut depth = 0i32;
            let mut j = i + pat.len() - 1;
            let mut in_str = false;
            while j < b.len() {
                let c = b[j];
                if in_str {
                    if c == b'\\' {
                        j += 1;
                    } else if c == b'"' {
                        in_str = false;
                    }
                } else if c == b'"' {
                    in_str = true;
                } else if c == b'{' {
                    depth += 1;
                } else if c == b'}' {
                    depth -= 1;
                    if depth == 0 {
                        break;
                    }
                }
                j += 1;
            }
            out.push('_');
            i = j + 1;
        } else {
            // copy one UTF-8 char
            let ch_len = match b[i] {
                x if x < 0x80 => 1,
                x if x >= 0xF0 => 4,
                x if x >= 0xE0 => 3,
                _ => 2,
            };
            out.push_str(&s[i..(i + ch_len).min(s.len())]);
            i += ch_len;
        }
    }
    out
}

fn has_here_doc(debug: &str) -> bool {
    debug.contains("HereDoc")
}

// ------------------------------------------------------------------ grammar-based generator

pub struct G<'a> {
    pub rng: &'a mut Rng,
    /// here-document bodies waiting for the next newline
    pub pending: Vec<String>,
    pub budget: i32,
}

const NAMES: [&str; 5] = ["a", "b", "x1", "_v", "foo"];
const LITS: [&str; 14] = ["a", "b", "c", "echo", "x", "1", "2", "-n", "--", "a.b", "=", "in", "do2", "%"];

impl G<'_> {
    fn name(&mut self) -> &'static str {
        self.rng.pick(&NAMES)
    }
    fn nl(&mut self) -> String {
        let mut s = String::from("\n");
        for b in self.pending.drain(..) {
            s.push_str(&b);
        }
        s
    }
    fn word(&mut self, depth: u32) -> String {
        let n = self.rng.range(1, 3);
        let mut s = String::new();
        for _ in 0..n {
            s.push_str(&self.unit(depth));
        }
        s
    }
    fn unit(&mut self, depth: u32) -> String {
        self.budget -= 1;
        let r = if depth == 0 || self.budget < 0 { self.rng.below(6) } else { self.rng.below(22) };
        match r {
            0..=2 => self.rng.pick(&LITS).to_string(),
            3 => format!("\\{}", self.rng.pick(&["a", " ", "$", "\\", "\"", "'", "*", ";", "\n"])),
            4 => format!("'{}'", self.rng.pick(&["", "a b", "$x", "\\", "\"", ";|&", "\n"])),
            5 => format!("${}", self.rng.pick(&["a", "x1", "1", "@", "*", "#", "?", "-", "$", "!", "0"])),
            6 => {
                let mut s = String::from("\"");
                for _ in 0..self.rng.range(0, 3) {
                    match self.rng.below(5) {
                        0 => s.push_str(self.rng.pick(&["a", " ", "'", "*", ";", "\n", "}"])),
                        1 => s.push_str(&format!("\\{}", self.rng.pick(&["$", "\"", "\\", "`", "a", "\n"]))),
                        _ => {
                            let u = self.param(depth - 1);
                            s.push_str(&u)
                        }
                    }
                }
                s.push('"');
                s
            }
            7..=10 => self.param(depth - 1),
            11 | 12 => format!("$({})", self.clist(depth - 1, false)),
            13 => format!("`{}`", self.simple_plain()),
            14 | 15 => format!("$(({}))", self.arith()),
            16 => format!("$'{}'", self.rng.pick(&["a", "\\n", "\\x41", "\\101", "\\'", "\\\\", "\\u00e9", "\\cA", "a\\tb", "\\e", "\\c\\\\", "\\c?", "\\c[", "\\c@", "\\cz", "\\\"", "\\x7", "\\0", "\\U0001F600", "a\\\\'b'", "\\x41414141414", "\\xFFFFFFFFFFFFFFFFF", "\\u12345", "\\U123456789", "\\uFFFF", "\\U0000FFFF", "\\U00010000", "\\U00010001", "\\U0010FFFF", "\\U00110000", "\\uD800", "\\U0000DFFF", "\\x80", "\\xFF", "\\377", "\\400", "\\u0080", "\\u07FF", "\\u0800", "\\7777", "\\x", "\\u", "\\c"])),
            17 => "~".to_string(),
            18 => format!("{}*{}?", self.rng.pick(&LITS), self.rng.pick(&["[ab]", "[!a-c]", "[[:alpha:]]", ""])),
            _ => self.rng.pick(&LITS).to_string(),
        }
    }
    fn param(&mut self, depth: u32) -> String {
        let n = *self.rng.pick(&["a", "x1", "foo", "1", "@", "*", "#", "?"]);
        if depth == 0 {
            return format!("${{{n}}}");
        }
        match self.rng.below(9) {
            0 => format!("${{{n}}}"),
            1 => format!("${{#{}}}", self.name()),
            2 | 3 => format!("${{{n}{}{}{}}}", if self.rng.chance(50) { ":" } else { "" }, self.rng.pick(&["-", "=", "?", "+"]), self.word(depth)),
            4 | 5 => format!("${{{n}{}{}}}", self.rng.pick(&["#", "##", "%", "%%"]), self.word(depth)),
            6 => format!("${{{n}:-}}"),
            _ => format!("${n}"),
        }
    }
    fn arith(&mut self) -> String {
        self.rng.pick(&["1+2", "a*3", " x1 ", "(1<<2)|a", "a?b:c", "$a+1", "a=1", "1 + (2 * 3)", "$(echo 1)+1", ""]).to_string()
    }
    fn redir(&mut self, depth: u32) -> String {
        // (descriptor numbers around the limits of the integer types: each is either a syntax error or
        // comes back as the same number)
        let fd = if self.rng.chance(30) { self.rng.pick(&["0", "1", "2", "3", "9", "12", "00", "010", "2147483647", "2147483648", "4294967295", "4294967296", "99999999999"]).to_string() } else { String::new() };
        match self.rng.below(10) {
            0..=4 => format!("{fd}{}{}", self.rng.pick(&["<", ">", ">>", ">|", "<>"]), self.word(depth.min(1))),
            5 if self.rng.chance(25) => format!("{fd}>>|{}", self.rng.pick(&["4", "0", "$fd", "12"])),
            5 => format!("{fd}{}{}", self.rng.pick(&["<&", ">&"]), self.rng.pick(&["1", "2", "-", "$fd"])),
            6 | 7 => {
                let (op, delim, quoted) = *self.rng.pick(&[("<<", "EOF", false), ("<<-", "END", false), ("<<", "'E'", true), ("<<", "\\X", true), ("<<-", "\"Q\"", true)]);
                let d = delim.trim_matches(|c| c == '\'' || c == '"' || c == '\\');
                let mut body = String::new();
                for _ in 0..self.rng.range(0, 2) {
                    if op == "<<-" && self.rng.chance(50) {
                        body.push('\t');
                    }
                    body.push_str(self.rng.pick(&["plain line", "with $a and $(echo x)", "back\\slash `cmd`", "", "}"]));
                    body.push('\n');
                }
                let _ = quoted;
                if op == "<<-" && self.rng.chance(50) {
                    body.push('\t');
                }
                body.push_str(d);
                body.push('\n');
                self.pending.push(body);
                format!("{fd}{op}{delim}")
            }
            8 if self.rng.chance(5) => format!("{fd}>(echo)"),
            _ => format!("{fd}<{}", self.word(0)),
        }
    }
    fn simple_plain(&mut self) -> String {
        format!("{} {}", self.rng.pick(&LITS), self.rng.pick(&LITS))
    }
    fn simple(&mut self, depth: u32) -> String {
        let mut parts: Vec<String> = Vec::new();
        for _ in 0..self.rng.below(3) {
            if self.rng.chance(40) {
                let v = if self.rng.chance(15) {
                    format!("({} {})", self.word(depth.min(1)), self.word(depth.min(1)))
                } else if self.rng.chance(20) {
                    String::new()
                } else {
                    self.word(depth.min(2))
                };
                parts.push(format!("{}={}", self.name(), v));
            }
        }
        if self.rng.chance(20) && !parts.is_empty() {
            // assignment-only command
        } else {
            // a command name that is not a reserved word
            parts.push(self.rng.pick(&["echo", "cmd", ":", "x", "export", "typeset", "\\if", "'then'", "$c", "a.b"]).to_string());
            for _ in 0..self.rng.below(4) {
                let w = self.word(depth);
                parts.push(w);
            }
        }
        // a command whose name is a reserved word is legal when a redirection (or assignment) comes first
        if self.rng.chance(6) {
            let kw = *self.rng.pick(&["fi", "then", "else", "elif", "do", "done", "esac", "}", "{", "if", "while", "until", "for", "case", "in", "!", "function"]);
            // (what precedes the reserved word: a redirection, an assignment, or both)
            let mut v = Vec::new();
            match self.rng.below(3) {
                0 => v.push(self.redir(depth.min(1))),
                1 => v.push(format!("{}={}", self.name(), self.word(depth.min(1)))),
                _ => {
                    v.push(format!("{}={}", self.name(), self.word(depth.min(1))));
                    v.push(self.redir(depth.min(1)));
                }
            }
            v.push(kw.to_string());
            for _ in 0..self.rng.below(3) {
                v.push(self.word(depth.min(1)));
            }
            return v.join(" ");
        }
        // redirections anywhere
        for _ in 0..self.rng.below(3) {
            if self.rng.chance(35) {
                let r = self.redir(depth);
                let at = self.rng.range(0, parts.len());
                parts.insert(at, r);
            }
        }
        parts.join(" ")
    }
    fn sep(&mut self) -> String {
        match self.rng.below(4) {
            0 => self.nl(),
            1 => ";".into(),
            _ => "; ".into(),
        }
    }
    /// compound list (inside braces etc.); `top` = may end without terminator
    fn clist(&mut self, depth: u32, _top: bool) -> String {
        let n = self.rng.range(1, 3);
        let mut s = String::new();
        let mut amp = false;
        for i in 0..n {
            if i > 0 {
                // `&` is itself a separator: `cmd &;` is a syntax error
                if amp {
                    s.push(' ');
                } else {
                    s.push_str(&self.sep());
                }
            }
            s.push_str(&self.andor(depth));
            amp = i + 1 < n && self.rng.chance(15);
            if amp {
                s.push_str(" &");
            }
        }
        s
    }
    fn andor(&mut self, depth: u32) -> String {
        let mut s = self.pipeline(depth);
        for _ in 0..self.rng.below(2) {
            s.push_str(self.rng.pick(&[" && ", " || ", "&&", "||"]));
            if self.rng.chance(15) {
                s.push_str(&self.nl());
            }
            s.push_str(&self.pipeline(depth));
        }
        s
    }
    fn pipeline(&mut self, depth: u32) -> String {
        let mut s = String::new();
        if self.rng.chance(12) {
            s.push_str("! ");
        }
        s.push_str(&self.command(depth));
        for _ in 0..self.rng.below(2) {
            s.push_str(self.rng.pick(&[" | ", "|"]));
            if self.rng.chance(15) {
                s.push_str(&self.nl());
            }
            s.push_str(&self.command(depth));
        }
        s
    }
    fn term(&mut self) -> String {
        if self.rng.chance(30) { self.nl() } else { "; ".into() }
    }
    fn command(&mut self, depth: u32) -> String {
        self.budget -= 1;
        if depth == 0 || self.budget < 0 || self.rng.chance(50) {
            return self.simple(depth);
        }
        self.compound(depth)
    }
    /// a compound command (or function definition) followed by optional redirections
    pub fn compound(&mut self, depth: u32) -> String {
        let d = depth.max(1) - 1;
        let mut s = match self.rng.below(10) {
            0 => format!("{{ {}{}}}", self.clist(d, false), self.term()),
            1 => format!("({})", self.clist(d, false)),
            2 => {
                let mut s = format!("if {}{}then {}{}", self.clist(d, false), self.term(), self.clist(d, false), self.term());
                for _ in 0..self.rng.below(2) {
                    s.push_str(&format!("elif {}{}then {}{}", self.clist(d, false), self.term(), self.clist(d, false), self.term()));
                }
                if self.rng.chance(50) {
                    s.push_str(&format!("else {}{}", self.clist(d, false), self.term()));
                }
                s.push_str("fi");
                s
            }
            3 => format!("{} {}{}do {}{}done", self.rng.pick(&["while", "until"]), self.clist(d, false), self.term(), self.clist(d, false), self.term()),
            4 | 5 => {
                let words = match self.rng.below(3) {
                    0 => String::new(),
                    1 => " in".to_string(),
                    _ => format!(" in {} {}", self.word(d), self.word(d)),
                };
                format!("for {}{words}{}do {}{}done", self.name(), self.term(), self.clist(d, false), self.term())
            }
            6 | 7 => {
                let mut s = format!("case {} in ", self.word(d));
                for _ in 0..self.rng.below(3) {
                    if self.rng.chance(40) {
                        s.push('(');
                    }
                    s.push_str(&self.word(1));
                    if self.rng.chance(30) {
                        s.push('|');
                        s.push_str(&self.word(1));
                    }
                    s.push_str(") ");
                    if self.rng.chance(80) {
                        s.push_str(&self.clist(d, false));
                    }
                    s.push_str(self.rng.pick(&[" ;; ", ";;\n", " ;& ", " ;;& ", " ;| "]));
                }
                s.push_str("esac");
                s
            }
            8 => format!("{}{}{}() {}", if self.rng.chance(8) { *self.rng.pick(&["a=1 ", ">x ", "x "]) } else { "" }, if self.rng.chance(12) { *self.rng.pick(&["f$", "a.b", "'q'", "x\\*", "$v", "\"d\"", "f$ ", "-x", "~u", "a=b"]) } else { self.name() }, if self.rng.chance(10) { " " } else { "" }, {
                let b = self.clist(d, false);
                let t = self.term();
                format!("{{ {b}{t}}}")
            }),
            _ => format!("{{ {}{}}}", self.simple(d), self.term()),
        };
        for _ in 0..self.rng.below(2) {
            if self.rng.chance(30) {
                s.push(' ');
                s.push_str(&self.redir(d));
            }
        }
        s
    }
    fn program(&mut self) -> String {
        let mut s = String::new();
        for _ in 0..self.rng.range(1, 4) {
            match self.rng.below(10) {
                0 => s.push_str("# a comment ' \" { (\n"),
                1 => s.push('\n'),
                _ => {
                    s.push_str(&self.clist(3, true));
                    if self.rng.chance(10) {
                        s.push_str(" # trailing comment");
                    }
                    s.push_str(&self.nl());
                }
            }
        }
        s
    }
}

fn mutate(text: &str, rng: &mut Rng) -> String {
    let chars: Vec<char> = text.chars().collect();
    if chars.is_empty() {
        return text.to_string();
    }
    let mut c = chars.clone();
    for _ in 0..rng.range(1, 3) {
        if c.is_empty() {
            break;
        }
        let i = rng.below(c.len() as u64) as usize;
        match rng.below(7) {
            0 => {
                c.remove(i);
            }
            1 => {
                let j = rng.below(c.len() as u64) as usize;
                c.swap(i, j);
            }
            2 => {
                let x = c[i];
                c.insert(i, x);
            }
            3 => c.insert(i, *rng.pick(&['\'', '"', '`', '(', ')', '{', '}', '$', '\\', ';', '&', '|', '<', '>', '\n', '#', '!'])),
            4 => {
                // delete a whole word
                let mut j = i;
                while j < c.len() && !c[j].is_whitespace() {
                    j += 1;
                }
                c.drain(i..j);
            }
            5 => {
                let kw: Vec<char> = rng.pick(&["fi", "done", "esac", "then", "do", "if ", "case ", "in", "}", "{ ", "<<E", "$((", "${"]).chars().collect();
                for (k, ch) in kw.into_iter().enumerate() {
                    c.insert((i + k).min(c.len()), ch);
                }
            }
            _ => {
                // truncate
                c.truncate(i);
            }
        }
    }
    c.into_iter().collect()
}

fn soup(rng: &mut Rng) -> String {
    let mut s = String::new();
    let n = rng.range(0, 40);
    for _ in 0..n {
        let c = match rng.below(6) {
            0 => *rng.pick(&['$', '{', '}', '(', ')', '`', '\'', '"', '\\', '<', '>', '|', '&', ';', '#', '!', '*', '?', '[', ']', '~', '=', '%', '+', '-', ':']),
            1 => *rng.pick(&['\n', ' ', '\t']),
            2 => char::from_u32(rng.below(0x80) as u32).unwrap_or('a'),
            3 => char::from_u32(0xa0 + rng.below(0x2000) as u32).unwrap_or('é'),
            4 => *rng.pick(&['１', '٣', '²', '½', 'é', '日', '\u{3000}', '\u{feff}', '\u{200b}', '🙂', '\u{0}', '\r']),
            _ => *rng.pick(&['a', 'b', 'i', 'f', 'x', '1', '0']),
        };
        s.push(c);
    }
    s
}

fn deep_nesting() -> Vec<(String, String)> {
    let mut v = Vec::new();
    for depth in [50usize, 100, 200] {
        let mk = |open: &str, close: &str, inner: &str| format!("{}{}{}\n", open.repeat(depth), inner, close.repeat(depth));
        v.push((format!("subshells x{depth}"), mk("( ", " )", "echo a")));
        v.push((format!("brace groups x{depth}"), mk("{ ", "; }", "echo a")));
        v.push((format!("command substitutions x{depth}"), mk("echo $(", ")", "echo a")));
        v.push((format!("parameter expansions x{depth}"), mk("echo ${a:-", "}", "b")));
        v.push((format!("quoted parameter expansions x{depth}"), mk("echo \"${a:-", "}\"", "b")));
        v.push((format!("arithmetic parentheses x{depth}"), format!("echo $(({}1{}))\n", "(".repeat(depth), ")".repeat(depth))));
        v.push((format!("if nesting x{depth}"), format!("{}echo a{}\n", "if ".repeat(depth), "; then :; fi".repeat(depth))));
        v.push((format!("function definitions x{depth}"), format!("{}echo a\n", "f() ".repeat(depth))));
        v.push((format!("negations/pipes x{depth}"), format!("{}\n", vec!["a"; depth].join(" | "))));
        v.push((format!("and-or x{depth}"), format!("{}\n", vec!["a"; depth].join(" && "))));
        v.push((format!("backquotes in substitutions x{depth}"), mk("echo \"$(", ")\"", "echo `echo a`")));
        v.push((format!("nested arithmetic expansions x{depth}"), mk("echo $((", "))", "1")));
        v.push((format!("arithmetic expansions in parentheses x{depth}"), mk("echo $(( (", ") ))", "1")));
        v.push((format!("substitution inside arithmetic x{depth}"), mk("echo $(( $(", ") ))", "echo 1")));
        v.push((format!("unclosed x{depth}"), "( ".repeat(depth)));
        v.push((format!("unclosed braces x{depth}"), "${a:-".repeat(depth)));
    }
    v
}

/// Check one input text. Returns (parsed lists, violations reported).
fn check_text(ctx: &Ctx, text: &str, origin: &str) {
    crate::util::guard_case(|| format!("{origin}: input text {text:?}"));
    check_text_inner(ctx, text, origin);
    crate::util::unguard_case();
}

fn check_text_inner(ctx: &Ctx, text: &str, origin: &str) {
    ctx.eval();
    crate::util::LAST_PANIC_LOC.with(|l| l.borrow_mut().clear());
    let t = text.to_string();
    let r = std::panic::catch_unwind(move || parse_all(&t));
    let parsed = match r {
        Ok(p) => p,
        Err(e) => {
            let msg = crate::util::panic_msg(&e);
            ctx.violation(
                format!("panic:{}", msg.split(": ").next().unwrap_or("")),
                format!("{origin}: the parser panicked: {msg}\ninput ({} bytes):\n{text:?}", text.len()),
            );
            return;
        }
    };
    // totality in the portable parser mode as well (the round trip is checked in the default mode)
    {
        let t = text.to_string();
        let r = std::panic::catch_unwind(move || parse_all_mode(&t, &yash_syntax::alias::EmptyGlossary, 0, true));
        match r {
            Ok(p) => {
                if p.next_line_calls > p.nlines + 2 {
                    ctx.violation("read-ahead:portable-mode", format!("{origin}: portable mode: the parser asked for {} lines, the input has {}\ninput:\n{text:?}", p.next_line_calls, p.nlines));
                }
            }
            Err(e) => {
                let msg = crate::util::panic_msg(&e);
                ctx.violation(
                    format!("panic:portable-mode:{}", msg.split(": ").next().unwrap_or("")),
                    format!("{origin}: the parser panicked in portable mode: {msg}\ninput ({} bytes):\n{text:?}", text.len()),
                );
                return;
            }
        }
    }
    if let Some(e) = &parsed.error {
        if e.starts_with("harness:") {
            ctx.violation("runaway-command-lines", format!("{origin}: {e}\ninput:\n{text:?}"));
            return;
        }
    }
    // read-ahead bound: every line at most once, plus the end-of-input probe(s)
    if parsed.next_line_calls > parsed.nlines + 2 {
        ctx.violation(
            "read-ahead",
            format!("{origin}: the parser asked for {} lines, the input has {}\ninput:\n{text:?}", parsed.next_line_calls, parsed.nlines),
        );
        return;
    }
    ctx.count("command_lines_parsed", parsed.lists.len() as i64);
    if let Some(e) = &parsed.error {
        ctx.count("inputs_ending_in_syntax_error", 1);
        if origin == "grammar-generated" {
            ctx.count("grammar_generated_inputs_ending_in_syntax_error", 1);
            if std::env::var_os("C06_DEBUG_ERRORS").is_some() {
                eprintln!("C06ERR\t{e}\t{:?}", text);
            }
        }
    }
    // round trip
    for list in &parsed.lists {
        let dbg1 = format!("{list:?}");
        let printed = list.to_string();
        if has_here_doc(&dbg1) {
            ctx.count("round_trips_skipped_here_document", 1);
            continue;
        }
        let p2 = printed.clone();
        let r2 = std::panic::catch_unwind(move || parse_all(&p2));
        let Ok(re) = r2 else {
            ctx.violation("panic:reparse", format!("{origin}: re-parsing the printed form panicked\nprinted: {printed:?}\noriginal input:\n{text:?}"));
            continue;
        };
        if re.error.is_some() || re.lists.len() != 1 {
            // an empty list prints as "" and re-parses to nothing
            if re.error.is_none() && re.lists.is_empty() && printed.trim().is_empty() {
                continue;
            }
            ctx.violation(
                "print-not-reparsable",
                format!(
                    "{origin}: the printed form does not parse back to one command line ({} lists, error {:?})\nprinted: {printed:?}\ntree: {}\noriginal input:\n{text:?}",
                    re.lists.len(),
                    re.error,
                    scrub(&dbg1)
                ),
            );
            continue;
        }
        let s1 = scrub(&dbg1);
        let s2 = scrub(&format!("{:?}", re.lists[0]));
        if s1 != s2 {
            // find first difference for the report
            let k = s1.bytes().zip(s2.bytes()).position(|(a, b)| a != b).unwrap_or(s1.len().min(s2.len()));
            let lo = k.saturating_sub(120);
            let cut = |s: &str| -> String { s.chars().skip(lo).take(300).collect() };
            // a backslash that ends the input is kept as a literal `\` unit; name this input class
            let sig = if s1.contains("Unquoted(Literal('\\\\'))") { "round-trip:backslash-at-end-of-input" } else { "round-trip-tree-differs" };
            ctx.violation(
                sig,
                format!(
                    "{origin}: parse(print(T)) != T\nprinted: {printed:?}\nfirst difference near byte {k}:\n  original : ...{}\n  re-parsed: ...{}\noriginal input:\n{text:?}",
                    cut(&s1),
                    cut(&s2)
                ),
            );
            continue;
        }
        let printed2 = re.lists[0].to_string();
        if printed2 != printed {
            ctx.violation(
                "print-not-idempotent",
                format!("{origin}: print(parse(print(T))) != print(T)\nfirst:  {printed:?}\nsecond: {printed2:?}"),
            );
            continue;
        }
        ctx.count("round_trips_verified", 1);
        ctx.nontrivial(crate::util::fnv_str(&s1));
    }
}

pub fn run(ctx: &Ctx) {
    let quick = ctx.quick();
    let seed = ctx.seed;
    // 1. deep nesting (sequential; the input in flight is written to a file so that a crash of the
    //    whole process - stack overflow - can be attributed)
    let out_dir = std::env::var("VERIF_OUT").or_else(|_| std::env::var("VERIF_DIR")).unwrap_or_else(|_| "/verif".into());
    let inflight = format!("{out_dir}/replay/C06/inflight.txt");
    std::fs::create_dir_all(format!("{out_dir}/replay/C06")).ok();
    for (name, text) in deep_nesting() {
        std::fs::write(&inflight, format!("property=C06\nsignature=process-crash\n---\ninput in flight when the process died ({name}):\n{text}")).ok();
        let t2 = text.clone();
        let n2 = name.clone();
        // run on a thread with the default main-thread-like stack (8 MiB): the shell parses on its
        // main thread
        let h = std::thread::Builder::new().stack_size(8 << 20).spawn(move || {
            crate::util::LAST_PANIC_LOC.with(|l| l.borrow_mut().clear());
            std::panic::catch_unwind(|| {
                let p = parse_all(&t2);
                (p.next_line_calls, p.nlines)
            })
            .map_err(|e| crate::util::panic_msg(&e))
        });
        let r = h.unwrap().join();
        ctx.eval();
        match r {
            Ok(Ok((calls, nlines))) => {
                if calls > nlines + 2 {
                    ctx.violation("read-ahead", format!("deep nesting {n2}: {calls} next_line calls for {nlines} lines"));
                }
                ctx.nontrivial_str(&name);
            }
            Ok(Err(msg)) => ctx.violation(format!("panic:{}", msg.split(": ").next().unwrap_or("")), format!("deep nesting {n2}: parser panicked: {msg}")),
            Err(_) => ctx.violation("thread-died", format!("deep nesting {n2}: parser thread died")),
        }
    }
    std::fs::remove_file(&inflight).ok();
    // 2. corpus: every script of the repository's scripted tests, and every here-document in them
    let mut corpus: Vec<(String, String)> = Vec::new();
    if let Ok(rd) = std::fs::read_dir("/repo/yash-cli/tests/scripted_test") {
        let mut files: Vec<_> = rd.flatten().map(|e| e.path()).filter(|p| p.extension().is_some_and(|e| e == "sh")).collect();
        files.sort();
        for f in files {
            if let Ok(t) = std::fs::read_to_string(&f) {
                let name = f.file_name().unwrap().to_string_lossy().into_owned();
                // the embedded test scripts are here-document bodies between `<<\__IN__` style markers
                let mut cur: Option<(String, String)> = None;
                for line in t.lines() {
                    if let Some((d, body)) = cur.as_mut() {
                        if line.trim() == d.as_str() {
                            corpus.push((format!("{name} (embedded script)"), std::mem::take(body)));
                            cur = None;
                        } else {
                            body.push_str(line);
                            body.push('\n');
                        }
                        continue;
                    }
                    if let Some(i) = line.find("<<") {
                        let d = line[i + 2..].trim_start_matches('-').trim_start_matches('\\').trim_matches(|c| c == '\'' || c == '"');
                        let d = d.split_whitespace().next().unwrap_or("");
                        if d.starts_with("__") {
                            cur = Some((d.to_string(), String::new()));
                        }
                    }
                }
                corpus.push((name, t));
            }
        }
    }
    // inputs that exposed defects earlier (fixed ones must stay silent; the known one is re-observed on every run)
    for (i, t) in ["echo ${", "echo ${#", "echo \"${", ": 3<2 '\\'$$\\", "<x a\\", "echo a\\", "\\"].iter().enumerate() {
        corpus.push((format!("regression input #{i}"), t.to_string()));
    }
    // boundaries of number ranges: code points around the 4-digit/8-digit escape forms and the
    // surrogates, descriptor numbers around the limits of the integer types
    for (i, t) in [
        "echo $'\\uFFFF' $'\\U00010000' $'\\U00010001' $'\\U0010FFFF' $'\\U0000FFFF'",
        "echo $'\\U00110000'",
        "echo $'\\uD800'",
        "echo $'\\uD7FF\\uE000' $'a\\U000100000'",
        "echo $'\\377\\400\\xFF\\x100\\u0080\\u07FF\\u0800'",
        "echo 2147483647>f",
        "echo 2147483648>f",
        "echo 4294967295>f",
        "echo 4294967296<f",
        "echo 18446744073709551615>>f 18446744073709551616<&1",
        "echo 007>f 0>f 00>&1",
    ]
    .iter()
    .enumerate()
    {
        corpus.push((format!("boundary input #{i}"), t.to_string()));
    }
    ctx.count("corpus_texts", corpus.len() as i64);
    let corpus = &corpus;
    ctx.par_for(
        corpus.len(),
        |i| check_text(ctx, &corpus[i].1, &format!("corpus {}", corpus[i].0)),
        |i, msg| ctx.violation("harness-panic", format!("corpus {i}: {msg}")),
    );
    // 3. grammar-generated programs, their mutations, and soup
    let n: usize = if quick { 60_000 } else { 2_000_000 };
    ctx.par_for(
        n.div_ceil(100),
        |chunk| {
            let mut rng = Rng::new(seed.wrapping_mul(0xC06).wrapping_add(chunk as u64));
            for k in 0..100 {
                let text = {
                    let mut g = G {
                        rng: &mut rng,
                        pending: Vec::new(),
                        budget: 60,
                    };
                    let mut t = g.program();
                    let tail = g.nl();
                    if tail.len() > 1 {
                        t.push_str(&tail);
                    }
                    t
                };
                match k % 10 {
                    0..=4 => check_text(ctx, &text, "grammar-generated"),
                    5..=7 => {
                        let m = mutate(&text, &mut rng);
                        check_text(ctx, &m, "mutation");
                    }
                    8 => {
                        let m = mutate(&mutate(&text, &mut rng), &mut rng);
                        check_text(ctx, &m, "double mutation");
                    }
                    _ => {
                        let s = soup(&mut rng);
                        check_text(ctx, &s, "soup");
                    }
                }
                if chunk % 150 == 0 && k == 0 {
                    ctx.sample(J::obj(vec![("kind", J::s("grammar-generated")), ("text", J::s(text))]));
                }
            }
        },
        |i, msg| ctx.violation("harness-panic", format!("chunk {i}: {msg}")),
    );
    ctx.assume("tree equality = equality of the Debug renderings with every `Location { .. }` replaced (balanced-brace scrubber)");
    ctx.assume("command lines containing here-documents are parsed (totality) but not round-tripped: the single-line form omits their bodies by design");
    ctx.assume("non-termination: the ./check wrapper runs the monitor under a CPU-time limit; exceeding it is reported as a violation with the input in flight");
}

pub const RULE: &str = "inputs: (1) 48 deep-nesting texts (16 constructs x depth 50/100/200, on an 8 MiB stack like the shell's main thread); (2) the 100 files of yash-cli/tests/scripted_test and every test script embedded in them as a here-document; (3) programs derived from a text-level grammar covering simple commands with assignments (incl. arrays) and redirections in every position, all compound commands, function definitions, every case terminator, all word units (escapes, quotes, parameters with every modifier, $(), backquotes, $(()), $'', ~, globs), here-documents (<<, <<-, quoted delimiters), comments, line continuations after operators; (4) single and double mutations (delete/swap/duplicate characters, insert metacharacters or keywords, drop words, truncate); (5) byte/Unicode soup. Each input is parsed by the real Lexer/Parser::command_line loop through a line-counting Input: panic, read-ahead beyond lines+2 and runaway are violations; every parsed command line T without here-documents is printed, re-parsed and compared (scrubbed Debug equality + textual idempotence). evaluations = input texts; distinct_nontrivial = distinct trees that completed the round trip";
