//! C09 — redirections apply in order, last one command, leave no descriptor behind.
//!
//! Reference model (fd-table algebra over abstract open-file descriptions): the table during the
//! command is the table before with the redirections applied left to right; the table after is
//! the table before (except for `exec`); files end up with the modelled contents.
//! Fault enumeration: every scenario is re-run with the soft RLIMIT_NOFILE lowered to every value
//! between the highest open descriptor + 1 and 20, so that every descriptor allocation (saving
//! copies at >= 10, open, pipe / temporary file of a here-document) fails at every position.

use crate::sched::Strategy;
use crate::util::{Ctx, J, Rng};
use crate::vsh::{self, FileSpec};
use std::collections::BTreeMap;

#[derive(Clone, Debug, PartialEq)]
pub enum Op {
    In,      // <
    Out,     // >
    Clobber, // >|
    Append,  // >>
    InOut,   // <>
    DupIn,   // <&
    DupOut,  // >&
    HereDoc, // <<
}

#[derive(Clone, Debug)]
struct Redir {
    fd: i32,
    op: Op,
    /// file path, or fd number as text, or "-" (close)
    operand: String,
    /// how the operand is spelled: 0 literally, 1 `"$(echo X)"`, 2 backquotes, 3 `"${unset_var:-X}"`.
    /// The operand of the n-th redirection is expanded after redirections 1..n-1 have been
    /// performed, so a substitution runs with the descriptors as they are at that point.
    via: u8,
}

impl Redir {
    fn text(&self) -> String {
        let op = match self.op {
            Op::In => "<",
            Op::Out => ">",
            Op::Clobber => ">|",
            Op::Append => ">>",
            Op::InOut => "<>",
            Op::DupIn => "<&",
            Op::DupOut => ">&",
            Op::HereDoc => "<<",
        };
        if self.op == Op::HereDoc {
            format!("{}<<{}", self.fd, self.operand)
        } else {
            let operand = match self.via {
                1 => format!("\"$(echo {})\"", self.operand),
                2 => format!("`echo {}`", self.operand),
                3 => format!("\"${{c09_unset_variable:-{}}}\"", self.operand),
                _ => self.operand.clone(),
            };
            format!("{}{}{}", self.fd, op, operand)
        }
    }
}

/// abstract descriptor: where its open file description comes from
#[derive(Clone, Debug, PartialEq)]
enum Src {
    /// the open file description that fd N had before the command
    Orig(i32),
    /// a new open file description on `path` with access "r" / "w" / "rw" (opened by `op`)
    New { path: String, acc: &'static str, op: Op },
    /// a new readable description holding the here-document
    Here,
}

type Table = BTreeMap<i32, Src>;

struct World {
    /// regular files that exist: path -> content
    files: BTreeMap<String, String>,
    noclobber: bool,
}

#[derive(Debug, PartialEq)]
enum Applied {
    Ok,
    /// the redirection at this index fails
    Fails(usize),
    /// POSIX does not say (e.g. whether a here-document descriptor is open for output)
    Unspecified,
}

fn is_dir(p: &str) -> bool {
    p == "/tmp" || p == "/d1"
}

fn parent_exists(p: &str) -> bool {
    !p.starts_with("/tmp/in/")
}

/// apply the redirections to `t` (stopping at the first failing one)
fn apply(t: &mut Table, w: &mut World, redirs: &[Redir], open_before: &Table) -> Applied {
    let _ = open_before;
    for (i, r) in redirs.iter().enumerate() {
        match r.op {
            Op::In => {
                if !w.files.contains_key(&r.operand) {
                    return Applied::Fails(i);
                }
                t.insert(
                    r.fd,
                    Src::New {
                        path: r.operand.clone(),
                        acc: "r",
                        op: Op::In,
                    },
                );
            }
            Op::Out | Op::Clobber | Op::Append | Op::InOut => {
                if is_dir(&r.operand) && r.op != Op::InOut || !parent_exists(&r.operand) {
                    return Applied::Fails(i);
                }
                if is_dir(&r.operand) {
                    // `<>` on a directory: open for read-write fails with EISDIR
                    return Applied::Fails(i);
                }
                let exists = w.files.contains_key(&r.operand);
                if r.op == Op::Out && w.noclobber && exists {
                    return Applied::Fails(i);
                }
                match r.op {
                    Op::Out | Op::Clobber => {
                        w.files.insert(r.operand.clone(), String::new());
                    }
                    _ => {
                        w.files.entry(r.operand.clone()).or_default();
                    }
                }
                t.insert(
                    r.fd,
                    Src::New {
                        path: r.operand.clone(),
                        acc: if r.op == Op::InOut { "rw" } else { "w" },
                        op: r.op.clone(),
                    },
                );
            }
            Op::DupIn | Op::DupOut => {
                if r.operand == "-" {
                    t.remove(&r.fd);
                } else {
                    let m: i32 = r.operand.parse().unwrap();
                    match t.get(&m).cloned() {
                        Some(src) => {
                            // `<&m` needs a descriptor open for input, `>&m` one open for output
                            let acc = match &src {
                                Src::Orig(0..=2) => "rw",
                                Src::Orig(3) => "w",
                                Src::Orig(_) => "r",
                                Src::New { acc, .. } => acc,
                                Src::Here => "r",
                            };
                            let need = if r.op == Op::DupIn { 'r' } else { 'w' };
                            if src == Src::Here && need == 'w' {
                                return Applied::Unspecified;
                            }
                            if !acc.contains(need) {
                                return Applied::Fails(i);
                            }
                            t.insert(r.fd, src);
                        }
                        None => return Applied::Fails(i),
                    }
                }
            }
            Op::HereDoc => {
                t.insert(r.fd, Src::Here);
            }
        }
    }
    Applied::Ok
}

#[derive(Clone, Copy, Debug, PartialEq)]
enum Kind {
    Regular,
    SpecialEval,
    Function,
    Brace,
    Subshell,
    If,
    External,
    NotFound,
    Empty,
    Exec,
    /// `echo hi` : writes through fd 1 (file contents)
    Echo,
    /// special built-in whose redirection error aborts: run in a subshell
    SpecialInSubshell,
}

const KINDS: [Kind; 12] = [
    Kind::Regular,
    Kind::SpecialEval,
    Kind::Function,
    Kind::Brace,
    Kind::Subshell,
    Kind::If,
    Kind::External,
    Kind::NotFound,
    Kind::Empty,
    Kind::Exec,
    Kind::Echo,
    Kind::SpecialInSubshell,
];

fn command_text(kind: Kind, redirs: &str, heredocs: &str) -> String {
    let hd = if heredocs.is_empty() { String::new() } else { format!("\n{heredocs}") };
    match kind {
        Kind::Regular => format!("fds in {redirs}{hd}"),
        Kind::SpecialEval => format!("eval 'fds in' {redirs}{hd}"),
        Kind::Function => format!("f {redirs}{hd}"),
        Kind::Brace => format!("{{ fds in; }} {redirs}{hd}"),
        Kind::Subshell => format!("( fds in ) {redirs}{hd}"),
        Kind::If => format!("if true; then fds in; fi {redirs}{hd}"),
        Kind::External => format!("ext {redirs}{hd}"),
        Kind::NotFound => format!("nosuchcommand_ {redirs}{hd}"),
        Kind::Empty => format!("{redirs}{hd}"),
        Kind::Exec => format!("exec {redirs}{hd}"),
        Kind::Echo => format!("echo hi {redirs}{hd}"),
        Kind::SpecialInSubshell => format!("( : {redirs}{hd}\nprobe survived )"),
    }
}

/// parse the output of the `fds` probe: fd -> (ofd id, access, cloexec, inode id)
fn parse_table(s: &str) -> BTreeMap<i32, (String, String, bool, String)> {
    let mut m = BTreeMap::new();
    for e in s.split(' ').filter(|e| !e.is_empty()) {
        let p: Vec<&str> = e.split(':').collect();
        if p.len() >= 5 {
            if let Ok(fd) = p[0].parse::<i32>() {
                m.insert(fd, (p[1].to_string(), p[2].to_string(), p[3] == "x", p[4].to_string()));
            }
        }
    }
    m
}

struct Scenario {
    kind: Kind,
    redirs: Vec<Redir>,
    noclobber: bool,
    /// soft RLIMIT_NOFILE, if lowered
    nofile: Option<u32>,
}

const FILES: [(&str, &str); 3] = [("/tmp/in", "input\n"), ("/tmp/out", "old\n"), ("/tmp/f3", "")];

/// file mode creation mask of a scenario (derived from the scenario so that replays agree)
fn umask_of(sc: &Scenario) -> u32 {
    [0o022, 0o027, 0o000, 0o077, 0o002, 0o026][(sc.redirs.len() * 3 + sc.noclobber as usize * 2 + sc.redirs.iter().map(|r| r.text().len()).sum::<usize>()) % 6]
}

fn script_of(sc: &Scenario) -> String {
    let mut s = String::new();
    s.push_str(&format!("umask {:03o}\n", umask_of(sc)));
    s.push_str("f() { fds in; }\n");
    s.push_str("exec 3>>/tmp/f3 4</tmp/in\n");
    if sc.noclobber {
        s.push_str("set -C\n");
    }
    // warm-up so that one-time internal descriptors / handlers exist before the snapshot
    s.push_str("(:)\n");
    if let Some(n) = sc.nofile {
        s.push_str(&format!("ulimit -n {n}\n"));
    }
    s.push_str("fds before\n");
    let redirs: Vec<String> = sc.redirs.iter().map(|r| r.text()).collect();
    let heredocs: String = sc
        .redirs
        .iter()
        .filter(|r| r.op == Op::HereDoc)
        .map(|r| format!("here-document body\n{}\n", r.operand))
        .collect();
    s.push_str(&command_text(sc.kind, &redirs.join(" "), heredocs.trim_end()));
    s.push('\n');
    s.push_str("fds after\n");
    s
}

fn inode_names(out: &vsh::VOut) -> BTreeMap<String, String> {
    let mut m = BTreeMap::new();
    if let Some(state) = &out.state {
        let st = state.borrow();
        for p in ["/tmp/in", "/tmp/out", "/tmp/new", "/tmp/f3", "/dev/null", "/dev/stdin", "/dev/stdout", "/dev/stderr"] {
            if let Ok(i) = st.file_system.get(p) {
                m.insert(format!("i{:x}", std::rc::Rc::as_ptr(&i) as *const u8 as usize), p.to_string());
            }
        }
    }
    m
}

/// Returns Err((signature, explanation)) on a violation.
fn check(sc: &Scenario, out: &vsh::VOut) -> Result<(), (String, String)> {
    if out.end != vsh::End::Done {
        return Err(("no-termination".into(), format!("{:?}", out.end)));
    }
    let ev = |tag: &str| out.events.iter().find(|e| e.kind == "fds" && e.args[0] == tag).map(|e| parse_table(&e.args[1]));
    let Some(before) = ev("before") else {
        // with a very low descriptor limit the shell may be unable to run at all; not a verdict
        return Err(("inconclusive".into(), "no `before` snapshot".into()));
    };
    // a redirection error of a special built-in (eval, exec) legitimately aborts the shell
    {
        let mut w0 = World {
            files: FILES.iter().map(|(p, c)| (p.to_string(), c.to_string())).collect(),
            noclobber: sc.noclobber,
        };
        let orig0: Table = before.keys().filter(|fd| **fd < 10).map(|fd| (*fd, Src::Orig(*fd))).collect();
        let mut t0 = orig0.clone();
        let fails = apply(&mut t0, &mut w0, &sc.redirs, &orig0) != Applied::Ok;
        if matches!(sc.kind, Kind::SpecialEval | Kind::Exec) && (fails || sc.nofile.is_some()) && ev("after").is_none() {
            return Ok(());
        }
    }
    let Some(after) = ev("after") else {
        return Err(("shell-died".into(), format!("no `after` snapshot: the shell did not survive the command\nstderr: {}", out.err())));
    };
    let names = inode_names(out);
    // the model
    let mut world = World {
        files: FILES.iter().map(|(p, c)| (p.to_string(), c.to_string())).collect(),
        noclobber: sc.noclobber,
    };
    let orig: Table = before.keys().filter(|fd| **fd < 10).map(|fd| (*fd, Src::Orig(*fd))).collect();
    let mut during = orig.clone();
    let applied = if sc.nofile.is_some() {
        // under a lowered limit any allocation may fail: only the "after" invariants are decided
        None
    } else {
        Some(apply(&mut during, &mut world, &sc.redirs, &orig))
    };

    // ---- after the command
    if applied == Some(Applied::Unspecified) {
        return Err(("unspecified".into(), String::new()));
    }
    let expect_after: Table = if sc.kind == Kind::Exec && applied == Some(Applied::Ok) { during.clone() } else { orig.clone() };
    if sc.kind == Kind::Exec && applied != Some(Applied::Ok) {
        // a failing `exec` redirection aborts a non-interactive shell (special built-in error);
        // with a lowered limit we cannot predict: nothing to compare beyond "no leak" below
    }
    let cmp_table = |label: &str, got: &BTreeMap<i32, (String, String, bool, String)>, want: &Table| -> Result<(), (String, String)> {
        // user descriptors (< 10) must be exactly the modelled ones
        for (fd, src) in want {
            let Some(g) = got.get(fd) else {
                return Err((format!("{label}:missing-fd"), format!("descriptor {fd} should be open {label} the command ({src:?}) but is closed")));
            };
            match src {
                Src::Orig(o) => {
                    let b = &before[o];
                    if g.0 != b.0 {
                        return Err((
                            format!("{label}:wrong-file"),
                            format!("descriptor {fd} {label} the command should refer to the open file description that fd {o} had before, but refers to another one ({:?})", names.get(&g.3)),
                        ));
                    }
                }
                Src::New { path, acc, .. } => {
                    if names.get(&g.3) != Some(path) {
                        return Err((
                            format!("{label}:wrong-file"),
                            format!("descriptor {fd} {label} the command should be a new open of {path}, it refers to {:?}", names.get(&g.3)),
                        ));
                    }
                    if g.1 != *acc {
                        return Err((format!("{label}:wrong-access"), format!("descriptor {fd} opened on {path} has access {:?}, expected {acc:?}", g.1)));
                    }
                    if before.values().any(|b| b.0 == g.0) {
                        return Err((format!("{label}:not-a-new-open"), format!("descriptor {fd} should be a new open file description but shares one that existed before")));
                    }
                }
                Src::Here => {
                    if !g.1.contains('r') {
                        return Err((format!("{label}:heredoc-not-readable"), format!("descriptor {fd} (here-document) is not readable")));
                    }
                }
            }
        }
        for (fd, g) in got {
            if *fd < 10 && !want.contains_key(fd) {
                return Err((
                    format!("{label}:extra-fd"),
                    format!("descriptor {fd} is open {label} the command (on {:?}) but should be closed", names.get(&g.3)),
                ));
            }
        }
        Ok(())
    };
    if sc.kind != Kind::Exec || applied.is_some() {
        if !(sc.kind == Kind::Exec && applied != Some(Applied::Ok)) {
            cmp_table("after", &after, &expect_after)?;
        }
    }
    // no descriptor left behind: everything >= 10 that is open after was open before
    for (fd, g) in &after {
        if *fd >= 10 && !before.contains_key(fd) {
            return Err((
                "leak:internal-fd".into(),
                format!(
                    "descriptor {fd} (on {:?}, same description as a descriptor before: {}) is left open after the command",
                    names.get(&g.3),
                    before.values().any(|b| b.0 == g.0)
                ),
            ));
        }
    }
    // ---- during the command
    let observable = matches!(sc.kind, Kind::Regular | Kind::SpecialEval | Kind::Function | Kind::Brace | Kind::Subshell | Kind::If);
    let during_ev = ev("in");
    if let Some(app) = &applied {
        match app {
            Applied::Ok => {
                if observable {
                    let Some(d) = during_ev else {
                        return Err(("command-did-not-run".into(), format!("all redirections are valid but the command did not run\nstderr: {}", out.err())));
                    };
                    cmp_table("during", &d, &during)?;
                    // internal descriptors: at 10 or above and close-on-exec
                    for (fd, g) in &d {
                        if *fd >= 10 && !before.contains_key(fd) && !g.2 && sc.kind != Kind::Subshell {
                            return Err(("internal-fd-without-cloexec".into(), format!("descriptor {fd} opened by the shell for its own use lacks close-on-exec")));
                        }
                    }
                }
            }
            Applied::Unspecified => {}
            Applied::Fails(i) => {
                if observable && during_ev.is_some() {
                    return Err((
                        "command-ran-despite-redirection-error".into(),
                        format!("redirection #{i} ({}) cannot be performed, yet the command ran", sc.redirs[*i].text()),
                    ));
                }
            }
        }
        // file contents (not when standard error itself is redirected: the shell's own
        // diagnostics then legitimately land in the files)
        let stderr_touched = sc.redirs.iter().any(|r| r.fd == 2);
        if let Some(state) = out.state.as_ref().filter(|_| !stderr_touched) {
            let st = state.borrow();
            if sc.kind == Kind::Echo && *app == Applied::Ok {
                // echo wrote "hi\n" to whatever fd 1 is now
                if let Some(Src::New { path, op, .. }) = during.get(&1) {
                    let base = world.files.get(path).cloned().unwrap_or_default();
                    let newc = match op {
                        // opened for reading only: the write fails, nothing changes
                        Op::In => base,
                        // read-write without truncation: written at offset 0 over the old bytes
                        Op::InOut => {
                            let mut b = base.into_bytes();
                            for (k, c) in b"hi\n".iter().enumerate() {
                                if k < b.len() {
                                    b[k] = *c;
                                } else {
                                    b.push(*c);
                                }
                            }
                            String::from_utf8(b).unwrap()
                        }
                        _ => format!("{base}hi\n"),
                    };
                    world.files.insert(path.clone(), newc);
                }
            }
            for (p, want) in &world.files {
                let got = vsh::read_file(&st, p).map(|b| String::from_utf8_lossy(&b).into_owned());
                // /tmp/f3 also receives nothing; compare all modelled files
                if got.as_deref() != Some(want.as_str()) && !(sc.kind == Kind::Echo && during.get(&1) == Some(&Src::Orig(3)) && p == "/tmp/f3") {
                    return Err((
                        "file-content".into(),
                        format!("content of {p} after the command: {got:?}, expected {want:?}"),
                    ));
                }
            }
            // a file created by a redirection gets rw for everybody minus the file mode creation mask,
            // whichever operator created it and whether or not noclobber is set
            if let Ok(f) = st.file_system.get("/tmp/new") {
                let bits = f.borrow().permissions.bits() as u32 & 0o7777;
                let want = 0o666 & !umask_of(sc);
                if bits != want {
                    return Err((
                        "file-mode".into(),
                        format!("/tmp/new was created with permission bits {bits:03o}; a redirection creates files with 666 & ~umask = {want:03o} (umask {:03o})", umask_of(sc)),
                    ));
                }
            }
            for p in ["/tmp/new"] {
                if !world.files.contains_key(p) && st.file_system.get(p).is_ok() {
                    return Err(("file-created".into(), format!("{p} was created although no performed redirection creates it")));
                }
            }
        }
    }
    Ok(())
}

fn run_scenario(ctx: &Ctx, sc: &Scenario) -> bool {
    let script = script_of(sc);
    let mut cfg = vsh::VCfg::script(&script);
    cfg.strategy = Strategy::Fifo;
    cfg.extra = vsh::v_probes();
    cfg.keep_state = true;
    cfg.files = FILES.iter().map(|(p, c)| (p.to_string(), FileSpec::Regular(c.as_bytes().to_vec()))).collect();
    cfg.files.push(("/d1".into(), FileSpec::Dir));
    let out = vsh::run_v(cfg);
    ctx.eval();
    let r = check(sc, &out);
    if let Some(st) = &out.state {
        st.borrow_mut().executor = None;
    }
    match r {
        Ok(()) => true,
        Err((sig, _)) if sig == "inconclusive" => {
            ctx.count("limit_too_low_to_start", 1);
            true
        }
        Err((sig, _)) if sig == "unspecified" => {
            ctx.skipped_unspecified.fetch_add(1, std::sync::atomic::Ordering::Relaxed);
            true
        }
        Err((sig, why)) => {
            let redirs: Vec<String> = sc.redirs.iter().map(|r| r.text()).collect();
            ctx.violation(
                format!("{sig}:{:?}{}", sc.kind, if sc.nofile.is_some() { ":nofile" } else { "" }),
                format!(
                    "command kind {:?}, redirections {:?}, noclobber={}, RLIMIT_NOFILE={:?}\n{why}\nscript:\n{script}\nevents: {:?}\nstderr:\n{}",
                    sc.kind,
                    redirs,
                    sc.noclobber,
                    sc.nofile,
                    out.events.iter().map(|e| format!("{}:{:?}", e.kind, e.args)).collect::<Vec<_>>(),
                    out.err()
                ),
            );
            false
        }
    }
}

fn all_redirs() -> Vec<Redir> {
    let mut v = Vec::new();
    for fd in [0, 1, 2, 3, 5, 9] {
        for (op, operands) in [
            (Op::In, vec!["/tmp/in", "/tmp/missing", "/tmp/in/x"]),
            (Op::Out, vec!["/tmp/out", "/tmp/new", "/tmp", "/tmp/in/x"]),
            (Op::Clobber, vec!["/tmp/out", "/tmp/new"]),
            (Op::Append, vec!["/tmp/out", "/tmp/new", "/tmp"]),
            (Op::InOut, vec!["/tmp/out", "/tmp/new"]),
            (Op::DupIn, vec!["0", "4", "7", "-"]),
            (Op::DupOut, vec!["1", "3", "7", "-"]),
            (Op::HereDoc, vec!["E_O_F"]),
        ] {
            for o in operands {
                // duplicating a descriptor onto itself is fine but says nothing
                if (op == Op::DupIn || op == Op::DupOut) && o.parse::<i32>().ok() == Some(fd) {
                    continue;
                }
                v.push(Redir {
                    fd,
                    op: op.clone(),
                    operand: o.to_string(),
                    via: 0,
                });
            }
        }
    }
    v
}


// ------------------------------------------------------------------ descriptors the shell opens for its own use

/// commands that make the shell open descriptors of its own (not redirections)
const INTERNAL_USERS: [(&str, &str); 15] = [
    ("dot script that ends the shell with exit", "command . /tmp/dotx"),
    ("dot script that ends the shell with an expansion error", "command . /tmp/dote"),
    ("dot script that ends the shell with a syntax error", "command . /tmp/dots"),
    ("nested dot script that ends the shell with exit", "command . /tmp/dotxx"),
    ("three-stage pipeline", "fds in | fds in2 | fds in3"),
    ("four-stage pipeline in a brace group", "{ fds in | fds in2 | fds in3 | fds in4; }"),
    ("dot script", "command . /tmp/dot1"),
    ("dot script, three levels", "command . /tmp/dot3"),
    ("dot script that is missing", "command . /tmp/nodot"),
    ("command substitution", "x=$(fds in)"),
    ("nested command substitution", "x=$(y=$(fds in); fds in2)"),
    ("here-document", "fds in <<E\nbody\nE"),
    ("pipeline", "fds in | fds in2"),
    ("dot script in a command substitution", "x=$(command . /tmp/dot1)"),
    ("eval with redirection inside a dot script", "command . /tmp/dot4"),
];

fn internal_files() -> Vec<(String, FileSpec)> {
    vec![
        ("/tmp/dot1".into(), FileSpec::Regular(b"fds in\n".to_vec())),
        ("/tmp/dot2".into(), FileSpec::Regular(b"command . /tmp/dot1\nfds in2\n".to_vec())),
        ("/tmp/dot3".into(), FileSpec::Regular(b"command . /tmp/dot2\nfds in3\n".to_vec())),
        ("/tmp/dot4".into(), FileSpec::Regular(b"eval 'fds in' </tmp/in\n".to_vec())),
        ("/tmp/dotx".into(), FileSpec::Regular(b"fds in\nexit 3\nfds never\n".to_vec())),
        ("/tmp/dote".into(), FileSpec::Regular(b"fds in\n: ${uu?}\nfds never\n".to_vec())),
        ("/tmp/dots".into(), FileSpec::Regular(b"fds in\nfi\nfds never\n".to_vec())),
        ("/tmp/dotxx".into(), FileSpec::Regular(b"command . /tmp/dotx\nfds never\n".to_vec())),
    ]
}

/// every descriptor >= 10 must be close-on-exec; no descriptor below 10 may appear that was not
/// there before; afterwards the table is exactly what it was
fn check_internal(out: &vsh::VOut, what: &str, limited: bool) -> Result<(), (String, String)> {
    if out.end != vsh::End::Done {
        return Err((format!("internal:no-termination:{what}"), format!("{:?}", out.end)));
    }
    let tables: Vec<(String, BTreeMap<i32, (String, String, bool, String)>)> = out.events.iter().filter(|e| e.kind == "fds").map(|e| (e.args[0].clone(), parse_table(&e.args[1]))).collect();
    let Some((_, before)) = tables.iter().find(|(t, _)| t == "before") else {
        return Err(("inconclusive".into(), "no `before` snapshot".into()));
    };
    for (tag, t) in &tables {
        for (fd, (_, _, cloexec, _)) in t {
            if *fd >= 10 && !cloexec {
                return Err((format!("internal:no-cloexec:{what}"), format!("at `fds {tag}` descriptor {fd} (opened by the shell for its own use) lacks close-on-exec\ntable: {t:?}")));
            }
            if *fd < 10 && *fd > 2 && !before.contains_key(fd) {
                return Err((format!("internal:low-descriptor:{what}"), format!("at `fds {tag}` descriptor {fd} is open although the script never opened it\ntable: {t:?}")));
            }
        }
    }
    if what.contains("ends the shell") {
        // the EXIT trap must see exactly the descriptors from before (the script's own descriptor,
        // at 10 or above, included: the dot built-in closes it however the script ends)
        let Some((_, at_exit)) = tables.iter().find(|(t, _)| t == "atexit") else {
            if limited {
                return Err(("aborted".into(), String::new()));
            }
            return Err((format!("internal:no-exit-snapshot:{what}"), format!("stderr: {}", out.err())));
        };
        // (under a lowered limit the script file may not even open: then the shell goes on)
        if !limited && tables.iter().any(|(t, _)| t == "never") {
            return Err((format!("internal:ran-past-the-end:{what}"), "commands after the end of the dot script ran".into()));
        }
        let b: Vec<i32> = before.keys().copied().collect();
        let a: Vec<i32> = at_exit.keys().copied().collect();
        if a != b {
            return Err((format!("internal:leak-at-exit:{what}"), format!("open descriptors before {b:?}, when the EXIT trap runs {a:?}")));
        }
        return Ok(());
    }
    let Some((_, after)) = tables.iter().find(|(t, _)| t == "after") else {
        // under a lowered limit a failed expansion or pipeline is a shell error that legitimately
        // ends a non-interactive shell (with a diagnostic); without a limit nothing may fail
        if limited && !out.err().is_empty() && out.exit_code().is_some_and(|c| c != 0) {
            return Err(("aborted".into(), String::new()));
        }
        return Err((format!("internal:shell-died:{what}"), format!("no `after` snapshot\nstderr: {}", out.err())));
    };
    let b: Vec<i32> = before.keys().copied().collect();
    let a: Vec<i32> = after.keys().copied().collect();
    if a != b {
        return Err((format!("internal:leak:{what}"), format!("open descriptors before {b:?}, after {a:?}")));
    }
    Ok(())
}

fn internal_part(ctx: &Ctx) {
    // (a) commands, without and with every descriptor limit
    let mut jobs: Vec<(usize, Option<u32>)> = Vec::new();
    for u in 0..INTERNAL_USERS.len() {
        jobs.push((u, None));
        for limit in 5..=24u32 {
            jobs.push((u, Some(limit)));
        }
    }
    let jobs = &jobs;
    ctx.par_for(
        jobs.len(),
        |j| {
            let (u, limit) = jobs[j];
            let (what, cmd) = INTERNAL_USERS[u];
            let mut s = String::from("trap 'fds atexit' EXIT\nexec 3>>/tmp/f3 4</tmp/in\n(:)\n");
            if let Some(n) = limit {
                s.push_str(&format!("ulimit -n {n}\n"));
            }
            s.push_str("fds before\n");
            s.push_str(cmd);
            s.push_str("\nfds after\n");
            let mut cfg = vsh::VCfg::script(&s);
            cfg.extra = vsh::v_probes();
            cfg.files = FILES.iter().map(|(p, c)| (p.to_string(), FileSpec::Regular(c.as_bytes().to_vec()))).chain(internal_files()).collect();
            let out = vsh::run_v(cfg);
            ctx.eval();
            ctx.count("internal_descriptor_scenarios", 1);
            match check_internal(&out, what, limit.is_some()) {
                Ok(()) => ctx.nontrivial_str(&format!("internal|{what}|{limit:?}")),
                Err((sig, _)) if sig == "aborted" => {
                    ctx.count("internal_scenarios_shell_error_under_limit", 1);
                    // the shell gave up: what its EXIT trap sees must still be the table from before
                    let at_exit = out.events.iter().find(|e| e.kind == "fds" && e.args[0] == "atexit").map(|e| parse_table(&e.args[1])).unwrap_or_default();
                    let before = out.events.iter().find(|e| e.kind == "fds" && e.args[0] == "before").map(|e| parse_table(&e.args[1])).unwrap_or_default();
                    let stray: Vec<i32> = at_exit.keys().copied().filter(|fd| *fd < 10 && !before.contains_key(fd)).collect();
                    if !stray.is_empty() {
                        ctx.violation(
                            format!("internal:leak-at-exit:{what}"),
                            format!("{what}, RLIMIT_NOFILE {limit:?}: when the EXIT trap runs, descriptors {stray:?} are open that were not open before the command\nscript:\n{s}\nstderr:\n{}", out.err()),
                        );
                    }
                }
                Err((sig, _)) if sig == "inconclusive" => ctx.count("internal_scenarios_shell_could_not_start", 1),
                Err((sig, why)) => ctx.violation(sig, format!("{what}, RLIMIT_NOFILE {limit:?}\n{why}\nscript:\n{s}\nstderr:\n{}", out.err())),
            }
        },
        |i, msg| ctx.violation(if crate::util::panic_in_repo(&msg) { "panic:internal".to_string() } else { "harness-panic".into() }, format!("internal scenario {i}: {msg}")),
    );
    // (a') the same commands with the k-th process creation failing (fork reports EAGAIN)
    let extra: [(&str, &str); 3] = [("subshell", "(fds in)"), ("asynchronous list", "fds in & wait"), ("substitution in a pipeline", "x=$(fds in | fds in2)")];
    let all: Vec<(&str, &str)> = INTERNAL_USERS.iter().copied().chain(extra).collect();
    let all = &all;
    ctx.par_for(
        all.len() * 4,
        |j| {
            let (what, cmd) = all[j / 4];
            // index 0 is the warm-up subshell
            let k = 1 + j % 4;
            let s = format!("trap 'fds atexit' EXIT\nexec 3>>/tmp/f3 4</tmp/in\n(:)\nfds before\n{cmd}\nfds after\n");
            let mut cfg = vsh::VCfg::script(&s);
            cfg.extra = vsh::v_probes();
            cfg.fail_spawn = Some(k);
            cfg.files = FILES.iter().map(|(p, c)| (p.to_string(), FileSpec::Regular(c.as_bytes().to_vec()))).chain(internal_files()).collect();
            let out = vsh::run_v(cfg);
            ctx.eval();
            ctx.count("process_creation_fault_scenarios", 1);
            match check_internal(&out, what, true) {
                Ok(()) => ctx.nontrivial_str(&format!("fork-fault|{what}|{k}")),
                Err((sig, _)) if sig == "aborted" => {
                    ctx.count("internal_scenarios_shell_error_under_fault", 1);
                    // the shell gave up (a failed expansion is a shell error); its descriptor table as seen by
                    // the EXIT trap must still not hold anything the script did not open
                    let at_exit = out.events.iter().find(|e| e.kind == "fds" && e.args[0] == "atexit").map(|e| parse_table(&e.args[1])).unwrap_or_default();
                    if at_exit.is_empty() {
                        ctx.count("fault_scenarios_without_exit_snapshot", 1);
                    }
                    let before = out.events.iter().find(|e| e.kind == "fds" && e.args[0] == "before").map(|e| parse_table(&e.args[1])).unwrap_or_default();
                    let stray: Vec<i32> = at_exit.keys().copied().filter(|fd| *fd < 10 && !before.contains_key(fd)).collect();
                    if !stray.is_empty() {
                        ctx.violation(
                            format!("fork-fault:internal:leak-at-exit:{what}"),
                            format!("{what}, process creation #{k} fails: when the shell's EXIT trap runs, descriptors {stray:?} are open that were not open before the command\nscript:\n{s}\nstderr:\n{}", out.err()),
                        );
                    }
                }
                Err((sig, _)) if sig == "inconclusive" => {}
                Err((sig, why)) => ctx.violation(format!("fork-fault:{sig}"), format!("{what}, process creation #{k} fails\n{why}\nscript:\n{s}\nstderr:\n{}", out.err())),
            }
        },
        |i, msg| ctx.violation(if crate::util::panic_in_repo(&msg) { "panic:fork-fault".to_string() } else { "harness-panic".into() }, format!("fork-fault scenario {i}: {msg}")),
    );
    // (b) the shell started on a script file / reading commands from a file, with k of the
    // descriptors 3..9 already open (so that the file may be opened at 10 or above directly)
    for preopened in 0..=7u32 {
        for via in ["operand", "dot"] {
            let script = "fds in\ncommand . /tmp/dot1\n(fds sub)\n";
            let mut cfg = if via == "operand" {
                vsh::VCfg::with_args(vec!["yash".into(), "/tmp/main".into()])
            } else {
                vsh::VCfg::script("fds before\ncommand . /tmp/main\nfds after")
            };
            cfg.extra = vsh::v_probes();
            cfg.files = FILES.iter().map(|(p, c)| (p.to_string(), FileSpec::Regular(c.as_bytes().to_vec()))).chain(internal_files()).chain([("/tmp/main".to_string(), FileSpec::Regular(script.as_bytes().to_vec()))]).collect();
            cfg.setup = Some(Box::new(move |st| {
                let p = st.processes.get_mut(&yash_env::job::Pid(2)).unwrap();
                let body = p.get_fd(yash_env::io::Fd(1)).unwrap().clone();
                for n in 3..3 + preopened as i32 {
                    p.set_fd(yash_env::io::Fd(n), body.clone()).ok();
                }
            }));
            let out = vsh::run_v(cfg);
            ctx.eval();
            ctx.count("internal_descriptor_scenarios", 1);
            let what = format!("script read through {via} with {preopened} of descriptors 3-9 open at start");
            let mut bad = None;
            for e in out.events.iter().filter(|e| e.kind == "fds") {
                for (fd, (_, _, cloexec, _)) in parse_table(&e.args[1]) {
                    if fd >= 10 && !cloexec {
                        bad = Some(format!("at `fds {}` descriptor {fd} lacks close-on-exec: {}", e.args[0], e.args[1]));
                    }
                    if fd > 2 && fd < 10 && fd >= 3 + preopened as i32 {
                        bad = Some(format!("at `fds {}` descriptor {fd} is open although nobody opened it: {}", e.args[0], e.args[1]));
                    }
                }
            }
            if out.events.iter().filter(|e| e.kind == "fds").count() < 3 {
                bad = Some(format!("the script did not run to its end; stderr: {}", out.err()));
            }
            match bad {
                Some(why) => ctx.violation(format!("internal:script-file:{via}"), format!("{what}\n{why}")),
                None => ctx.nontrivial_str(&what),
            }
        }
    }
}

/// Real system: the content of a here-document cannot be written (file size limit 0, SIGXFSZ
/// ignored). The redirection fails; no descriptor may be left behind. (The simulated system never
/// fails a write to a regular file, so this fault exists only here.)
fn real_write_fault_part(ctx: &Ctx) {
    let commands = ["relay <<E\ntext\nE", "{ relay; } <<E\ntext $HOME\nE", "f() { relay; }; f <<-E\n\ttext\n\tE", "relay 3<<E <&3\ntext\nE", "command eval relay <<E\ntext\nE"];
    for (i, cmd) in commands.iter().enumerate() {
        for limit in [Some(0), None] {
            let mut script = String::from("trap '' XFSZ\nlsfd warm >/dev/null\n");
            if let Some(l) = limit {
                script.push_str(&format!("ulimit -f {l}\n"));
            }
            script.push_str(&format!("lsfd before\n{cmd}\necho \"st=$?\"\n{cmd}\necho \"st=$?\"\nlsfd after\n"));
            let dir = std::env::temp_dir().join(format!("verif-c09r-{}-{i}", std::process::id()));
            let _ = std::fs::remove_dir_all(&dir);
            if std::fs::create_dir_all(&dir).is_err() {
                ctx.inconclusive.fetch_add(1, std::sync::atomic::Ordering::Relaxed);
                continue;
            }
            let exe = std::env::current_exe().unwrap();
            let out = std::process::Command::new(exe)
                .args(["real-shell", "-c", &script])
                .current_dir(&dir)
                .env_clear()
                .env("PATH", "/bin:/usr/bin")
                .env("LANG", "C")
                .env("TMPDIR", &dir)
                .stdin(std::process::Stdio::null())
                .output();
            let _ = std::fs::remove_dir_all(&dir);
            let Ok(out) = out else {
                ctx.inconclusive.fetch_add(1, std::sync::atomic::Ordering::Relaxed);
                continue;
            };
            ctx.eval();
            ctx.count("real_here_document_runs", 1);
            let text = String::from_utf8_lossy(&out.stdout).into_owned();
            let line = |tag: &str| text.lines().find(|l| l.starts_with(tag)).map(|l| l.to_string());
            let (Some(b), Some(a)) = (line("before:"), line("after:")) else {
                ctx.violation("real:here-document:no-listing", format!("script:\n{script}\nstdout:\n{text}\nstderr:\n{}", String::from_utf8_lossy(&out.stderr)));
                continue;
            };
            let failed = text.lines().filter(|l| l.starts_with("st=") && *l != "st=0").count();
            if limit.is_some() {
                ctx.count("real_here_documents_that_failed_to_be_written", failed as i64);
            }
            if b.trim_start_matches("before:") != a.trim_start_matches("after:") {
                ctx.violation(
                    "real:here-document:descriptor-left-open",
                    format!("real system, file size limit {limit:?}: open descriptors {b} / {a}\nscript:\n{script}\nstdout:\n{text}\nstderr:\n{}", String::from_utf8_lossy(&out.stderr)),
                );
            } else {
                ctx.nontrivial_str(&format!("real-heredoc|{i}|{limit:?}|{failed}"));
            }
        }
    }
}

pub fn run(ctx: &Ctx) {
    let quick = ctx.quick();
    internal_part(ctx);
    real_write_fault_part(ctx);
    let redirs = all_redirs();
    ctx.count("single_redirections", redirs.len() as i64);
    // systematic: lists of length 1 and 2 x kinds x noclobber
    let mut scenarios: Vec<Scenario> = Vec::new();
    for kind in KINDS {
        for nc in [false, true] {
            for r in &redirs {
                scenarios.push(Scenario {
                    kind,
                    redirs: vec![r.clone()],
                    noclobber: nc,
                    nofile: None,
                });
            }
        }
    }
    let pair_step = if quick { 2 } else { 1 };
    let mut k = 0usize;
    for kind in KINDS {
        for a in &redirs {
            for b in &redirs {
                k += 1;
                if k % pair_step != 0 {
                    continue;
                }
                // two here-documents on one command are fine, keep them
                scenarios.push(Scenario {
                    kind,
                    redirs: vec![a.clone(), b.clone()],
                    noclobber: k % 3 == 0,
                    nofile: None,
                });
            }
        }
    }
    // random triples
    let mut rng = Rng::new(ctx.seed.wrapping_mul(0xC09));
    for _ in 0..(if quick { 30_000 } else { 600_000 }) {
        scenarios.push(Scenario {
            kind: *rng.pick(&KINDS),
            redirs: (0..3).map(|_| rng.pick(&redirs).clone()).collect(),
            noclobber: rng.chance(30),
            nofile: None,
        });
    }
    // every third scenario spells its operands through expansions (command substitutions run with the
    // descriptor table as the earlier redirections of the list left it)
    let mut nvia = 0;
    for (k, sc) in scenarios.iter_mut().enumerate() {
        if k % 3 == 1 {
            for (j, r) in sc.redirs.iter_mut().enumerate() {
                if r.op != Op::HereDoc {
                    r.via = 1 + ((k / 3 + j) % 3) as u8;
                }
            }
            nvia += 1;
        }
    }
    ctx.count("scenarios_with_operands_from_expansions", nvia);
    let nplain = scenarios.len();
    // fault enumeration: every limit from highest open descriptor + 1 (= 5) to 20
    let mut k = 0usize;
    let fe_step = 1;
    for kind in KINDS {
        for a in &redirs {
            for limit in 5..=20u32 {
                k += 1;
                if k % fe_step != 0 {
                    continue;
                }
                scenarios.push(Scenario {
                    kind,
                    redirs: vec![a.clone()],
                    noclobber: false,
                    nofile: Some(limit),
                });
            }
        }
    }
    for _ in 0..(if quick { 30_000 } else { 800_000 }) {
        scenarios.push(Scenario {
            kind: *rng.pick(&KINDS),
            redirs: (0..rng.range(2, 3)).map(|_| rng.pick(&redirs).clone()).collect(),
            noclobber: rng.chance(30),
            nofile: Some(rng.range(5, 20) as u32),
        });
    }
    ctx.count("scenarios_without_faults", nplain as i64);
    ctx.count("scenarios_with_lowered_descriptor_limit", (scenarios.len() - nplain) as i64);
    let scenarios = &scenarios;
    ctx.par_for(
        scenarios.len(),
        |i| {
            let sc = &scenarios[i];
            run_scenario(ctx, sc);
            let texts: Vec<String> = sc.redirs.iter().map(|r| r.text()).collect();
            ctx.nontrivial_str(&format!("{:?}|{texts:?}|{}|{:?}", sc.kind, sc.noclobber, sc.nofile));
            if i % (scenarios.len() / 8).max(1) == 0 {
                ctx.sample(J::obj(vec![
                    ("kind", J::s(format!("{:?}", sc.kind))),
                    ("redirections", J::s(texts.join(" "))),
                    ("noclobber", J::B(sc.noclobber)),
                    ("nofile_limit", J::s(format!("{:?}", sc.nofile))),
                    ("script", J::s(script_of(sc))),
                ]));
            }
        },
        |i, msg| {
            ctx.violation(
                if crate::util::panic_in_repo(&msg) { format!("panic:{}", msg.split(": ").next().unwrap_or("")) } else { "harness-panic".into() },
                format!("scenario {i}: {msg}"),
            )
        },
    );
    *ctx.exhaustive.lock().unwrap() = Some(true);
    ctx.assume("fd-table model in checks/c09.rs (POSIX XCU 2.7): identity of open file descriptions is observed through the virtual kernel (Rc pointer identity), inodes through the virtual file system");
    ctx.assume("under a lowered descriptor limit only the after-invariants are decided (table restored, nothing >= 10 left open); which allocation fails first is the kernel's business");
}

pub const RULE: &str = "scenario = (command kind in {regular built-in, special built-in via eval, function, brace group, subshell, if, external, not found, empty command, exec, echo writing through fd 1, special built-in in a subshell}) x redirection list x noclobber; single redirections: 6 target descriptors (open, closed) x every operator x operands {existing, missing, directory, missing parent, open/closed descriptor, close, here-document}; all lists of length 1, every 7th (quick) / every list of length 2, random lists of length 3; fault enumeration: each single redirection x kind x every RLIMIT_NOFILE from 5 to 20 (every 9th in quick) + random lists under random limits. Compared with the fd-table model: table during the command (open-file-description identity, access mode, inode, internal descriptors >= 10 with close-on-exec), table after == before (exec: == modelled), no descriptor >= 10 left open, file contents and creation. Descriptors of the shell's own: 15 commands that make the shell open descriptors for itself (incl. dot scripts that end the shell by exit, expansion error or syntax error, observed from the EXIT trap) (dot scripts up to three levels deep, missing dot script, command substitutions, here-document, pipeline) x {no limit, every RLIMIT_NOFILE 5..24}, and the shell reading a script file (as operand, through `.`) with 0-7 of the descriptors 3-9 already open: every descriptor >= 10 close-on-exec at every snapshot, no stray descriptor below 10, table after == before; the same commands with the 1st..4th process creation failing (injected EAGAIN); on the real system: here-documents whose content cannot be written (RLIMIT_FSIZE 0): descriptor list from /proc before == after. evaluations = scenario runs; distinct_nontrivial = distinct scenarios";
