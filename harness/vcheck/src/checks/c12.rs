//! C12 — the job table stays consistent over every history of job events.
//!
//! Breadth-first exploration of the *real* `JobList` through its public API, invariants
//! asserted after every transition, shadow model for "a job keeps its number" and for the
//! documented results of `set_current_job`/`remove`/`update_status`.

use crate::util::{Ctx, J};
use std::collections::{HashSet, VecDeque};
use std::num::NonZeroUsize;
use yash_env::job::id::{FindError, JobId};
use yash_env::job::{Job, JobList, Pid, ProcessResult, ProcessState, SetCurrentJobError};
use yash_env::semantics::ExitStatus;
use yash_env::system::r#virtual::{SIGKILL, SIGTSTP};

#[derive(Clone, Copy, Debug, PartialEq, Eq, Hash)]
enum St {
    Run,
    Stop,
    Exit,
    Sig,
}

fn pstate(s: St) -> ProcessState {
    match s {
        St::Run => ProcessState::Running,
        St::Stop => ProcessState::stopped(SIGTSTP),
        St::Exit => ProcessState::exited(ExitStatus(0)),
        St::Sig => ProcessState::Halted(ProcessResult::Signaled {
            signal: SIGKILL,
            core_dump: false,
        }),
    }
}

fn class(s: ProcessState) -> St {
    match s {
        ProcessState::Running => St::Run,
        ProcessState::Halted(r) if r.is_stopped() => St::Stop,
        ProcessState::Halted(ProcessResult::Exited(_)) => St::Exit,
        _ => St::Sig,
    }
}

#[derive(Clone, Debug)]
enum Op {
    Insert(i32, St),
    Update(i32, St),
    SetCurrent(usize),
    Remove(usize),
    RemoveIf(u8),
    Report(usize),
}

const PIDS: [i32; 5] = [10, 11, 12, 13, 14];
const MAX_JOBS: usize = 4;

fn key(list: &JobList) -> String {
    // visible state + the two raw indices (taken from the Debug form) so that states which differ
    // only in a stale index are not merged.
    let dbg = format!("{list:?}");
    let raw = |name: &str| -> String {
        dbg.find(name)
            .map(|i| {
                dbg[i + name.len()..]
                    .chars()
                    .take_while(|c| c.is_ascii_digit())
                    .collect()
            })
            .unwrap_or_default()
    };
    let mut s = String::new();
    for (i, j) in list.iter() {
        s.push_str(&format!(
            "{}:{}:{:?}:{};",
            i,
            j.pid.0,
            class(j.state),
            j.state_changed as u8
        ));
    }
    s.push_str(&format!(
        "c{} p{}",
        raw("current_job_index: "),
        raw("previous_job_index: ")
    ));
    s
}

fn describe(list: &JobList) -> String {
    let mut s = String::new();
    for (i, j) in list.iter() {
        s.push_str(&format!("[{} pid={} {:?}] ", i, j.pid.0, class(j.state)));
    }
    s.push_str(&format!(
        "current={:?} previous={:?}",
        list.current_job(),
        list.previous_job()
    ));
    s
}

/// Invariants of the property, through the public API only. Returns the first violated one.
fn invariants(list: &JobList) -> Result<(), String> {
    let jobs: Vec<(usize, Pid, bool)> = list
        .iter()
        .map(|(i, j)| (i, j.pid, j.state.is_stopped()))
        .collect();
    if jobs.len() != list.len() {
        return Err(format!("len()={} but iter yields {}", list.len(), jobs.len()));
    }
    if list.is_empty() != jobs.is_empty() {
        return Err("is_empty disagrees with iter".into());
    }
    let cur = list.current_job();
    let prev = list.previous_job();
    if jobs.is_empty() {
        if cur.is_some() || prev.is_some() {
            return Err("empty table has a current/previous job".into());
        }
    } else {
        match cur {
            None => return Err("non-empty table has no current job".into()),
            Some(c) if list.get(c).is_none() => {
                return Err(format!("current job {c} does not exist"));
            }
            _ => {}
        }
    }
    if jobs.len() >= 2 {
        match prev {
            None => return Err("two or more jobs but no previous job".into()),
            Some(p) if list.get(p).is_none() => {
                return Err(format!("previous job {p} does not exist"));
            }
            Some(p) if Some(p) == cur => return Err("previous job equals current job".into()),
            _ => {}
        }
    } else if let Some(p) = prev {
        if Some(p) == cur || list.get(p).is_none() {
            return Err("previous job invalid in a table of fewer than two jobs".into());
        }
        return Err("fewer than two jobs but a previous job is designated".into());
    }
    let suspended = jobs.iter().filter(|j| j.2).count();
    if suspended >= 1 && !list.get(cur.unwrap()).unwrap().state.is_stopped() {
        return Err("a suspended job exists but the current job is not suspended".into());
    }
    if suspended >= 2 && !list.get(prev.unwrap()).unwrap().state.is_stopped() {
        return Err("two suspended jobs exist but the previous job is not suspended".into());
    }
    let mut seen = HashSet::new();
    for (i, pid, _) in &jobs {
        if !seen.insert(*pid) {
            return Err(format!("pid {} designates two jobs", pid.0));
        }
        if list.find_by_pid(*pid) != Some(*i) {
            return Err(format!(
                "find_by_pid({}) = {:?} but the job is at index {}",
                pid.0,
                list.find_by_pid(*pid),
                i
            ));
        }
    }
    for pid in PIDS {
        if let Some(i) = list.find_by_pid(Pid(pid)) {
            if list.get(i).map(|j| j.pid) != Some(Pid(pid)) {
                return Err(format!("find_by_pid({pid}) points at a job with another pid"));
            }
        }
    }
    // job ids
    let expect_cur = cur.ok_or(FindError::NotFound);
    for id in [JobId::CurrentJob] {
        if id.find(list) != expect_cur {
            return Err(format!("%% resolves to {:?}, current job is {:?}", id.find(list), cur));
        }
    }
    for s in ["%", "%%", "%+"] {
        let id = yash_env::job::id::parse(s).map_err(|_| format!("cannot parse {s}"))?;
        if id.find(list) != expect_cur {
            return Err(format!("{s} resolves to {:?}, current job is {:?}", id.find(list), cur));
        }
    }
    let id = yash_env::job::id::parse("%-").map_err(|_| "cannot parse %-".to_string())?;
    if id.find(list) != prev.ok_or(FindError::NotFound) {
        return Err(format!("%- resolves to {:?}, previous job is {:?}", id.find(list), prev));
    }
    for n in 1..=MAX_JOBS + 1 {
        let id = JobId::JobNumber(NonZeroUsize::new(n).unwrap());
        let want = if list.get(n - 1).is_some() {
            Ok(n - 1)
        } else {
            Err(FindError::NotFound)
        };
        if id.find(list) != want {
            return Err(format!("%{n} resolves to {:?}, expected {:?}", id.find(list), want));
        }
    }
    Ok(())
}

fn ops_for(list: &JobList) -> Vec<Op> {
    let mut ops = Vec::new();
    let present: Vec<(usize, i32, St)> = list
        .iter()
        .map(|(i, j)| (i, j.pid.0, class(j.state)))
        .collect();
    if present.len() < MAX_JOBS {
        if let Some(&fresh) = PIDS.iter().find(|p| !present.iter().any(|x| x.1 == **p)) {
            ops.push(Op::Insert(fresh, St::Run));
            ops.push(Op::Insert(fresh, St::Stop));
        }
    }
    // re-use of the pid of a finished job (the kernel may recycle pids of reaped children)
    for (_, pid, st) in &present {
        if matches!(st, St::Exit | St::Sig) {
            ops.push(Op::Insert(*pid, St::Run));
            ops.push(Op::Insert(*pid, St::Stop));
        }
    }
    for (_, pid, st) in &present {
        for new in [St::Run, St::Stop, St::Exit, St::Sig] {
            // a finished process does not change state any more
            if matches!(st, St::Exit | St::Sig) {
                continue;
            }
            ops.push(Op::Update(*pid, new));
        }
    }
    ops.push(Op::Update(99, St::Stop)); // unknown pid
    for i in 0..=MAX_JOBS {
        ops.push(Op::SetCurrent(i));
        ops.push(Op::Remove(i));
    }
    for (i, _, _) in &present {
        ops.push(Op::Report(*i));
    }
    for k in 0..4 {
        ops.push(Op::RemoveIf(k));
    }
    ops
}

/// Apply `op` to the real list, checking the documented result of the operation itself against
/// the shadow information taken before the call.
fn apply(list: &mut JobList, op: &Op) -> Result<(), String> {
    let before: Vec<(usize, Pid, St, bool)> = list
        .iter()
        .map(|(i, j)| (i, j.pid, class(j.state), j.state_changed))
        .collect();
    let old_cur = list.current_job();
    let old_prev = list.previous_job();
    let mut removed: Vec<usize> = Vec::new();
    let mut replaced: Option<usize> = None;
    match op {
        Op::Insert(pid, st) => {
            let mut job = Job::new(Pid(*pid));
            job.state = pstate(*st);
            job.name = format!("job{pid}");
            let existing = list.find_by_pid(Pid(*pid));
            let idx = list.insert(job);
            if let Some(e) = existing {
                if e != idx {
                    return Err(format!("insert of an existing pid moved the job from {e} to {idx}"));
                }
                replaced = Some(e);
            } else if before.iter().any(|b| b.0 == idx) {
                return Err(format!("insert returned index {idx} which is already in use"));
            }
            match list.get(idx) {
                Some(j) if j.pid == Pid(*pid) && class(j.state) == *st => {}
                other => return Err(format!("job just inserted not found at {idx}: {other:?}")),
            }
        }
        Op::Update(pid, st) => {
            let want = before.iter().find(|b| b.1 == Pid(*pid)).map(|b| b.0);
            let got = list.update_status(Pid(*pid), pstate(*st));
            if got != want {
                return Err(format!("update_status returned {got:?}, the job is {want:?}"));
            }
            if let Some(i) = want {
                let j = list.get(i).ok_or("updated job vanished")?;
                if class(j.state) != *st {
                    return Err("update_status did not store the new state".into());
                }
                let was = before.iter().find(|b| b.0 == i).unwrap();
                if !j.state_changed && !was.3 {
                    return Err("update_status without expectation must set state_changed".into());
                }
                // documented: a job that becomes suspended becomes the current job
                if was.2 != St::Stop && *st == St::Stop && list.current_job() != Some(i) {
                    return Err("a newly suspended job did not become the current job".into());
                }
            }
        }
        Op::SetCurrent(i) => {
            let exists = before.iter().find(|b| b.0 == *i);
            let any_susp = before.iter().any(|b| b.2 == St::Stop);
            let want = match exists {
                None => Err(SetCurrentJobError::NoSuchJob),
                Some(b) if b.2 != St::Stop && any_susp => Err(SetCurrentJobError::NotSuspended),
                Some(_) => Ok(()),
            };
            let got = list.set_current_job(*i);
            if got != want {
                return Err(format!("set_current_job({i}) = {got:?}, documented {want:?}"));
            }
            if got.is_ok() {
                if list.current_job() != Some(*i) {
                    return Err("set_current_job succeeded but current job differs".into());
                }
                if old_cur != Some(*i) && list.previous_job() != old_cur {
                    return Err("old current job did not become the previous job".into());
                }
            } else if list.current_job() != old_cur || list.previous_job() != old_prev {
                return Err("failed set_current_job changed the table".into());
            }
        }
        Op::Remove(i) => {
            let exists = before.iter().find(|b| b.0 == *i);
            let got = list.remove(*i);
            match (exists, &got) {
                (None, None) => {}
                (Some(b), Some(j)) if j.pid == b.1 => {
                    removed.push(*i);
                    if old_cur == Some(*i) && old_prev.is_some() && list.current_job() != old_prev {
                        return Err("removing the current job did not promote the previous job".into());
                    }
                    if old_cur != Some(*i) && list.current_job() != old_cur {
                        return Err("removing a non-current job changed the current job".into());
                    }
                }
                _ => return Err(format!("remove({i}) returned {got:?}, table had {exists:?}")),
            }
        }
        Op::RemoveIf(k) => {
            let pred = |i: usize, st: St, changed: bool| -> bool {
                match k {
                    0 => matches!(st, St::Exit | St::Sig),
                    1 => !changed,
                    2 => true,
                    _ => i % 2 == 0,
                }
            };
            let mut visited = Vec::new();
            list.remove_if(|i, j| {
                visited.push(i);
                pred(i, class(j.state), j.state_changed)
            });
            for b in &before {
                if !visited.contains(&b.0) {
                    return Err(format!("remove_if did not visit job {}", b.0));
                }
                if pred(b.0, b.2, b.3) {
                    removed.push(b.0);
                    if list.get(b.0).is_some() {
                        return Err(format!("remove_if kept job {} although selected", b.0));
                    }
                }
            }
        }
        Op::Report(i) => {
            if let Some(mut j) = list.get_mut(*i) {
                j.state_reported();
            }
            if list.get(*i).map(|j| j.state_changed) == Some(true) {
                return Err("state_reported did not clear the flag".into());
            }
        }
    }
    // a job's number never changes while the job exists
    for b in &before {
        if removed.contains(&b.0) {
            if list.get(b.0).is_some() || list.find_by_pid(b.1).is_some() {
                return Err(format!("removed job {} still reachable", b.0));
            }
            continue;
        }
        let _ = replaced;
        match list.get(b.0) {
            Some(j) if j.pid == b.1 => {}
            other => {
                return Err(format!(
                    "job number {} (pid {}) changed or vanished: now {:?}",
                    b.0,
                    b.1.0,
                    other.map(|j| j.pid.0)
                ));
            }
        }
    }
    invariants(list)
}

pub fn run(ctx: &Ctx) {
    let depth = if ctx.quick() { 10 } else { 40 };
    let _ = ctx.seed; // exhaustive: does not depend on the seed
    let mut seen: HashSet<String> = HashSet::new();
    let mut queue: VecDeque<(JobList, Vec<Op>)> = VecDeque::new();
    let init = JobList::new();
    if let Err(e) = invariants(&init) {
        ctx.violation("init", e);
    }
    seen.insert(key(&init));
    queue.push_back((init, Vec::new()));
    let mut transitions = 0usize;
    let mut maxjobs = 0;
    let mut by_op: std::collections::BTreeMap<&'static str, i64> = Default::default();
    while let Some((list, hist)) = queue.pop_front() {
        if hist.len() >= depth {
            continue;
        }
        for op in ops_for(&list) {
            let mut next = list.clone();
            transitions += 1;
            *by_op
                .entry(match op {
                    Op::Insert(..) => "insert",
                    Op::Update(..) => "update_status",
                    Op::SetCurrent(..) => "set_current_job",
                    Op::Remove(..) => "remove",
                    Op::RemoveIf(..) => "remove_if",
                    Op::Report(..) => "state_reported",
                })
                .or_insert(0) += 1;
            let r = std::panic::catch_unwind(std::panic::AssertUnwindSafe(|| {
                let r = apply(&mut next, &op);
                (r, next)
            }));
            let mut h = hist.clone();
            h.push(op.clone());
            match r {
                Err(p) => {
                    let msg = crate::util::panic_msg(&p);
                    ctx.violation(
                        format!("panic:{}", msg.split(':').take(2).collect::<Vec<_>>().join(":")),
                        format!("history {h:?}\nfrom state {}\npanic: {msg}", describe(&list)),
                    );
                }
                Ok((Err(e), next)) => {
                    ctx.violation(
                        format!("invariant:{}", e.split(|c: char| c.is_ascii_digit()).next().unwrap_or("")),
                        format!(
                            "history {h:?}\nstate before: {}\nstate after: {}\nviolated: {e}",
                            describe(&list),
                            describe(&next)
                        ),
                    );
                }
                Ok((Ok(()), next)) => {
                    maxjobs = maxjobs.max(next.len());
                    let k = key(&next);
                    if seen.insert(k.clone()) {
                        if next.len() >= 1 {
                            ctx.nontrivial_str(&k);
                        }
                        if seen.len() % 4000 == 1 {
                            ctx.sample(J::obj(vec![
                                ("history", J::s(format!("{h:?}"))),
                                ("state", J::s(describe(&next))),
                            ]));
                        }
                        queue.push_back((next, h));
                    }
                }
            }
            if ctx.violation_count() > 20 {
                break;
            }
        }
        if ctx.violation_count() > 20 {
            break;
        }
    }
    ctx.evals(transitions);
    for (k, v) in by_op {
        ctx.count(&format!("transitions_{k}"), v);
    }
    ctx.count("distinct_states", seen.len() as i64);
    ctx.count("depth", depth as i64);
    ctx.count("max_live_jobs", maxjobs as i64);
    *ctx.exhaustive.lock().unwrap() = Some(true);
    ctx.assume("pids of live jobs are not re-inserted (the kernel never hands out the pid of an unreaped child)");
    ctx.assume("expected_state/expect() is not exercised (it only affects the report flag)");
}

pub const RULE: &str = "breadth-first enumeration of all histories over {insert running/suspended with a fresh pid or the pid of a finished job; update_status to running/stopped/exited/signaled for every job and one unknown pid; set_current_job(i), remove(i) for i in 0..=4; remove_if with 4 predicates; state_reported} on the real yash_env::job::JobList, at most 4 live jobs, to the stated depth, de-duplicated on (jobs with index/pid/state class/report flag, raw current/previous indices); evaluations = transitions executed; distinct_nontrivial = distinct reachable tables holding at least one job";
