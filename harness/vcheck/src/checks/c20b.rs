//! C20 part B — every equivalent spelling of a built-in invocation behaves identically; malformed
//! ones are rejected with a diagnostic, a non-zero status and no effect.
//!
//! The catalogue below is written from docs/src/builtins/*.md (option tables: short name, long
//! name, whether the option takes an argument) and docs/src/environment/options.md. For each
//! invocation the rewriter produces the spellings the documentation declares equivalent: short
//! options separate or grouped, option-argument attached or separate, long option in full or as
//! any unambiguous prefix with `=ARG` or a separate argument, `--` before the operands. Each
//! spelling runs in a fresh shell on the virtual system; stdout, exit status, emptiness of stderr
//! and the state snapshot after the command must equal those of the canonical spelling.

use crate::util::{Ctx, J, Rng};
use crate::vsh::{self, Event, FileSpec};
use std::collections::BTreeMap;

#[derive(Clone, Copy)]
struct O {
    short: char,
    long: &'static str,
    arg: bool,
}

const fn o(short: char, long: &'static str) -> O {
    O { short, long, arg: false }
}

struct Builtin {
    name: &'static str,
    /// special built-in: malformed invocations are run through `command` so that the shell survives
    special: bool,
    opts: &'static [O],
    /// (set-up script, options as (short name, argument), operands, here-document for stdin)
    cases: &'static [Case],
}

struct Case {
    setup: &'static str,
    opts: &'static [(char, &'static str)],
    operands: &'static [&'static str],
    stdin: &'static str,
}

const fn case(setup: &'static str, opts: &'static [(char, &'static str)], operands: &'static [&'static str]) -> Case {
    Case {
        setup,
        opts,
        operands,
        stdin: "",
    }
}

const ULIMIT_OPTS: [O; 23] = [
    o('S', "soft"),
    o('H', "hard"),
    o('a', "all"),
    o('b', "sbsize"),
    o('c', "core"),
    o('d', "data"),
    o('e', "nice"),
    o('f', "fsize"),
    o('i', "sigpending"),
    o('k', "kqueues"),
    o('l', "memlock"),
    o('m', "rss"),
    o('n', "nofile"),
    o('q', "msgqueue"),
    o('R', "rttime"),
    o('r', "rtprio"),
    o('s', "stack"),
    o('t', "cpu"),
    o('u', "nproc"),
    o('v', "as"),
    o('w', "swap"),
    o('x', "locks"),
    // (not an option: keeps the array length fixed) - never used in a case
    O { short: '\0', long: "", arg: false },
];

const CATALOGUE: &[Builtin] = &[
    Builtin {
        name: "cd",
        special: false,
        opts: &[o('L', "logical"), o('P', "physical"), o('e', "ensure-pwd")],
        cases: &[
            case("", &[('P', "")], &["/d1"]),
            case("", &[('L', "")], &["/d1/d2/.."]),
            case("", &[('P', ""), ('e', "")], &["/d1/d2"]),
            case("", &[('L', ""), ('P', "")], &["d1"]),
            case("", &[('P', ""), ('L', "")], &["/d1/../d1"]),
            case("cd /d1", &[('P', "")], &["-P"]),
            case("cd /d1; cd /", &[('L', "")], &["-"]),
            case("", &[], &["/d1"]),
        ],
    },
    Builtin {
        name: "pwd",
        special: false,
        opts: &[o('L', "logical"), o('P', "physical")],
        cases: &[case("cd /d1/d2", &[('L', "")], &[]), case("cd /d1", &[('P', "")], &[]), case("cd /d1", &[('L', ""), ('P', "")], &[]), case("", &[], &[])],
    },
    Builtin {
        name: "command",
        special: false,
        opts: &[o('p', "path"), o('v', "identify"), o('V', "verbose-identify")],
        cases: &[
            case("", &[('v', "")], &["cd"]),
            case("", &[('V', "")], &["cd"]),
            case("", &[('v', "")], &["cat"]),
            case("", &[('p', ""), ('v', "")], &["cat"]),
            case("", &[('p', "")], &["probe", "ran", "-v"]),
            case("", &[], &["probe", "ran", "--", "x"]),
            case("f1() { probe f; }", &[('v', "")], &["f1"]),
        ],
    },
    Builtin {
        name: "export",
        special: true,
        opts: &[o('p', "print")],
        cases: &[case("export v1=a", &[('p', "")], &[]), case("export v1=a", &[('p', "")], &["v1", "PATH"]), case("", &[], &["v2=b c"]), case("v3=x", &[], &["v3"]), case("", &[], &["+", "v4=1"]), case("", &[], &["-", "v4=1"]), case("typeset -- -=h +=p", &[('p', "")], &["-", "+"])],
    },
    Builtin {
        name: "readonly",
        special: true,
        opts: &[o('p', "print")],
        cases: &[case("readonly v1=a", &[('p', "")], &[]), case("readonly v1=a", &[('p', "")], &["v1"]), case("", &[], &["v2=b"]), case("", &[], &["-"]), case("", &[], &["+", "-"]), case("readonly -- -=h", &[('p', "")], &["-"])],
    },
    Builtin {
        name: "typeset",
        special: false,
        opts: &[o('g', "global"), o('r', "readonly"), o('x', "export"), o('p', "print"), o('f', "functions")],
        cases: &[
            case("", &[('x', "")], &["v=1"]),
            case("", &[('x', ""), ('r', "")], &["v=1", "w=2"]),
            case("", &[('g', ""), ('x', "")], &["v=1"]),
            case("v=1; export w=2", &[('p', "")], &["v", "w"]),
            case("v=1; export w=2", &[('p', ""), ('x', "")], &[]),
            case("v=1; readonly w=2", &[('r', "")], &[]),
            case("f1() { probe a; }; f2() { :; }", &[('f', ""), ('p', "")], &["f1"]),
            case("f1() { probe a; }; f2() { :; }", &[('f', ""), ('r', "")], &["f2"]),
            case("f1() { probe a; }; typeset -fr f1; f2() { :; }", &[('f', ""), ('p', ""), ('r', "")], &[]),
            // a lone `-` or `+` is an operand (here: a variable name)
            case("typeset -- -=hyphen +=plus", &[('p', "")], &["-"]),
            case("typeset -- -=hyphen +=plus", &[('p', "")], &["+", "-"]),
            case("", &[('x', "")], &["-", "v=1"]),
            case("", &[('g', "")], &["+", "v=1"]),
        ],
    },
    Builtin {
        name: "read",
        special: false,
        opts: &[
            O {
                short: 'd',
                long: "delimiter",
                arg: true,
            },
            o('r', "raw-mode"),
        ],
        cases: &[
            Case {
                setup: "",
                opts: &[('d', "+")],
                operands: &["a", "b"],
                stdin: "12 4\\2 + foo bar\nnext line\n",
            },
            Case {
                setup: "",
                opts: &[('r', ""), ('d', ":")],
                operands: &["a", "b"],
                stdin: "12 4\\2:rest\n",
            },
            Case {
                setup: "",
                opts: &[('d', ":"), ('r', "")],
                operands: &["a"],
                stdin: "x\\\ny:z\n",
            },
            Case {
                setup: "",
                opts: &[('r', "")],
                operands: &["a", "b"],
                stdin: "p\\q r s\n",
            },
            Case {
                setup: "",
                opts: &[('d', "=")],
                operands: &["a", "b"],
                stdin: "k=v=w\n",
            },
            Case {
                setup: "",
                opts: &[('d', "")],
                operands: &["a"],
                stdin: "two\nlines\n",
            },
            Case {
                setup: "",
                opts: &[],
                operands: &["-r"],
                stdin: "p\\q\n",
            },
        ],
    },
    Builtin {
        name: "trap",
        special: true,
        opts: &[o('p', "print")],
        cases: &[case("trap 'probe t' INT; trap '' USR1", &[('p', "")], &[]), case("trap 'probe t' INT", &[('p', "")], &["INT", "EXIT"]), case("", &[], &["probe x", "USR2"]), case("trap 'probe t' INT", &[], &["-", "INT"])],
    },
    Builtin {
        name: "umask",
        special: false,
        opts: &[o('S', "symbolic")],
        cases: &[case("umask 027", &[('S', "")], &[]), case("", &[('S', "")], &["u=rwx,g=rx,o="]), case("", &[], &["077"]), case("umask 022", &[], &[])],
    },
    Builtin {
        name: "unalias",
        special: false,
        opts: &[o('a', "all")],
        cases: &[case("alias a1=x a2=y", &[('a', "")], &[]), case("alias a1=x a2=y", &[], &["a1"]), case("alias a1=x a2=y -a=z", &[], &["-a"])],
    },
    Builtin {
        name: "unset",
        special: true,
        opts: &[o('v', "variables"), o('f', "functions")],
        cases: &[
            case("x=1; x() { :; }", &[('v', "")], &["x"]),
            case("x=1; x() { :; }", &[('f', "")], &["x"]),
            case("x=1; y=2; x() { :; }", &[], &["x", "y"]),
            case("x=1; typeset -- -=h", &[], &["-", "x"]),
            case("x=1; typeset -- -=h", &[('v', "")], &["-"]),
        ],
    },
    Builtin {
        name: "ulimit",
        special: false,
        opts: &ULIMIT_OPTS,
        cases: &[
            case("", &[('n', "")], &[]),
            case("", &[('S', ""), ('n', "")], &[]),
            case("", &[('H', ""), ('n', "")], &[]),
            case("", &[('S', ""), ('n', "")], &["50"]),
            case("", &[('n', "")], &["40"]),
            case("", &[('S', ""), ('H', ""), ('n', "")], &["30"]),
            case("", &[('a', "")], &[]),
            case("", &[('H', ""), ('a', "")], &[]),
            case("", &[('c', "")], &[]),
            case("", &[('s', "")], &[]),
            // every resource: set through the short option, asked for through every spelling
            case("ulimit -b 3", &[('b', "")], &[]),
            case("ulimit -c 4", &[('c', "")], &[]),
            case("ulimit -d 5", &[('d', "")], &[]),
            case("ulimit -e 6", &[('e', "")], &[]),
            case("ulimit -f 7", &[('f', "")], &[]),
            case("ulimit -i 8", &[('i', "")], &[]),
            case("ulimit -k 9", &[('k', "")], &[]),
            case("ulimit -l 10", &[('l', "")], &[]),
            case("ulimit -m 11", &[('m', "")], &[]),
            case("ulimit -q 12", &[('q', "")], &[]),
            case("ulimit -R 13", &[('R', "")], &[]),
            case("ulimit -r 14", &[('r', "")], &[]),
            case("ulimit -s 15", &[('s', "")], &[]),
            case("ulimit -t 16", &[('t', "")], &[]),
            case("ulimit -u 17", &[('u', "")], &[]),
            case("ulimit -v 18", &[('v', "")], &[]),
            case("ulimit -w 19", &[('w', "")], &[]),
            case("ulimit -x 20", &[('x', "")], &[]),
        ],
    },
    Builtin {
        name: "jobs",
        special: false,
        opts: &[o('l', "verbose"), o('p', "pgid-only")],
        cases: &[case("", &[('l', "")], &[]), case("", &[('p', "")], &[]), case("", &[], &[])],
    },
    Builtin {
        name: "return",
        special: true,
        opts: &[o('n', "no-return")],
        cases: &[case("", &[('n', "")], &["3"]), case("", &[('n', "")], &[])],
    },
    Builtin {
        name: "alias",
        special: false,
        opts: &[],
        cases: &[case("", &[], &["a1=x y", "a2=z"]), case("alias a1=x", &[], &["a1"]), case("alias a1=x", &[], &[]), case("alias a1=x", &[], &["-", "a1"])],
    },
    Builtin {
        name: "type",
        special: false,
        opts: &[],
        cases: &[case("", &[], &["cd", "cat"]), case("alias a1=x", &[], &["a1"]), case("", &[], &["-", "cd"])],
    },
    Builtin {
        name: "wait",
        special: false,
        opts: &[],
        cases: &[case("", &[], &[])],
    },
    Builtin {
        name: "getopts",
        special: false,
        opts: &[],
        cases: &[case("", &[], &["ab:", "v", "-a", "-bX", "op"]), case("", &[], &["ab:", "v", "-b"])],
    },
];

// ------------------------------------------------------------------ spelling generation

fn sq(s: &str) -> String {
    if !s.is_empty() && s.chars().all(|c| c.is_ascii_alphanumeric() || "-_=+/.,:".contains(c)) {
        s.to_string()
    } else {
        format!("'{}'", s.replace('\'', "'\\''"))
    }
}

fn real_opts(b: &Builtin) -> Vec<O> {
    b.opts.iter().copied().filter(|o| o.short != '\0').collect()
}

fn unambiguous_prefixes(opts: &[O], long: &str) -> Vec<String> {
    let mut v = Vec::new();
    for n in 1..long.len() {
        let p = &long[..n];
        let matches = opts.iter().filter(|o| o.long.starts_with(p)).count();
        // an exact name always wins, but a proper prefix of it must be unique
        if matches == 1 {
            v.push(p.to_string());
        }
    }
    v
}

/// all spellings of one option occurrence as argument lists; `group` = (letters so far) if the
/// previous argument is a group of argument-less short options this one may join
fn option_forms(opts: &[O], short: char, arg: &str, rng: &mut Rng, all_prefixes: bool) -> Vec<(Vec<String>, bool /* is plain short, joinable */)> {
    let od = opts.iter().find(|o| o.short == short).expect("option in table");
    let mut forms: Vec<(Vec<String>, bool)> = Vec::new();
    let mut longs = vec![od.long.to_string()];
    let pre = unambiguous_prefixes(opts, od.long);
    if all_prefixes {
        longs.extend(pre);
    } else if !pre.is_empty() {
        // shortest, and a random one
        longs.push(pre[0].clone());
        longs.push(rng.pick(&pre).clone());
    }
    if od.arg {
        if !arg.is_empty() {
            forms.push((vec![format!("-{short}{arg}")], true));
        }
        forms.push((vec![format!("-{short}"), arg.to_string()], true));
        for l in longs {
            forms.push((vec![format!("--{l}={arg}")], false));
            forms.push((vec![format!("--{l}"), arg.to_string()], false));
        }
    } else {
        forms.push((vec![format!("-{short}")], true));
        for l in longs {
            forms.push((vec![format!("--{l}")], false));
        }
    }
    forms
}

/// every spelling of (options, operands); capped by sampling
fn spellings(b: &Builtin, c: &Case, rng: &mut Rng, cap: usize, all_prefixes: bool) -> Vec<Vec<String>> {
    let opts = real_opts(b);
    // per option: list of forms
    let per: Vec<Vec<(Vec<String>, bool)>> = c.opts.iter().map(|(s, a)| option_forms(&opts, *s, a, rng, all_prefixes)).collect();
    let mut out: Vec<Vec<String>> = Vec::new();
    let total: usize = per.iter().map(|f| f.len()).product::<usize>().max(1);
    let build = |choice: &[usize], merge: &[bool], dashdash: bool| -> Vec<String> {
        let mut args: Vec<String> = Vec::new();
        // (index of the argument that is an open short group: may take more letters)
        let mut open_group: Option<usize> = None;
        for (k, &ci) in choice.iter().enumerate() {
            let (form, is_short) = &per[k][ci];
            let takes_arg = opts.iter().find(|o| o.short == c.opts[k].0).unwrap().arg;
            if *is_short && merge[k] {
                if let Some(g) = open_group {
                    // join the previous group: -a + -b -> -ab ; -a + -dX -> -adX ; -a + (-d X) -> -ad X
                    let first = &form[0];
                    args[g].push_str(&first[1..]);
                    args.extend(form[1..].iter().cloned());
                    if takes_arg {
                        open_group = None;
                    }
                    continue;
                }
            }
            let at = args.len();
            args.extend(form.iter().cloned());
            open_group = if *is_short && !takes_arg { Some(at) } else { None };
        }
        if dashdash {
            args.push("--".into());
        }
        args.extend(c.operands.iter().map(|s| s.to_string()));
        args
    };
    // operands that look like options need `--` in every spelling
    let needs_dd = c.operands.first().is_some_and(|s| s.starts_with('-') && s.len() > 1);
    let n = c.opts.len();
    let mut seen = std::collections::BTreeSet::new();
    let mut push = |v: Vec<String>, out: &mut Vec<Vec<String>>| {
        if seen.insert(v.clone()) {
            out.push(v);
        }
    };
    // canonical first: separate short options, no `--` unless needed
    let canon_choice: Vec<usize> = per.iter().map(|f| canonical_index(f)).collect();
    push(build(&canon_choice, &vec![false; n], needs_dd), &mut out);
    if total * 4 <= cap {
        // exhaustive: all form choices x all merge vectors x dashdash
        let mut choice = vec![0usize; n];
        loop {
            for m in 0..(1u32 << n) {
                let merge: Vec<bool> = (0..n).map(|k| m & (1 << k) != 0).collect();
                for dd in [false, true] {
                    if needs_dd && !dd {
                        continue;
                    }
                    push(build(&choice, &merge, dd), &mut out);
                }
            }
            let mut k = 0;
            loop {
                if k == n {
                    return out;
                }
                choice[k] += 1;
                if choice[k] < per[k].len() {
                    break;
                }
                choice[k] = 0;
                k += 1;
            }
        }
    }
    for _ in 0..cap * 3 {
        if out.len() >= cap {
            break;
        }
        let choice: Vec<usize> = per.iter().map(|f| rng.below(f.len() as u64) as usize).collect();
        let merge: Vec<bool> = (0..n).map(|_| rng.chance(50)).collect();
        let dd = needs_dd || rng.chance(40);
        push(build(&choice, &merge, dd), &mut out);
    }
    out
}

fn canonical_index(forms: &[(Vec<String>, bool)]) -> usize {
    // the separate short form: `-x` or `-x ARG`
    forms.iter().position(|(f, s)| *s && f[0].len() == 2).unwrap_or(0)
}

// ------------------------------------------------------------------ running

fn files() -> Vec<(String, FileSpec)> {
    vec![
        ("/d1".into(), FileSpec::Dir),
        ("/d1/d2".into(), FileSpec::Dir),
        ("/d1/-P".into(), FileSpec::Dir),
    ]
}

#[derive(Clone, PartialEq, Eq, Debug)]
struct Obs {
    stdout: String,
    status: String,
    stderr_empty: bool,
    snap: BTreeMap<String, String>,
    vars: String,
    finished: bool,
}

fn parse_snap(e: &Event) -> BTreeMap<String, String> {
    e.args[1..].iter().filter_map(|a| a.split_once('=').map(|(k, v)| (k.to_string(), v.to_string()))).collect()
}

fn run_invocation(b: &Builtin, c: &Case, prefix: &str, args: &[String]) -> (Obs, Obs, String) {
    let mut line = format!("{prefix}{}", b.name);
    for a in args {
        line.push(' ');
        line.push_str(&sq(a));
    }
    let mut script = String::new();
    script.push_str("umask 022\n");
    if !c.setup.is_empty() {
        script.push_str(c.setup);
        script.push('\n');
    }
    script.push_str("snap before\n");
    if b.name == "return" {
        // inside a function, so that an effective return would be visible
        // (the function is removed again so that its text does not show up in the state comparison)
        script.push_str(&format!("fr() {{ {line}; probe in-function \"$?\"; }}\nfr\nprobe after-function \"$?\"\nunset -f fr\n"));
    } else if !c.stdin.is_empty() {
        script.push_str(&format!("{line} <<'VERIF_EOF'\n{}VERIF_EOF\n", c.stdin));
    } else {
        script.push_str(&line);
        script.push('\n');
    }
    script.push_str("probe st \"$?\" \"$PWD\" \"$OLDPWD\" \"${a-unset}\" \"${b-unset}\" \"${v-unset}\" \"${OPTIND-}\" \"${OPTARG-unset}\" \"$#\"\nsnap after\n");
    let mut cfg = vsh::VCfg::script(&script);
    cfg.extra = vsh::v_probes();
    cfg.files = files();
    let out = vsh::run_v(cfg);
    let snaps: Vec<&Event> = out.events.iter().filter(|e| e.kind == "snap").collect();
    let get = |tag: &str| snaps.iter().find(|e| e.args[0] == tag).map(|e| parse_snap(e)).unwrap_or_default();
    let st = out.events.iter().find(|e| e.kind == "probe" && e.args.first().is_some_and(|a| a == "st"));
    let wrapper = |a: &String| a == "in-function" || a == "after-function";
    let others: Vec<String> = out.events.iter().filter(|e| e.kind == "probe" && e.args.first().is_some_and(|a| a != "st" && !wrapper(a))).map(|e| format!("{:?}", e.args)).collect();
    // `return` runs inside a function: its own status is what the next command in the function sees
    let inner: Vec<String> = out.events.iter().filter(|e| e.kind == "probe" && e.args.first().is_some_and(wrapper)).map(|e| format!("{:?}", e.args)).collect();
    let inner_status = out.events.iter().find(|e| e.kind == "probe" && e.args.first().is_some_and(|a| a == "in-function")).map(|e| e.args[1].clone());
    let mk = |snap: BTreeMap<String, String>| Obs {
        stdout: format!("{}{}", out.out(), others.join(";")),
        status: if b.name == "return" {
            inner_status.clone().unwrap_or_else(|| "returned".into())
        } else {
            st.map(|e| e.args[1].clone()).unwrap_or_else(|| format!("shell exited: {:?}", out.status))
        },
        stderr_empty: out.err().is_empty(),
        vars: format!("{}{}", st.map(|e| e.args[2..].join("\u{1}")).unwrap_or_default(), inner.join(";")),
        finished: st.is_some() && out.end == vsh::End::Done,
        snap,
    };
    let before = mk(get("before"));
    let mut after_snap = get("after");
    // descriptors: identities differ from run to run only by allocation order; keep
    after_snap.remove("fds");
    let mut before_snap = before.snap.clone();
    before_snap.remove("fds");
    let after = mk(after_snap);
    let before = Obs { snap: before_snap, ..before };
    (before, after, format!("{script}\n--- stderr:\n{}", out.err()))
}

fn diff(a: &Obs, b: &Obs) -> String {
    let mut d = Vec::new();
    if a.stdout != b.stdout {
        d.push(format!("stdout {:?} vs {:?}", a.stdout, b.stdout));
    }
    if a.status != b.status {
        d.push(format!("exit status {} vs {}", a.status, b.status));
    }
    if a.stderr_empty != b.stderr_empty {
        d.push(format!("stderr empty: {} vs {}", a.stderr_empty, b.stderr_empty));
    }
    if a.vars != b.vars {
        d.push(format!("variables {:?} vs {:?}", a.vars, b.vars));
    }
    for (k, v) in &a.snap {
        if b.snap.get(k) != Some(v) {
            d.push(format!("state facet {k}: {:?} vs {:?}", v, b.snap.get(k)));
        }
    }
    d.join("\n")
}

fn facet_names(d: &str) -> String {
    let mut v: Vec<&str> = d.lines().map(|l| l.split([' ', ':']).next().unwrap_or("")).collect();
    v.dedup();
    v.join("+")
}

pub fn run_b(ctx: &Ctx) {
    let quick = ctx.quick();
    let cap = if quick { 48 } else { 600 };
    let seed = ctx.seed;
    // flatten (builtin, case)
    let mut jobs: Vec<(usize, usize)> = Vec::new();
    for (bi, b) in CATALOGUE.iter().enumerate() {
        for ci in 0..b.cases.len() {
            jobs.push((bi, ci));
        }
    }
    let jobs = &jobs;
    ctx.par_for(
        jobs.len(),
        |j| {
            let (bi, ci) = jobs[j];
            let b = &CATALOGUE[bi];
            let c = &b.cases[ci];
            let mut rng = Rng::new(seed.wrapping_mul(0xC20).wrapping_add(j as u64));
            let sp = spellings(b, c, &mut rng, cap, !quick);
            let (_, canon, canon_script) = run_invocation(b, c, "", &sp[0]);
            ctx.eval();
            if !canon.finished {
                ctx.violation(
                    format!("B:canonical-invocation-failed:{}", b.name),
                    format!("the catalogue's canonical invocation did not complete\n{canon_script}"),
                );
                return;
            }
            ctx.nontrivial_str(&format!("{}:{:?}", b.name, sp[0]));
            for s in &sp[1..] {
                let (_, got, script) = run_invocation(b, c, "", s);
                ctx.eval();
                ctx.count("B_spellings_compared", 1);
                if got != canon {
                    let d = diff(&canon, &got);
                    ctx.violation(
                        format!("B:spelling-differs:{}:{}", b.name, facet_names(&d)),
                        format!(
                            "`{} {}` and `{} {}` should be equivalent but differ (canonical vs this spelling):\n{d}\n--- script of this spelling:\n{script}\n--- script of the canonical spelling:\n{canon_script}",
                            b.name,
                            sp[0].join(" "),
                            b.name,
                            s.join(" ")
                        ),
                    );
                } else {
                    ctx.nontrivial_str(&format!("{}:{:?}", b.name, s));
                }
            }
            if j % 9 == 0 {
                ctx.sample(J::obj(vec![
                    ("part", J::s("B: equivalent spellings")),
                    ("builtin", J::s(b.name)),
                    ("canonical", J::s(sp[0].join(" "))),
                    ("spellings", J::A(sp.iter().take(12).map(|s| J::s(s.join(" "))).collect())),
                    ("total_spellings", J::I(sp.len() as i64)),
                ]));
            }
        },
        |i, msg| {
            ctx.violation(
                if crate::util::panic_in_repo(&msg) { "B:panic" } else { "harness-panic" },
                format!("catalogue job {i}: {msg}"),
            )
        },
    );
    // malformed invocations, per built-in
    ctx.par_for(
        CATALOGUE.len(),
        |bi| {
            let b = &CATALOGUE[bi];
            let opts = real_opts(b);
            let mut bad: Vec<(&str, Vec<String>)> = Vec::new();
            let unused = ['Z', 'Q', 'z', 'y', 'J'].into_iter().find(|c| !opts.iter().any(|o| o.short == *c)).unwrap();
            bad.push(("unknown short option", vec![format!("-{unused}")]));
            bad.push(("unknown long option", vec!["--zzzunknown".into()]));
            if let Some(f) = opts.iter().find(|o| !o.arg) {
                bad.push(("unknown short option inside a group", vec![format!("-{}{unused}", f.short)]));
                bad.push(("argument given to an option that takes none", vec![format!("--{}=x", f.long)]));
                bad.push(("empty argument given to an option that takes none", vec![format!("--{}=", f.long)]));
            }
            // ambiguous prefixes
            let mut seen = std::collections::BTreeSet::new();
            for od in &opts {
                for n in 1..od.long.len() {
                    let p = &od.long[..n];
                    let m = opts.iter().filter(|q| q.long.starts_with(p)).count();
                    if m >= 2 && !opts.iter().any(|q| q.long == p) && seen.insert(p.to_string()) {
                        bad.push(("ambiguous long option prefix", vec![format!("--{p}")]));
                    }
                }
            }
            for od in opts.iter().filter(|o| o.arg) {
                bad.push(("missing option-argument (short)", vec![format!("-{}", od.short)]));
                bad.push(("missing option-argument (long)", vec![format!("--{}", od.long)]));
            }
            let prefix = if b.special { "command " } else { "" };
            let c = &b.cases[0];
            for (why, args) in bad {
                // with the operands of the first case after the bad argument where that makes sense
                let mut full = args.clone();
                if !why.starts_with("missing") {
                    full.extend(c.operands.iter().map(|s| s.to_string()));
                }
                let case0 = Case {
                    setup: c.setup,
                    opts: &[],
                    operands: &[],
                    stdin: c.stdin,
                };
                let (before, after, script) = run_invocation(b, &case0, prefix, &full);
                ctx.eval();
                ctx.count("B_malformed_invocations", 1);
                let mut problems = Vec::new();
                if !after.finished {
                    problems.push(format!("the shell did not survive: {}", after.status));
                } else {
                    if after.status == "0" {
                        problems.push("exit status 0".to_string());
                    }
                    if after.stderr_empty {
                        problems.push("no diagnostic on stderr".to_string());
                    }
                    if before.snap != after.snap {
                        problems.push(format!("the state changed:\n{}", diff(&before, &after)));
                    }
                    if !after.stdout.is_empty() {
                        problems.push(format!("output on stdout / commands ran: {:?}", after.stdout));
                    }
                }
                if !problems.is_empty() {
                    ctx.violation(
                        format!("B:malformed-accepted:{}:{}", b.name, why),
                        format!("`{prefix}{} {}` ({why}) must be rejected with a diagnostic, non-zero status and no effect, but:\n{}\n--- script:\n{script}", b.name, full.join(" "), problems.join("\n")),
                    );
                } else {
                    ctx.nontrivial_str(&format!("bad:{}:{:?}", b.name, full));
                }
            }
        },
        |i, msg| {
            ctx.violation(
                if crate::util::panic_in_repo(&msg) { "B:panic" } else { "harness-panic" },
                format!("malformed job {i}: {msg}"),
            )
        },
    );
    ctx.count("B_builtins_in_catalogue", CATALOGUE.len() as i64);
    ctx.count("B_catalogue_invocations", jobs.len() as i64);
}

// ------------------------------------------------------------------ bespoke parsers

/// (set-up, command lines that the documentation declares equivalent)
const SET_KILL_GROUPS: &[(&str, &[&str])] = &[
    ("", &["set -f", "set -o noglob", "set --noglob", "set +o glob", "set ++glob", "set --no-glob", "set --NOGLOB", "set --nogl", "set -f --"]),
    ("", &["set -a", "set -o allexport", "set --allexport", "set --all-export", "set +o noallexport", "set --allexp", "set --ALLEXPORT"]),
    ("set -a", &["set +a", "set +o allexport", "set ++allexport", "set --noallexport", "set -o noallexport"]),
    ("", &["set -au", "set -a -u", "set -ua", "set -u -a", "set -a --nounset", "set -o allexport -o nounset", "set --allexport --nounset", "set -a +o unset"]),
    ("", &["set -C", "set --noclobber", "set -o noclobber", "set +o clobber", "set ++clobber"]),
    ("set -C", &["set +C", "set --clobber", "set -o clobber", "set +o noclobber"]),
    ("", &["set -b", "set --notify", "set -o notify"]),
    ("", &["set -h", "set --hashondefinition", "set -o hashondefinition", "set --hash-on-definition"]),
    ("", &["set -f -- a b", "set -f a b", "set -f - a b", "set --noglob -- a b", "set -o noglob a b", "set -o noglob -- a b"]),
    ("", &["set -- -a b", "set - -a b"]),
    ("set x y", &["set --", "set -f +f --"]),
    ("trap 'probe got' USR1", &["kill -s USR1 $$", "kill -sUSR1 $$", "kill -s usr1 $$", "kill -s SIGUSR1 $$", "kill -USR1 $$", "kill -s USR1 -- $$", "kill -n USR1 $$", "kill -nUSR1 $$", "kill -sSIGUSR1 $$", "kill -nSIGUSR1 $$", "kill -ssigusr1 $$", "kill -s sigusr1 $$", "kill -SIGUSR1 $$"]),
    ("", &["kill -s 0 $$", "kill -0 $$", "kill -n 0 $$", "kill -s 0 -- $$", "kill -n0 $$"]),
    ("", &["kill -l", "kill -l --"]),
    ("", &["kill -l USR1", "kill -l -- USR1"]),
    // only the first `--` ends the options: what follows is an operand even if it is `--` or looks like an option
    ("", &["trap -- -- USR2", "trap -- \\-- USR2", "trap -- '--' USR2"]),
    ("", &["trap -- -p USR2", "trap -- '-p' USR2", "trap -- \\-p USR2"]),
    ("trap -- -- USR2", &["trap -- - USR2", "trap - USR2"]),
    ("x=1", &["unset -- -- x", "unset -v -- -- x", "unset -- x --"]),
    ("", &["set -- -- a", "set - -- a"]),
    ("", &["set -- -f --", "set - -f --"]),
];

const SET_KILL_MALFORMED: &[(&str, &str)] = &[
    ("ambiguous long option", "command set --c"),
    ("unknown long option", "command set --zzzunknown"),
    ("unknown short option", "command set -Z"),
    ("unknown option name", "command set -o zzzunknown"),
    ("unknown option name", "command set +o zzzunknown"),
    ("unknown short option inside a group", "command set -aZ"),
    ("missing signal", "kill -s"),
    ("unknown signal", "kill -s NOSUCHSIG $$"),
    ("unknown signal", "kill -NOSUCHSIG $$"),
    ("unknown long option", "kill --zzzunknown $$"),
    ("unknown long option", "kill -l --zzzunknown"),
    ("unknown option", "kill -s 0 ---- $$"),
    ("no target", "kill"),
    ("no target", "kill -s USR1"),
];

fn run_line(setup: &str, line: &str) -> (Obs, Obs, String) {
    let script = format!("{setup}\nsnap before\n{line}\nprobe st \"$?\" \"$#\" \"$*\"\nsnap after\n");
    let mut cfg = vsh::VCfg::script(&script);
    cfg.extra = vsh::v_probes();
    cfg.files = files();
    let out = vsh::run_v(cfg);
    let snaps: Vec<&Event> = out.events.iter().filter(|e| e.kind == "snap").collect();
    let get = |tag: &str| {
        let mut m = snaps.iter().find(|e| e.args[0] == tag).map(|e| parse_snap(e)).unwrap_or_default();
        m.remove("fds");
        m
    };
    let st = out.events.iter().find(|e| e.kind == "probe" && e.args.first().is_some_and(|a| a == "st"));
    let others: Vec<String> = out.events.iter().filter(|e| e.kind == "probe" && e.args.first().is_some_and(|a| a != "st")).map(|e| format!("{:?}", e.args)).collect();
    let mk = |snap: BTreeMap<String, String>| Obs {
        stdout: format!("{}{}", out.out(), others.join(";")),
        status: st.map(|e| e.args[1].clone()).unwrap_or_else(|| format!("shell exited: {:?}", out.status)),
        stderr_empty: out.err().is_empty(),
        vars: st.map(|e| e.args[2..].join("\u{1}")).unwrap_or_default(),
        finished: st.is_some() && out.end == vsh::End::Done,
        snap,
    };
    (mk(get("before")), mk(get("after")), format!("{script}\n--- stderr:\n{}", out.err()))
}

/// the shell's own command line: groups of argument vectors (after argv[0]) with the script on
/// standard input where `-s` is used
const CMDLINE_GROUPS: &[(&str, &[&[&str]])] = &[
    ("", &[&["-f", "-c", "probe *"], &["-fc", "probe *"], &["-c", "-f", "probe *"], &["-cf", "probe *"], &["-o", "noglob", "-c", "probe *"], &["--noglob", "-c", "probe *"], &["+o", "glob", "-c", "probe *"], &["-c", "--noglob", "probe *"], &["--no-glob", "-c", "probe *"], &["-c", "-o", "noglob", "probe *"]]),
    ("", &[&["-c", "probe \"$0\" \"$@\"", "n", "a", "b"], &["-c", "--", "probe \"$0\" \"$@\"", "n", "a", "b"]]),
    ("probe \"$#\" \"$@\"\n", &[&["-s", "a", "b"], &["-s", "--", "a", "b"], &["-s", "-", "a", "b"]]),
    ("", &[&["-a", "-u", "-c", "v=1; probe $-"], &["-au", "-c", "v=1; probe $-"], &["-auc", "v=1; probe $-"], &["--allexport", "--nounset", "-c", "v=1; probe $-"], &["-o", "allexport", "-o", "nounset", "-c", "v=1; probe $-"]]),
    ("", &[&["-C", "-c", "probe $-"], &["--noclobber", "-c", "probe $-"], &["+o", "clobber", "-c", "probe $-"], &["++clobber", "-c", "probe $-"]]),
];

const CMDLINE_MALFORMED: &[(&str, &[&str])] = &[
    ("unknown long option", &["--zzzunknown", "-c", "probe ran"]),
    ("unknown short option", &["-Z", "-c", "probe ran"]),
    ("unknown option name", &["-o", "zzzunknown", "-c", "probe ran"]),
    ("ambiguous long option", &["--c", "probe ran"]),
    ("missing command string", &["-c"]),
];

fn run_cmdline(stdin: &str, args: &[&str]) -> (String, String, bool, String) {
    let mut a = vec!["yash".to_string()];
    a.extend(args.iter().map(|s| s.to_string()));
    let mut cfg = vsh::VCfg::with_args(a);
    cfg.stdin = stdin.as_bytes().to_vec();
    cfg.extra = vsh::v_probes();
    cfg.files = vec![("/w".into(), FileSpec::Dir), ("/w/f1".into(), FileSpec::Regular(vec![])), ("/w/f2".into(), FileSpec::Regular(vec![]))];
    cfg.cwd = "/w".into();
    let out = vsh::run_v(cfg);
    let ev: Vec<String> = out.events.iter().map(|e| format!("{:?}", e.args)).collect();
    (ev.join(";"), format!("{:?}", out.status), out.err().is_empty(), out.err())
}

pub fn run_c(ctx: &Ctx) {
    ctx.par_for(
        SET_KILL_GROUPS.len(),
        |g| {
            let (setup, lines) = SET_KILL_GROUPS[g];
            let (_, canon, canon_script) = run_line(setup, lines[0]);
            ctx.eval();
            if !canon.finished || canon.status != "0" {
                ctx.violation(format!("C:canonical-invocation-failed:{}", lines[0]), canon_script.clone());
                return;
            }
            ctx.nontrivial_str(lines[0]);
            for l in &lines[1..] {
                let (_, got, script) = run_line(setup, l);
                ctx.eval();
                ctx.count("C_spellings_compared", 1);
                if got != canon {
                    let d = diff(&canon, &got);
                    ctx.violation(
                        format!("C:spelling-differs:{}:{}", l.split(' ').next().unwrap_or(""), l),
                        format!("`{}` and `{l}` should be equivalent but differ (canonical vs this spelling):\n{d}\n--- script:\n{script}", lines[0]),
                    );
                } else {
                    ctx.nontrivial_str(l);
                }
            }
        },
        |i, msg| ctx.violation(if crate::util::panic_in_repo(&msg) { "C:panic" } else { "harness-panic" }, format!("group {i}: {msg}")),
    );
    for (why, line) in SET_KILL_MALFORMED {
        let (before, after, script) = run_line("trap 'probe got' USR1", line);
        ctx.eval();
        ctx.count("C_malformed_invocations", 1);
        let mut problems = Vec::new();
        if !after.finished {
            problems.push(format!("the shell did not survive: {}", after.status));
        } else {
            if after.status == "0" {
                problems.push("exit status 0".into());
            }
            if after.stderr_empty {
                problems.push("no diagnostic on stderr".into());
            }
            if before.snap != after.snap {
                problems.push(format!("the state changed:\n{}", diff(&before, &after)));
            }
            if !after.stdout.is_empty() {
                problems.push(format!("output / commands ran: {:?}", after.stdout));
            }
        }
        if !problems.is_empty() {
            ctx.violation(format!("C:malformed-accepted:{line}"), format!("`{line}` ({why}) must be rejected without effect, but:\n{}\n--- script:\n{script}", problems.join("\n")));
        } else {
            ctx.nontrivial_str(line);
        }
    }
    for (stdin, group) in CMDLINE_GROUPS {
        let canon = run_cmdline(stdin, group[0]);
        ctx.eval();
        if canon.0.is_empty() {
            ctx.violation(format!("C:canonical-invocation-failed:yash {:?}", group[0]), format!("no probe event; status {}; stderr:\n{}", canon.1, canon.3));
            continue;
        }
        ctx.nontrivial_str(&format!("{:?}", group[0]));
        for args in &group[1..] {
            let got = run_cmdline(stdin, args);
            ctx.eval();
            ctx.count("C_spellings_compared", 1);
            if (&got.0, &got.1, got.2) != (&canon.0, &canon.1, canon.2) {
                ctx.violation(
                    format!("C:spelling-differs:yash:{args:?}"),
                    format!("`yash {:?}` and `yash {args:?}` should be equivalent\ncanonical: events {} status {} stderr-empty {}\nthis     : events {} status {} stderr-empty {}\nstderr:\n{}", group[0], canon.0, canon.1, canon.2, got.0, got.1, got.2, got.3),
                );
            } else {
                ctx.nontrivial_str(&format!("{args:?}"));
            }
        }
    }
    for (why, args) in CMDLINE_MALFORMED {
        let got = run_cmdline("", args);
        ctx.eval();
        ctx.count("C_malformed_invocations", 1);
        let mut problems = Vec::new();
        if !got.0.is_empty() {
            problems.push(format!("commands ran: {}", got.0));
        }
        if got.1.contains("ExitStatus(0)") || !got.1.contains("Exited") {
            problems.push(format!("status {}", got.1));
        }
        if got.2 {
            problems.push("no diagnostic on stderr".into());
        }
        if !problems.is_empty() {
            ctx.violation(format!("C:malformed-accepted:yash:{args:?}"), format!("`yash {args:?}` ({why}) must be rejected, but:\n{}", problems.join("\n")));
        } else {
            ctx.nontrivial_str(&format!("bad:{args:?}"));
        }
    }
}
