//! Reference model of alias substitution (XCU 2.3.1) as token-list rewriting.
//!
//! Input: an alias table and a command line made of blank-separated chunks (the generator never
//! glues two chunks together, so a token never mixes characters of different origin). Output:
//! the hand-substituted text (chunks joined by single blanks) and the number of substitutions.
//!
//! Rules implemented (from the standard's text and the documented yash extension of global
//! aliases):
//!  * a word is a candidate only if it is an unquoted literal;
//!  * it is replaced if it is in command-name position (first word of a simple command, after
//!    assignments and redirections), or if a replacement ending in a blank ends just before it
//!    (only blanks / line continuations in between), or if the alias is global;
//!  * a name is not replaced inside its own replacement (origin set carried by tokens);
//!  * reserved words in command position are reserved words whether or not they came out of a
//!    replacement, and are not candidates;
//!  * the replacement is re-scanned from its first token in the same grammatical state.

use std::collections::{BTreeMap, BTreeSet};

#[derive(Clone, Debug)]
pub struct AliasDef {
    pub value: String,
    pub global: bool,
}

pub type Table = BTreeMap<String, AliasDef>;

#[derive(Clone, Debug)]
struct Tok {
    text: String,
    origins: BTreeSet<String>,
    /// the gap before this token contains the final blank of a blank-ending replacement
    gap_flag: bool,
}

fn is_blank(c: char) -> bool {
    c == ' ' || c == '\t'
}

/// split into tokens: blanks separate; newlines and control operators are their own tokens even
/// when glued to a word (`x;`); `\<newline>` disappears; a redirection keeps its attached operand
fn chunks(text: &str) -> Vec<String> {
    let text = text.replace("\\\n", " ");
    let cs: Vec<char> = text.chars().collect();
    let mut out = Vec::new();
    let mut cur = String::new();
    let mut i = 0;
    while i < cs.len() {
        let c = cs[i];
        let flush = |cur: &mut String, out: &mut Vec<String>| {
            if !cur.is_empty() {
                out.push(std::mem::take(cur));
            }
        };
        if is_blank(c) {
            flush(&mut cur, &mut out);
        } else if c == '\n' {
            flush(&mut cur, &mut out);
            out.push("\n".to_string());
        } else if matches!(c, ';' | '&' | '|' | '(' | ')') {
            // `>&` and `>|` are redirection operators
            if matches!(c, '&' | '|') && (cur.ends_with('>') || (c == '&' && cur.ends_with('<'))) {
                cur.push(c);
            } else {
                flush(&mut cur, &mut out);
                if matches!(c, ';' | '&' | '|') && cs.get(i + 1) == Some(&c) {
                    out.push(format!("{c}{c}"));
                    i += 1;
                } else {
                    out.push(c.to_string());
                }
            }
        } else {
            cur.push(c);
        }
        i += 1;
    }
    if !cur.is_empty() {
        out.push(cur);
    }
    out
}

fn is_literal(w: &str) -> bool {
    !w.is_empty() && w.chars().all(|c| c.is_ascii_alphanumeric() || c == '_' || c == '!' || c == '{' || c == '}' || c == '.' || c == '-')
}

fn is_operator(w: &str) -> bool {
    matches!(w, ";" | "&" | "&&" | "||" | "|" | "(" | ")" | "\n" | ";;")
}

/// a redirection chunk: optional digits, then an operator, then an optional attached operand;
/// returns true if the operand is still to come
fn redir_chunk(w: &str) -> Option<bool> {
    let rest = w.trim_start_matches(|c: char| c.is_ascii_digit());
    for op in [">>", "<&", ">&", "<>", ">|", "<", ">"] {
        if let Some(operand) = rest.strip_prefix(op) {
            return Some(operand.is_empty());
        }
    }
    None
}

fn is_assignment(w: &str) -> bool {
    let Some((name, _)) = w.split_once('=') else { return false };
    !name.is_empty() && name.chars().all(|c| c.is_ascii_alphanumeric() || c == '_') && !name.chars().next().unwrap().is_ascii_digit()
}

#[derive(Clone, Copy, Debug, PartialEq)]
enum Frame {
    ForName,
    ForAfterName,
    ForWords,
    /// after the name (and word list) of a for loop: only `do` may come, which is not a command
    /// position - an ordinary alias name there is not substituted
    ForDo,
    CaseSubject,
    CaseIn,
    CasePattern,
    CaseBody { parens: u32 },
}

pub struct Outcome {
    pub text: String,
    pub substitutions: usize,
    /// the model met a shape it does not define (the case is skipped, never judged)
    pub undefined: Option<&'static str>,
}

pub fn substitute(table: &Table, line: &str) -> Outcome {
    let mut toks: Vec<Tok> = chunks(line)
        .into_iter()
        .map(|text| Tok {
            text,
            origins: BTreeSet::new(),
            gap_flag: false,
        })
        .collect();
    // gap flag after the last token (needed when a replacement is empty at the end; unused)
    let mut trailing_flag = false;
    let mut cmd = true;
    // no assignment or redirection of the current command seen yet: reserved words are recognised
    let mut start = true;
    // a compound command has just ended: only redirections and separators may follow; what a
    // word there means (and whether an alias is looked up for it) is not defined
    let mut after_compound = false;
    let mut redir = false;
    let mut stack: Vec<Frame> = Vec::new();
    let mut i = 0;
    let mut subs = 0;
    let mut undefined = None;
    let mut steps = 0;
    while i < toks.len() {
        steps += 1;
        if steps > 100_000 {
            undefined = Some("model step bound");
            break;
        }
        let t = toks[i].clone();
        let w = t.text.as_str();
        // ---------- operators
        if is_operator(w) {
            redir = false;
            match (w, stack.last().copied()) {
                ("(", Some(Frame::CasePattern)) => {}
                ("|", Some(Frame::CasePattern)) => {}
                (")", Some(Frame::CasePattern)) => {
                    *stack.last_mut().unwrap() = Frame::CaseBody { parens: 0 };
                    cmd = true;
                }
                ("(", Some(Frame::CaseBody { parens })) => {
                    *stack.last_mut().unwrap() = Frame::CaseBody { parens: parens + 1 };
                    cmd = true;
                }
                (")", Some(Frame::CaseBody { parens })) if parens > 0 => {
                    *stack.last_mut().unwrap() = Frame::CaseBody { parens: parens - 1 };
                    cmd = false;
                }
                (";;", Some(Frame::CaseBody { .. })) => {
                    *stack.last_mut().unwrap() = Frame::CasePattern;
                    cmd = false;
                }
                (";" | "\n", Some(Frame::ForWords | Frame::ForAfterName)) => {
                    *stack.last_mut().unwrap() = Frame::ForDo;
                    cmd = false;
                }
                ("\n", Some(Frame::ForDo)) => {}
                ("\n", Some(Frame::CaseIn | Frame::CasePattern)) => {}
                (")", _) => {
                    cmd = false;
                    after_compound = true;
                }
                _ => {
                    cmd = true;
                    after_compound = false;
                }
            }
            start = cmd;
            i += 1;
            continue;
        }
        // ---------- redirections
        if let Some(operand_follows) = redir_chunk(w) {
            redir = operand_follows;
            start = false;
            i += 1;
            continue;
        }
        let literal = is_literal(w);
        let candidate = |must: bool, toks: &Vec<Tok>| -> Option<&AliasDef> {
            if !literal {
                return None;
            }
            let a = table.get(w)?;
            if toks[i].origins.contains(w) {
                return None;
            }
            if must || a.global || toks[i].gap_flag {
                Some(a)
            } else {
                None
            }
        };
        // which grammatical role does this word have?
        let mut command_name_position = false;
        let mut after: Option<Box<dyn FnOnce(&mut bool, &mut Vec<Frame>)>> = None;
        if redir {
            after = Some(Box::new(|_cmd, _st| {}));
        } else {
            match stack.last().copied() {
                Some(Frame::ForName) => {
                    after = Some(Box::new(|_c, st| *st.last_mut().unwrap() = Frame::ForAfterName));
                }
                Some(Frame::ForAfterName) => {
                    if literal && w == "in" {
                        *stack.last_mut().unwrap() = Frame::ForWords;
                        i += 1;
                        continue;
                    }
                    // `do` directly after the name
                    *stack.last_mut().unwrap() = Frame::ForDo;
                    continue;
                }
                Some(Frame::ForDo) => {
                    if literal && w == "do" {
                        stack.pop();
                        cmd = true;
                        start = true;
                        i += 1;
                        continue;
                    }
                    // anything else is a syntax error unless an alias that applies in any
                    // position (global, or after a blank-ended value) turns it into `do`
                    after = Some(Box::new(|_c, _s| {}));
                }
                Some(Frame::ForWords) => {
                    after = Some(Box::new(|_c, _s| {}));
                }
                Some(Frame::CaseSubject) => {
                    after = Some(Box::new(|_c, st| *st.last_mut().unwrap() = Frame::CaseIn));
                }
                Some(Frame::CaseIn) => {
                    if literal && w == "in" {
                        *stack.last_mut().unwrap() = Frame::CasePattern;
                        i += 1;
                        continue;
                    }
                    undefined = Some("case without in");
                    break;
                }
                Some(Frame::CasePattern) => {
                    if literal && w == "esac" {
                        stack.pop();
                        cmd = false;
                        after_compound = true;
                        i += 1;
                        continue;
                    }
                    after = Some(Box::new(|_c, _s| {}));
                }
                _ => {
                    if cmd {
                        command_name_position = true;
                    } else {
                        after = Some(Box::new(|_c, _s| {}));
                    }
                }
            }
        }
        if command_name_position {
            // reserved words first
            if literal && start {
                let mut handled = true;
                match w {
                    "!" | "{" | "if" | "then" | "else" | "elif" | "while" | "until" | "do" => cmd = true,
                    "}" | "fi" | "done" => {
                        cmd = false;
                        after_compound = true;
                    }
                    "esac" => {
                        if matches!(stack.last(), Some(Frame::CaseBody { .. })) {
                            stack.pop();
                        }
                        cmd = false;
                        after_compound = true;
                    }
                    "for" => {
                        stack.push(Frame::ForName);
                        cmd = false;
                    }
                    "case" => {
                        stack.push(Frame::CaseSubject);
                        cmd = false;
                    }
                    "in" | "function" | "select" => {
                        undefined = Some("stray reserved word");
                    }
                    _ => handled = false,
                }
                if undefined.is_some() {
                    break;
                }
                if handled {
                    start = cmd;
                    i += 1;
                    continue;
                }
            }
            if is_assignment(w) {
                start = false;
                i += 1;
                continue;
            }
        }
        // ---------- alias substitution?
        if after_compound && !redir && !command_name_position && candidate(false, &toks).is_some() {
            undefined = Some("alias name right after a compound command");
            break;
        }
        if let Some(a) = candidate(command_name_position, &toks) {
            subs += 1;
            let ends_blank = a.value.chars().next_back().is_some_and(is_blank);
            let mut origins = t.origins.clone();
            origins.insert(w.to_string());
            let new: Vec<Tok> = chunks(&a.value)
                .into_iter()
                .map(|text| Tok {
                    text,
                    origins: origins.clone(),
                    gap_flag: false,
                })
                .collect();
            let k = new.len();
            let next_flag_add = ends_blank;
            toks.splice(i..=i, new);
            if k > 0 {
                toks[i].gap_flag = t.gap_flag;
                if i + k < toks.len() {
                    toks[i + k].gap_flag |= next_flag_add;
                } else {
                    trailing_flag |= next_flag_add;
                }
            } else if i < toks.len() {
                toks[i].gap_flag |= t.gap_flag || next_flag_add;
            } else {
                trailing_flag |= t.gap_flag || next_flag_add;
            }
            // re-scan from the first token of the replacement in the same state
            continue;
        }
        // ---------- an ordinary word
        start = false;
        if command_name_position {
            cmd = false;
        } else if let Some(f) = after {
            f(&mut cmd, &mut stack);
        }
        redir = false;
        i += 1;
    }
    let _ = trailing_flag;
    let mut text = String::new();
    for t in &toks {
        if t.text == "\n" {
            text.push('\n');
        } else {
            if !text.is_empty() && !text.ends_with('\n') {
                text.push(' ');
            }
            text.push_str(&t.text);
        }
    }
    Outcome {
        text,
        substitutions: subs,
        undefined,
    }
}
