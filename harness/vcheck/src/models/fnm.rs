//! Reference model of POSIX pattern matching notation (XCU 2.14, XBD 9.3.5), written from the
//! standard: a parser producing either an AST or "unspecified", and a brute-force matcher on chars.
//! Collating symbols and equivalence classes stand for their (single) literal character; character
//! classes are ASCII (as the crate under test documents: no locale support).

#[derive(Clone, Copy, Debug, PartialEq, Eq, Hash)]
pub enum PC {
    /// unquoted pattern character
    N(char),
    /// quoted / backslash-escaped character: always literal
    L(char),
}

impl PC {
    pub fn ch(self) -> char {
        match self {
            PC::N(c) | PC::L(c) => c,
        }
    }
}

#[derive(Clone, Debug, PartialEq, Eq)]
pub enum Item {
    Ch(char),
    Range(char, char),
    Class(&'static str),
}

#[derive(Clone, Debug, PartialEq, Eq)]
pub enum At {
    Ch(char),
    Any,
    Star,
    Set { neg: bool, items: Vec<Item> },
}

#[derive(Clone, Debug, PartialEq, Eq)]
pub enum Parsed {
    Ok(Vec<At>),
    /// POSIX leaves the meaning of this pattern unspecified/undefined (reason)
    Unspecified(&'static str),
}

pub const CLASSES: [&str; 12] = [
    "alpha", "digit", "alnum", "upper", "lower", "space", "blank", "punct", "print", "graph", "cntrl", "xdigit",
];

pub fn class_contains(name: &str, c: char) -> bool {
    if !c.is_ascii() {
        return false;
    }
    match name {
        "alpha" => c.is_ascii_alphabetic(),
        "digit" => c.is_ascii_digit(),
        "alnum" => c.is_ascii_alphanumeric(),
        "upper" => c.is_ascii_uppercase(),
        "lower" => c.is_ascii_lowercase(),
        "space" => matches!(c, ' ' | '\t' | '\n' | '\r' | '\x0b' | '\x0c'),
        "blank" => matches!(c, ' ' | '\t'),
        "punct" => c.is_ascii_punctuation(),
        "print" => c.is_ascii_graphic() || c == ' ',
        "graph" => c.is_ascii_graphic(),
        "cntrl" => c.is_ascii_control(),
        "xdigit" => c.is_ascii_hexdigit(),
        _ => false,
    }
}

enum BrRes {
    /// parsed bracket expression and index after the closing `]`
    Ok(At, usize),
    /// no closing bracket: the `[` is an ordinary character
    NotBracket,
    Unspec(&'static str),
}

/// Parse a bracket expression; `p[start]` is the character after the opening `[`.
fn bracket(p: &[PC], start: usize) -> BrRes {
    let mut i = start;
    let mut neg = false;
    match p.get(i) {
        Some(PC::N('!')) => {
            neg = true;
            i += 1;
        }
        // "[^" : unspecified in shell patterns (XCU 2.14.1)
        Some(PC::N('^')) => {
            // only unspecified if this really is a bracket expression; find out below
            return if closes(p, i + 2) {
                BrRes::Unspec("[^...] is unspecified")
            } else {
                BrRes::NotBracket
            };
        }
        _ => {}
    }
    // elements: (is_range_operator, item)
    #[derive(Clone, Debug)]
    enum El {
        Ch(char),
        Dash,
        Class(&'static str),
    }
    let mut els: Vec<El> = Vec::new();
    let first = i;
    loop {
        match p.get(i) {
            None => return BrRes::NotBracket,
            Some(PC::N(']')) if i > first => {
                i += 1;
                break;
            }
            Some(PC::N('[')) => {
                // possible [. .] [= =] [: :]
                match p.get(i + 1) {
                    Some(PC::N(d @ ('.' | '=' | ':'))) => {
                        // find the terminator d ]
                        let mut j = i + 2;
                        let mut content: Vec<PC> = Vec::new();
                        let mut found = false;
                        while j < p.len() {
                            if p[j] == PC::N(*d) && p.get(j + 1) == Some(&PC::N(']')) {
                                found = true;
                                break;
                            }
                            content.push(p[j]);
                            j += 1;
                        }
                        if !found {
                            // "[." without ".]" inside a bracket expression: undefined
                            return if closes(p, i + 2) {
                                BrRes::Unspec("unterminated [. [= or [: inside a bracket expression")
                            } else {
                                BrRes::NotBracket
                            };
                        }
                        if content.iter().any(|c| matches!(c, PC::L(_))) {
                            return BrRes::Unspec("quoted character inside [. .] / [= =] / [: :]");
                        }
                        let text: String = content.iter().map(|c| c.ch()).collect();
                        match d {
                            ':' => match CLASSES.iter().find(|n| **n == text) {
                                Some(n) => els.push(El::Class(n)),
                                None => return BrRes::Unspec("unknown character class"),
                            },
                            _ => {
                                let mut cs = text.chars();
                                match (cs.next(), cs.next()) {
                                    (Some(c), None) => els.push(El::Ch(c)),
                                    _ => return BrRes::Unspec("collating symbol / equivalence class that is not a single character"),
                                }
                            }
                        }
                        i = j + 2;
                        continue;
                    }
                    _ => els.push(El::Ch('[')),
                }
            }
            Some(PC::N('-')) => els.push(El::Dash),
            Some(PC::N(c)) => els.push(El::Ch(*c)),
            // A quoted (or backslash-escaped) character matches only itself: it is a member of
            // the set and never a range operator, a closing bracket, the negation mark or the
            // start of a class ("quoted or backslash-escaped characters match only themselves";
            // XCU 2.14.1 in Issue 8 says so explicitly for bracket expressions).
            Some(PC::L(c)) => els.push(El::Ch(*c)),
        }
        i += 1;
    }
    // turn elements into items: a dash is a range operator unless first or last
    let mut items = Vec::new();
    let n = els.len();
    let mut k = 0;
    while k < n {
        // `x-y` is a range when the dash is neither the first nor the last element
        if k + 2 < n && matches!(els[k + 1], El::Dash) {
            let endpoint = |e: &El| -> Result<char, &'static str> {
                match e {
                    El::Ch(c) => Ok(*c),
                    El::Dash => Ok('-'),
                    El::Class(_) => Err("character class as range endpoint"),
                }
            };
            let (start, end) = match (endpoint(&els[k]), endpoint(&els[k + 2])) {
                (Ok(a), Ok(b)) => (a, b),
                (Err(e), _) | (_, Err(e)) => return BrRes::Unspec(e),
            };
            if start > end {
                return BrRes::Unspec("reversed range");
            }
            // a-b-c is undefined (XBD 9.3.5 item 7)
            if k + 4 < n && matches!(els[k + 3], El::Dash) {
                return BrRes::Unspec("range endpoint shared by two ranges");
            }
            items.push(Item::Range(start, end));
            k += 3;
            continue;
        }
        match &els[k] {
            El::Ch(c) => items.push(Item::Ch(*c)),
            El::Dash => items.push(Item::Ch('-')),
            El::Class(c) => items.push(Item::Class(c)),
        }
        k += 1;
    }
    BrRes::Ok(At::Set { neg, items }, i)
}

/// Is there an unquoted `]` at or after position `from` (so that the bracket would close)?
fn closes(p: &[PC], from: usize) -> bool {
    p.iter().skip(from).any(|c| *c == PC::N(']'))
}

pub fn parse(p: &[PC]) -> Parsed {
    let mut out = Vec::new();
    let mut i = 0;
    while i < p.len() {
        match p[i] {
            PC::L(c) => out.push(At::Ch(c)),
            PC::N('?') => out.push(At::Any),
            PC::N('*') => out.push(At::Star),
            PC::N('[') => match bracket(p, i + 1) {
                BrRes::Ok(at, next) => {
                    out.push(at);
                    i = next;
                    continue;
                }
                BrRes::NotBracket => out.push(At::Ch('[')),
                BrRes::Unspec(why) => return Parsed::Unspecified(why),
            },
            PC::N(c) => out.push(At::Ch(c)),
        }
        i += 1;
    }
    Parsed::Ok(out)
}

fn set_contains(neg: bool, items: &[Item], c: char) -> bool {
    let inside = items.iter().any(|it| match it {
        Item::Ch(x) => *x == c,
        Item::Range(a, b) => *a <= c && c <= *b,
        Item::Class(n) => class_contains(n, c),
    });
    inside != neg
}

/// Does the whole of `text` match `atoms`? (brute force, with memoisation on (atom, position))
pub fn matches(atoms: &[At], text: &[char]) -> bool {
    fn go(atoms: &[At], text: &[char], ai: usize, ti: usize, memo: &mut Vec<Option<bool>>) -> bool {
        let key = ai * (text.len() + 1) + ti;
        if let Some(r) = memo[key] {
            return r;
        }
        let r = if ai == atoms.len() {
            ti == text.len()
        } else {
            match &atoms[ai] {
                At::Star => (ti..=text.len()).any(|t| go(atoms, text, ai + 1, t, memo)),
                At::Any => ti < text.len() && go(atoms, text, ai + 1, ti + 1, memo),
                At::Ch(c) => ti < text.len() && text[ti] == *c && go(atoms, text, ai + 1, ti + 1, memo),
                At::Set { neg, items } => {
                    ti < text.len() && set_contains(*neg, items, text[ti]) && go(atoms, text, ai + 1, ti + 1, memo)
                }
            }
        };
        memo[key] = Some(r);
        r
    }
    let mut memo = vec![None; (atoms.len() + 1) * (text.len() + 1)];
    go(atoms, text, 0, 0, &mut memo)
}

/// Whole-text match with the "leading period must be matched explicitly" rule (pathname use).
pub fn matches_period(atoms: &[At], text: &[char]) -> bool {
    if text.first() == Some(&'.') && !matches!(atoms.first(), Some(At::Ch('.'))) {
        return false;
    }
    matches(atoms, text)
}

#[derive(Clone, Copy, Debug, PartialEq, Eq)]
pub enum Trim {
    PrefixShortest,
    PrefixLongest,
    SuffixShortest,
    SuffixLongest,
}

/// `${v#p}` etc.: the text that remains after removing the shortest/longest matching prefix/suffix.
pub fn trim(atoms: &[At], text: &str, how: Trim) -> String {
    let chars: Vec<char> = text.chars().collect();
    let n = chars.len();
    let order: Vec<usize> = match how {
        Trim::PrefixShortest | Trim::SuffixLongest => (0..=n).collect(),
        Trim::PrefixLongest | Trim::SuffixShortest => (0..=n).rev().collect(),
    };
    for k in order {
        let ok = match how {
            Trim::PrefixShortest | Trim::PrefixLongest => matches(atoms, &chars[..k]),
            Trim::SuffixShortest | Trim::SuffixLongest => matches(atoms, &chars[k..]),
        };
        if ok {
            return match how {
                Trim::PrefixShortest | Trim::PrefixLongest => chars[k..].iter().collect(),
                _ => chars[..k].iter().collect(),
            };
        }
    }
    text.to_string()
}
