//! Reference argument parser: POSIX XBD 12.2 utility syntax guidelines plus the documented
//! extensions (long options with unique-prefix abbreviation, `=` or next-argument, attached
//! option-arguments). Written from the guidelines and docs/src/builtins.md, not from syntax.rs.

#[derive(Clone, Copy, Debug, PartialEq, Eq, Hash)]
pub struct MSpec {
    pub short: Option<char>,
    pub long: Option<&'static str>,
    pub arg: bool,
}

#[derive(Clone, Debug, PartialEq, Eq)]
pub struct MOcc {
    pub spec: usize,
    pub arg: Option<String>,
    pub long_spelling: bool,
}

#[derive(Clone, Debug, PartialEq, Eq)]
pub enum MErr {
    UnknownShort(char),
    UnknownLong,
    Ambiguous,
    Missing,
    Unexpected,
    /// extension syntax used in portable mode
    NonPortable,
}

pub type MResult = Result<(Vec<MOcc>, Vec<String>), MErr>;

pub fn parse(specs: &[MSpec], extensions: bool, argv: &[String]) -> MResult {
    let mut occ = Vec::new();
    let mut i = 0;
    while i < argv.len() {
        let a = &argv[i];
        if a == "--" {
            i += 1;
            break;
        }
        if let Some(body) = a.strip_prefix("--") {
            // long option
            let (name, val) = match body.find('=') {
                Some(k) => (&body[..k], Some(&body[k + 1..])),
                None => (body, None),
            };
            let exact: Vec<usize> = (0..specs.len()).filter(|&k| specs[k].long == Some(name)).collect();
            let idx = if let Some(&k) = exact.first() {
                k
            } else {
                let pre: Vec<usize> = (0..specs.len())
                    .filter(|&k| specs[k].long.is_some_and(|l| l.starts_with(name)))
                    .collect();
                match pre.len() {
                    0 => return Err(MErr::UnknownLong),
                    1 => pre[0],
                    _ => return Err(MErr::Ambiguous),
                }
            };
            if !extensions {
                return Err(MErr::NonPortable);
            }
            i += 1;
            let arg = if specs[idx].arg {
                match val {
                    Some(v) => Some(v.to_string()),
                    None => {
                        if i < argv.len() {
                            i += 1;
                            Some(argv[i - 1].clone())
                        } else {
                            return Err(MErr::Missing);
                        }
                    }
                }
            } else {
                if val.is_some() {
                    return Err(MErr::Unexpected);
                }
                None
            };
            occ.push(MOcc {
                spec: idx,
                arg,
                long_spelling: true,
            });
            continue;
        }
        if a.len() > 1 && a.starts_with('-') {
            // group of short options
            i += 1;
            let chars: Vec<char> = a.chars().collect();
            let mut k = 1;
            while k < chars.len() {
                let c = chars[k];
                let Some(idx) = (0..specs.len()).find(|&s| specs[s].short == Some(c)) else {
                    return Err(MErr::UnknownShort(c));
                };
                if specs[idx].arg {
                    let rest: String = chars[k + 1..].iter().collect();
                    let arg = if !rest.is_empty() {
                        if !extensions {
                            return Err(MErr::NonPortable);
                        }
                        rest
                    } else if i < argv.len() {
                        i += 1;
                        argv[i - 1].clone()
                    } else {
                        return Err(MErr::Missing);
                    };
                    occ.push(MOcc {
                        spec: idx,
                        arg: Some(arg),
                        long_spelling: false,
                    });
                    break;
                }
                occ.push(MOcc {
                    spec: idx,
                    arg: None,
                    long_spelling: false,
                });
                k += 1;
            }
            continue;
        }
        // first operand (including a lone "-") ends the options
        break;
    }
    Ok((occ, argv[i..].to_vec()))
}
