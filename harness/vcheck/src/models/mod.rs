//! Reference models (written from POSIX / docs, not from the implementation).
pub mod vars;
pub mod arith;
pub mod fnm;
pub mod optparse;
pub mod expand;
pub mod ctl;
pub mod glob;
pub mod alias;
