//! Reference model of word expansion (POSIX XCU 2.6: parameter expansion, field splitting, quote
//! removal; 2.5.2 special parameters) over our own word AST, and of the `read` built-in's
//! splitting. Words are generated from the AST and rendered to shell text, so the expected fields
//! are known by construction. Written from the standard; validated at development time against
//! dash and bash (tools/xshell.py), never consulted at check time.

use crate::models::fnm;
use crate::util::Rng;
use std::collections::BTreeMap;

#[derive(Clone, Debug, PartialEq, Eq, Hash)]
pub enum Name {
    Var(&'static str),
    Pos(usize),
    At,
    Star,
    Hash,
}

#[derive(Clone, Copy, Debug, PartialEq, Eq, Hash)]
pub enum Sw {
    Minus,
    Assign,
    Error,
    Plus,
}

#[derive(Clone, Copy, Debug, PartialEq, Eq, Hash)]
pub enum Tr {
    PrefixShort,
    PrefixLong,
    SuffixShort,
    SuffixLong,
}

#[derive(Clone, Debug, PartialEq, Eq, Hash)]
pub enum Form {
    Plain { braces: bool },
    Len,
    Switch { colon: bool, kind: Sw, word: Word },
    Trim { kind: Tr, pat: Word },
}

#[derive(Clone, Debug, PartialEq, Eq, Hash)]
pub struct Param {
    pub name: Name,
    pub form: Form,
}

#[derive(Clone, Debug, PartialEq, Eq, Hash)]
pub enum Unit {
    /// unquoted literal character
    Lit(char),
    /// backslash-escaped character (outside quotes)
    Esc(char),
    /// '...'
    SQ(String),
    /// "..."
    DQ(Vec<DUnit>),
    Param(Param),
}

#[derive(Clone, Debug, PartialEq, Eq, Hash)]
pub enum DUnit {
    Lit(char),
    /// \$ \` \" \\ inside double quotes
    Esc(char),
    Param(Param),
}

pub type Word = Vec<Unit>;

#[derive(Clone, Debug, PartialEq, Eq)]
pub struct State {
    pub vars: BTreeMap<String, String>,
    pub pos: Vec<String>,
    /// None = unset
    pub ifs: Option<String>,
    pub nounset: bool,
}

impl State {
    fn ifs_chars(&self) -> Vec<char> {
        match &self.ifs {
            None => vec![' ', '\t', '\n'],
            Some(s) => s.chars().collect(),
        }
    }
    fn ifs_first(&self) -> Option<char> {
        match &self.ifs {
            None => Some(' '),
            Some(s) => s.chars().next(),
        }
    }
}

#[derive(Clone, Debug, PartialEq, Eq)]
pub enum XErr {
    /// `set -u` and an unset parameter
    Nounset,
    /// `${x?w}` on an unset (or null) parameter
    QuestionMark,
    /// assignment to something that cannot be assigned
    BadAssign,
}

#[derive(Clone, Copy, Debug, PartialEq, Eq)]
struct AChar {
    c: char,
    /// protected from splitting (quoted, or literal text of the word)
    quoted: bool,
    /// for patterns: character is literal (quoted) rather than a potential metacharacter
    lit: bool,
}

#[derive(Clone, Debug, PartialEq, Eq)]
enum Piece {
    Ch(AChar),
    /// something quoted was here (even if empty): the field exists
    QuoteMark,
    /// hard field boundary ("$@", unquoted $@ / $*)
    Break,
}

struct Ex<'a> {
    st: &'a mut State,
}

fn sw_char(k: Sw) -> char {
    match k {
        Sw::Minus => '-',
        Sw::Assign => '=',
        Sw::Error => '?',
        Sw::Plus => '+',
    }
}

impl Ex<'_> {
    /// value of a scalar-like parameter: None = unset
    fn value(&self, n: &Name) -> Option<String> {
        match n {
            // IFS is an ordinary variable whose value the state keeps apart
            Name::Var("IFS") => self.st.ifs.clone(),
            Name::Var(v) => self.st.vars.get(*v).cloned(),
            Name::Pos(i) => self.st.pos.get(*i - 1).cloned(),
            Name::Hash => Some(self.st.pos.len().to_string()),
            Name::At | Name::Star => {
                // used only for Len/Trim which the generator does not produce on @ and *
                Some(self.st.pos.join(" "))
            }
        }
    }

    fn word(&mut self, w: &Word, in_dq: bool, out: &mut Vec<Piece>) -> Result<(), XErr> {
        for u in w {
            match u {
                Unit::Lit(c) => out.push(Piece::Ch(AChar {
                    c: *c,
                    // literal text of the word itself is never split
                    quoted: true,
                    lit: in_dq,
                })),
                Unit::Esc(c) => {
                    out.push(Piece::QuoteMark);
                    out.push(Piece::Ch(AChar {
                        c: *c,
                        quoted: true,
                        lit: true,
                    }));
                }
                Unit::SQ(s) => {
                    out.push(Piece::QuoteMark);
                    for c in s.chars() {
                        out.push(Piece::Ch(AChar {
                            c,
                            quoted: true,
                            lit: true,
                        }));
                    }
                }
                Unit::DQ(ds) => {
                    // "$@" with no positional parameters yields no field at all (generator makes
                    // sure such a "$@" is alone inside its double quotes)
                    let only_at = ds.len() == 1
                        && matches!(&ds[0], DUnit::Param(Param { name: Name::At, form: Form::Plain { .. } }));
                    if !(only_at && self.st.pos.is_empty()) {
                        out.push(Piece::QuoteMark);
                    }
                    for d in ds {
                        match d {
                            DUnit::Lit(c) | DUnit::Esc(c) => out.push(Piece::Ch(AChar {
                                c: *c,
                                quoted: true,
                                lit: true,
                            })),
                            DUnit::Param(p) => self.param(p, true, out)?,
                        }
                    }
                }
                Unit::Param(p) => self.param(p, in_dq, out)?,
            }
        }
        Ok(())
    }

    fn push_value(&self, v: &str, dq: bool, out: &mut Vec<Piece>) {
        for c in v.chars() {
            out.push(Piece::Ch(AChar {
                c,
                quoted: dq,
                lit: dq,
            }));
        }
    }

    fn param(&mut self, p: &Param, dq: bool, out: &mut Vec<Piece>) -> Result<(), XErr> {
        // $@ and $* in plain form
        if matches!(p.form, Form::Plain { .. }) {
            match p.name {
                Name::At => {
                    let n = self.st.pos.len();
                    for (i, v) in self.st.pos.clone().iter().enumerate() {
                        if dq {
                            out.push(Piece::QuoteMark);
                        }
                        self.push_value(v, dq, out);
                        if i + 1 < n {
                            out.push(Piece::Break);
                        }
                    }
                    return Ok(());
                }
                Name::Star => {
                    if dq {
                        let sep = self.st.ifs_first();
                        let joined = self
                            .st
                            .pos
                            .join(&sep.map(|c| c.to_string()).unwrap_or_default());
                        self.push_value(&joined, true, out);
                    } else {
                        let n = self.st.pos.len();
                        for (i, v) in self.st.pos.clone().iter().enumerate() {
                            self.push_value(v, false, out);
                            if i + 1 < n {
                                out.push(Piece::Break);
                            }
                        }
                    }
                    return Ok(());
                }
                _ => {}
            }
        }
        let val = self.value(&p.name);
        match &p.form {
            Form::Plain { .. } => match val {
                Some(v) => self.push_value(&v, dq, out),
                None => {
                    if self.st.nounset {
                        return Err(XErr::Nounset);
                    }
                }
            },
            Form::Len => match val {
                Some(v) => self.push_value(&v.chars().count().to_string(), dq, out),
                None => {
                    if self.st.nounset {
                        return Err(XErr::Nounset);
                    }
                    self.push_value("0", dq, out)
                }
            },
            Form::Switch { colon, kind, word } => {
                let missing = match &val {
                    None => true,
                    Some(v) => *colon && v.is_empty(),
                };
                match kind {
                    Sw::Minus => {
                        if missing {
                            self.switch_word(word, dq, out)?;
                        } else {
                            self.push_value(&val.unwrap(), dq, out);
                        }
                    }
                    Sw::Plus => {
                        if !missing {
                            self.switch_word(word, dq, out)?;
                        }
                    }
                    Sw::Error => {
                        if missing {
                            // the message word is expanded too (errors inside it take precedence)
                            let mut tmp = Vec::new();
                            self.switch_word(word, dq, &mut tmp)?;
                            return Err(XErr::QuestionMark);
                        }
                        self.push_value(&val.unwrap(), dq, out);
                    }
                    Sw::Assign => {
                        if missing {
                            let Name::Var(v) = &p.name else {
                                return Err(XErr::BadAssign);
                            };
                            // the assigned value is the word expanded as in an assignment:
                            // no field splitting, quotes removed
                            let mut tmp = Vec::new();
                            self.switch_word(word, dq, &mut tmp)?;
                            let s: String = tmp
                                .iter()
                                .filter_map(|p| match p {
                                    Piece::Ch(a) => Some(a.c),
                                    _ => None,
                                })
                                .collect();
                            if *v == "IFS" {
                                // field splitting happens after all expansions of the word (XCU 2.6):
                                // it uses the value assigned here
                                self.st.ifs = Some(s.clone());
                            } else {
                                self.st.vars.insert(v.to_string(), s.clone());
                            }
                            // "the final value of parameter shall be substituted"
                            self.push_value(&s, dq, out);
                        } else {
                            self.push_value(&val.unwrap(), dq, out);
                        }
                    }
                }
            }
            Form::Trim { kind, pat } => {
                let Some(v) = val else {
                    if self.st.nounset {
                        return Err(XErr::Nounset);
                    }
                    // pattern is still expanded for its errors
                    let mut tmp = Vec::new();
                    self.word(pat, false, &mut tmp)?;
                    return Ok(());
                };
                let mut tmp = Vec::new();
                // the pattern word is expanded on its own (quotes inside it work as usual even
                // when the whole expansion is inside double quotes)
                self.word(pat, false, &mut tmp)?;
                let pcs: Vec<fnm::PC> = tmp
                    .iter()
                    .filter_map(|p| match p {
                        Piece::Ch(a) => Some(if a.lit { fnm::PC::L(a.c) } else { fnm::PC::N(a.c) }),
                        _ => None,
                    })
                    .collect();
                let how = match kind {
                    Tr::PrefixShort => fnm::Trim::PrefixShortest,
                    Tr::PrefixLong => fnm::Trim::PrefixLongest,
                    Tr::SuffixShort => fnm::Trim::SuffixShortest,
                    Tr::SuffixLong => fnm::Trim::SuffixLongest,
                };
                let res = match fnm::parse(&pcs) {
                    fnm::Parsed::Ok(atoms) => fnm::trim(&atoms, &v, how),
                    fnm::Parsed::Unspecified(_) => v.clone(),
                };
                self.push_value(&res, dq, out);
            }
        }
        Ok(())
    }

    /// the word of `${x-word}`: unquoted literal text in it is subject to field splitting when the
    /// expansion as a whole is unquoted (it is part of the result of the expansion)
    fn switch_word(&mut self, w: &Word, dq: bool, out: &mut Vec<Piece>) -> Result<(), XErr> {
        let mut tmp = Vec::new();
        self.word(w, dq, &mut tmp)?;
        for p in tmp {
            match p {
                Piece::Ch(mut a) => {
                    // literal (unquoted) text of the switch word: splittable iff not in dq
                    if !dq && !a.lit && a.quoted {
                        a.quoted = false;
                    }
                    out.push(Piece::Ch(a));
                }
                other => out.push(other),
            }
        }
        Ok(())
    }
}

/// Field splitting + empty-field removal + quote removal over the pieces of one word.
fn split(pieces: &[Piece], st: &State) -> Vec<String> {
    let ifs = st.ifs_chars();
    let is_ws = |c: char| matches!(c, ' ' | '\t' | '\n');
    let mut fields: Vec<String> = Vec::new();
    let mut cur = String::new();
    let mut exists = false; // cur has content or a quote mark
    let mut i = 0;
    while i < pieces.len() {
        match &pieces[i] {
            Piece::QuoteMark => {
                exists = true;
                i += 1;
            }
            Piece::Break => {
                if exists {
                    fields.push(std::mem::take(&mut cur));
                }
                exists = false;
                i += 1;
            }
            Piece::Ch(a) if !a.quoted && ifs.contains(&a.c) => {
                // maximal run of splittable IFS characters
                let mut j = i;
                let mut nonws = 0;
                while j < pieces.len() {
                    match &pieces[j] {
                        Piece::Ch(b) if !b.quoted && ifs.contains(&b.c) => {
                            if !is_ws(b.c) {
                                nonws += 1;
                            }
                            j += 1;
                        }
                        _ => break,
                    }
                }
                if nonws == 0 {
                    if exists {
                        fields.push(std::mem::take(&mut cur));
                        exists = false;
                    }
                } else {
                    // the first non-whitespace delimiter terminates the current field (which may
                    // be empty); each further one delimits an empty field
                    fields.push(std::mem::take(&mut cur));
                    exists = false;
                    for _ in 1..nonws {
                        fields.push(String::new());
                    }
                }
                i = j;
            }
            Piece::Ch(a) => {
                cur.push(a.c);
                exists = true;
                i += 1;
            }
        }
    }
    if exists {
        fields.push(cur);
    }
    fields
}

/// Expand a word as a command argument: the resulting fields (pathname expansion off).
pub fn expand_arg(w: &Word, st: &mut State) -> Result<Vec<String>, XErr> {
    let mut out = Vec::new();
    Ex { st }.word(w, false, &mut out)?;
    Ok(split(&out, st))
}

/// Expand a word as the value of an assignment: one string, no splitting.
pub fn expand_assign(w: &Word, st: &mut State) -> Result<String, XErr> {
    let mut out = Vec::new();
    Ex { st }.word(w, false, &mut out)?;
    Ok(out
        .iter()
        .filter_map(|p| match p {
            Piece::Ch(a) => Some(a.c),
            _ => None,
        })
        .collect())
}

// ------------------------------------------------------------------ rendering

fn name_text(n: &Name) -> String {
    match n {
        Name::Var(v) => v.to_string(),
        Name::Pos(i) => i.to_string(),
        Name::At => "@".into(),
        Name::Star => "*".into(),
        Name::Hash => "#".into(),
    }
}

fn render_param(p: &Param, next_is_name_char: bool, s: &mut String) {
    match &p.form {
        Form::Plain { braces } => {
            if *braces || next_is_name_char {
                s.push_str(&format!("${{{}}}", name_text(&p.name)));
            } else {
                s.push('$');
                s.push_str(&name_text(&p.name));
            }
        }
        Form::Len => s.push_str(&format!("${{#{}}}", name_text(&p.name))),
        Form::Switch { colon, kind, word } => {
            s.push_str("${");
            s.push_str(&name_text(&p.name));
            if *colon {
                s.push(':');
            }
            s.push(sw_char(*kind));
            render_word_into(word, s);
            s.push('}');
        }
        Form::Trim { kind, pat } => {
            s.push_str("${");
            s.push_str(&name_text(&p.name));
            s.push_str(match kind {
                Tr::PrefixShort => "#",
                Tr::PrefixLong => "##",
                Tr::SuffixShort => "%",
                Tr::SuffixLong => "%%",
            });
            render_word_into(pat, s);
            s.push('}');
        }
    }
}

fn first_char_of_unit(u: &Unit) -> Option<char> {
    match u {
        Unit::Lit(c) => Some(*c),
        _ => None,
    }
}

pub fn render_word_into(w: &Word, s: &mut String) {
    for (i, u) in w.iter().enumerate() {
        let next_name = w
            .get(i + 1)
            .and_then(first_char_of_unit)
            .is_some_and(|c| c.is_ascii_alphanumeric() || c == '_');
        match u {
            Unit::Lit(c) => s.push(*c),
            Unit::Esc(c) => {
                s.push('\\');
                s.push(*c);
            }
            Unit::SQ(t) => {
                s.push('\'');
                s.push_str(t);
                s.push('\'');
            }
            Unit::DQ(ds) => {
                s.push('"');
                for (j, d) in ds.iter().enumerate() {
                    match d {
                        DUnit::Lit(c) => s.push(*c),
                        DUnit::Esc(c) => {
                            s.push('\\');
                            s.push(*c);
                        }
                        DUnit::Param(p) => {
                            let nn = matches!(ds.get(j + 1), Some(DUnit::Lit(c)) if c.is_ascii_alphanumeric() || *c == '_');
                            render_param(p, nn, s);
                        }
                    }
                }
                s.push('"');
            }
            Unit::Param(p) => render_param(p, next_name, s),
        }
    }
}

pub fn render_word(w: &Word) -> String {
    let mut s = String::new();
    render_word_into(w, &mut s);
    s
}

// ------------------------------------------------------------------ generation

pub const VAR_NAMES: [&str; 3] = ["x", "y", "u"];

/// Literal characters that are safe unquoted in any position of a word we generate.
const SAFE_LITS: [char; 8] = ['a', 'b', 'c', '1', ':', '-', 'é', '.'];

pub struct Gen<'a> {
    pub rng: &'a mut Rng,
    /// number of positional parameters in the state the word will run in
    pub npos: usize,
    /// any positional parameter is empty
    pub pos_has_empty: bool,
}

impl Gen<'_> {
    fn name(&mut self, allow_multi: bool) -> Name {
        match self.rng.below(if allow_multi { 10 } else { 7 }) {
            0..=3 => Name::Var(self.rng.pick(&VAR_NAMES)),
            4 | 5 => Name::Pos(self.rng.range(1, 3)),
            6 => Name::Hash,
            7 | 8 => Name::At,
            _ => Name::Star,
        }
    }

    fn simple_word(&mut self, depth: u32, in_dq: bool) -> Word {
        // words used inside ${x-word} and as patterns
        let n = self.rng.range(0, 3);
        let mut w = Vec::new();
        for _ in 0..n {
            w.push(self.unit(depth, in_dq, true));
        }
        w
    }

    fn pattern(&mut self) -> Word {
        let mut w = Vec::new();
        for _ in 0..self.rng.range(1, 3) {
            match self.rng.below(8) {
                0 | 1 => w.push(Unit::Lit('*')),
                2 => w.push(Unit::Lit('?')),
                3 => w.push(Unit::SQ("*".into())),
                4 => w.push(Unit::Lit(*self.rng.pick(&['a', 'b', ':']))),
                5 => w.push(Unit::DQ(vec![DUnit::Param(Param {
                    name: Name::Var("y"),
                    form: Form::Plain { braces: false },
                })])),
                6 => w.push(Unit::Esc(*self.rng.pick(&['*', 'a', '?']))),
                _ => w.push(Unit::Lit(*self.rng.pick(&['a', 'b', ':']))),
            }
        }
        w
    }

    fn param(&mut self, depth: u32, in_dq: bool) -> Param {
        let form_kind = self.rng.below(10);
        // switches/trims/length are not generated on @ and * (unspecified or implementation-defined)
        let plain_only = form_kind < 4;
        let mut name = self.name(plain_only);
        // unquoted $@ / $* with an empty positional parameter: POSIX lets the empty field be
        // dropped or kept ("may") - not generated
        if !in_dq && self.pos_has_empty && matches!(name, Name::At | Name::Star) {
            name = Name::Hash;
        }
        let form = if plain_only || depth == 0 {
            if form_kind < 4 || depth == 0 {
                Form::Plain {
                    braces: self.rng.chance(40),
                }
            } else {
                Form::Len
            }
        } else {
            match form_kind {
                4 => Form::Len,
                5..=7 => {
                    let kind = *self.rng.pick(&[Sw::Minus, Sw::Minus, Sw::Plus, Sw::Plus, Sw::Assign, Sw::Error]);
                    let mut n = name.clone();
                    if kind == Sw::Assign && !matches!(n, Name::Var(_)) {
                        n = Name::Var(self.rng.pick(&VAR_NAMES));
                    }
                    name = n;
                    let mut word = self.simple_word(depth - 1, in_dq);
                    // with no positional parameters, whether `"${x+$@}"` / `"${x+"$@"}"` is zero fields
                    // (the letter of XCU 2.5.2, and what yash does) or one empty field (dash, bash) is
                    // not settled either: keep $@ out of switch words in that state
                    if kind == Sw::Assign || !in_dq || self.npos == 0 {
                        // assigning "$@"/$* is unspecified, and dash, bash and the letter of the standard
                        // disagree on $@/$* inside the word of an unquoted ${x-word}: keep them out
                        strip_multi(&mut word);
                    }
                    Form::Switch {
                        colon: self.rng.chance(50),
                        kind,
                        word,
                    }
                }
                _ => Form::Trim {
                    kind: *self.rng.pick(&[Tr::PrefixShort, Tr::PrefixLong, Tr::SuffixShort, Tr::SuffixLong]),
                    pat: self.pattern(),
                },
            }
        };
        if matches!(form, Form::Len) && matches!(name, Name::At | Name::Star) {
            name = Name::Var("x");
        }
        // `${#+w}` and friends are ambiguous with the length form: only plain `$#` / `${#}`
        if matches!(name, Name::Hash) && !matches!(form, Form::Plain { .. }) {
            name = Name::Pos(1);
        }
        Param { name, form }
    }

    /// `in_switch`: inside the word of a ${x-...}; `in_dq`: that expansion sits inside double quotes
    fn unit(&mut self, depth: u32, in_dq: bool, in_switch: bool) -> Unit {
        let roll = self.rng.below(100);
        if in_dq {
            // inside "${x-word}": only plain text, nested "..." and parameters (the meaning of
            // single quotes and backslashes there differs between shells and POSIX issues)
            return match roll {
                0..=39 => Unit::Lit(*self.rng.pick(&SAFE_LITS)),
                40..=59 if depth > 0 => Unit::DQ(self.dq(depth - 1)),
                _ => {
                    if depth > 0 {
                        Unit::Param(self.param(depth - 1, true))
                    } else {
                        Unit::Lit('a')
                    }
                }
            };
        }
        match roll {
            0..=29 => {
                if in_switch && self.rng.chance(30) {
                    Unit::Lit(' ')
                } else {
                    Unit::Lit(*self.rng.pick(&SAFE_LITS))
                }
            }
            30..=37 => Unit::Esc(*self.rng.pick(&[' ', 'a', '$', '\\', '"', '\'', ':', '*'])),
            38..=47 => Unit::SQ(self.rng.pick(&["", "a", "a b", " ", ":", "$x", "\\", "\""]).to_string()),
            48..=64 if depth > 0 => Unit::DQ(self.dq(depth - 1)),
            _ => {
                if depth > 0 {
                    Unit::Param(self.param(depth - 1, false))
                } else {
                    Unit::Lit('b')
                }
            }
        }
    }

    fn dq(&mut self, depth: u32) -> Vec<DUnit> {
        let n = self.rng.range(0, 3);
        let mut v = Vec::new();
        for _ in 0..n {
            match self.rng.below(10) {
                0..=3 => v.push(DUnit::Lit(*self.rng.pick(&['a', 'b', ' ', ':', '\'', '*', '-']))),
                4 => v.push(DUnit::Esc(*self.rng.pick(&['$', '"', '\\', '`']))),
                _ => v.push(DUnit::Param(self.param(depth, true))),
            }
        }
        // "$@" with no positional parameters must be alone inside its quotes (see model)
        if self.npos == 0
            && v.len() > 1
            && v.iter()
                .any(|d| matches!(d, DUnit::Param(Param { name: Name::At, .. })))
        {
            v.retain(|d| matches!(d, DUnit::Param(Param { name: Name::At, .. })));
            v.truncate(1);
        }
        v
    }

    pub fn word(&mut self, max_units: usize, depth: u32) -> Word {
        let n = self.rng.range(1, max_units);
        let mut w: Word = Vec::new();
        for _ in 0..n {
            w.push(self.unit(depth, false, false));
        }
        sanitize(&mut w);
        w
    }
}

/// Replace every `$@` / `$*` (at any depth) by `$#`.
pub fn strip_multi(w: &mut Word) {
    fn fix(p: &mut Param) {
        if matches!(p.name, Name::At | Name::Star) {
            p.name = Name::Hash;
            p.form = Form::Plain { braces: true };
        }
        match &mut p.form {
            Form::Switch { word, .. } => strip_multi(word),
            Form::Trim { pat, .. } => strip_multi(pat),
            _ => {}
        }
    }
    for u in w.iter_mut() {
        match u {
            Unit::Param(p) => fix(p),
            Unit::DQ(ds) => {
                for d in ds.iter_mut() {
                    if let DUnit::Param(p) = d {
                        fix(p)
                    }
                }
            }
            _ => {}
        }
    }
}

/// Keep generated words inside well-defined territory at the text level.
pub fn sanitize(w: &mut Word) {
    // a leading unquoted literal that would be taken for something else
    if let Some(Unit::Lit(c)) = w.first() {
        if *c == '-' || *c == ':' {
            // fine as an argument to probe; nothing to do
        }
    }
}

/// Does the word (at any depth) contain an unquoted-in-switch space etc.? (for statistics)
pub fn shape(w: &Word) -> String {
    fn p(pm: &Param, s: &mut String) {
        s.push('$');
        s.push_str(match pm.name {
            Name::Var(_) => "v",
            Name::Pos(_) => "n",
            Name::At => "@",
            Name::Star => "*",
            Name::Hash => "#",
        });
        match &pm.form {
            Form::Plain { .. } => {}
            Form::Len => s.push('L'),
            Form::Switch { colon, kind, word } => {
                if *colon {
                    s.push(':');
                }
                s.push(sw_char(*kind));
                s.push('{');
                s.push_str(&shape(word));
                s.push('}');
            }
            Form::Trim { kind, .. } => s.push_str(match kind {
                Tr::PrefixShort => "#",
                Tr::PrefixLong => "##",
                Tr::SuffixShort => "%",
                Tr::SuffixLong => "%%",
            }),
        }
    }
    let mut s = String::new();
    for u in w {
        match u {
            Unit::Lit(' ') => s.push('_'),
            Unit::Lit(_) => s.push('l'),
            Unit::Esc(_) => s.push('e'),
            Unit::SQ(t) => s.push_str(if t.is_empty() { "''" } else { "'s'" }),
            Unit::DQ(ds) => {
                s.push('"');
                for d in ds {
                    match d {
                        DUnit::Lit(_) => s.push('l'),
                        DUnit::Esc(_) => s.push('e'),
                        DUnit::Param(pm) => p(pm, &mut s),
                    }
                }
                s.push('"');
            }
            Unit::Param(pm) => p(pm, &mut s),
        }
    }
    s
}

// ------------------------------------------------------------------ read built-in

/// `read [-r] v1 .. vn` on one input line (without its newline): the values assigned.
/// XCU read + 2.6.5: the line is split like a field splitting of an unquoted expansion, except
/// that the last variable receives the remainder (with trailing IFS whitespace removed).
/// Without -r a backslash quotes the next character (and is removed).
pub fn read_split(line: &str, ifs: &Option<String>, nvars: usize, raw: bool) -> Vec<String> {
    let ifs: Vec<char> = match ifs {
        None => vec![' ', '\t', '\n'],
        Some(s) => s.chars().collect(),
    };
    let is_ws = |c: char| matches!(c, ' ' | '\t' | '\n');
    // characters with a "quoted" flag
    let mut cs: Vec<(char, bool)> = Vec::new();
    let mut it = line.chars();
    while let Some(c) = it.next() {
        if c == '\\' && !raw {
            if let Some(n) = it.next() {
                cs.push((n, true));
            }
        } else {
            cs.push((c, false));
        }
    }
    let delim = |x: &(char, bool)| !x.1 && ifs.contains(&x.0);
    let dws = |x: &(char, bool)| delim(x) && is_ws(x.0);
    let mut out: Vec<String> = Vec::new();
    let mut i = 0;
    // skip leading IFS whitespace
    while i < cs.len() && dws(&cs[i]) {
        i += 1;
    }
    while out.len() + 1 < nvars {
        if i >= cs.len() {
            break;
        }
        // one field
        let mut f = String::new();
        while i < cs.len() && !delim(&cs[i]) {
            f.push(cs[i].0);
            i += 1;
        }
        out.push(f);
        // consume one delimiter: [ws]* [nonws]? [ws]*
        while i < cs.len() && dws(&cs[i]) {
            i += 1;
        }
        if i < cs.len() && delim(&cs[i]) && !is_ws(cs[i].0) {
            i += 1;
            while i < cs.len() && dws(&cs[i]) {
                i += 1;
            }
        }
    }
    // the last variable: the remainder with trailing IFS whitespace removed; if the remainder is a
    // single field followed by one (non-whitespace) delimiter, that delimiter is removed too
    let mut rest: Vec<(char, bool)> = cs[i.min(cs.len())..].to_vec();
    while rest.last().is_some_and(dws) {
        rest.pop();
    }
    // trailing single non-ws delimiter after exactly one field
    if let Some(last) = rest.last() {
        if delim(last) && !is_ws(last.0) {
            let body = &rest[..rest.len() - 1];
            let mut body_trim = body.to_vec();
            while body_trim.last().is_some_and(dws) {
                body_trim.pop();
            }
            if !body_trim.iter().any(delim) {
                rest = body_trim;
            }
        }
    }
    if out.len() < nvars {
        out.push(rest.iter().map(|x| x.0).collect());
    }
    while out.len() < nvars {
        out.push(String::new());
    }
    out
}
