//! Naive reference model of `VariableSet`: literally a stack of contexts, each a map
//! name -> (value, exported, read-only), written from the doc comments of yash-env/src/variable.rs
//! (module docs, `get`, `get_scoped`, `get_or_new`, `unset`, `iter`, `env_c_strings`,
//! `positional_params`).

use std::collections::BTreeMap;

#[derive(Clone, Debug, Default, PartialEq, Eq, Hash, PartialOrd, Ord)]
pub struct MVar {
    pub value: Option<String>,
    pub exported: bool,
    pub read_only: bool,
}

#[derive(Clone, Debug, PartialEq, Eq, Hash)]
pub struct MCtx {
    pub volatile: bool,
    pub vars: BTreeMap<String, MVar>,
    pub positional: Vec<String>,
}

#[derive(Clone, Copy, Debug, PartialEq, Eq, Hash)]
pub enum MScope {
    Global,
    Local,
    Volatile,
}

#[derive(Clone, Debug, PartialEq, Eq, Hash)]
pub struct MSet {
    pub ctxs: Vec<MCtx>,
}

impl Default for MSet {
    fn default() -> Self {
        MSet {
            ctxs: vec![MCtx {
                volatile: false,
                vars: BTreeMap::new(),
                positional: vec![],
            }],
        }
    }
}

impl MSet {
    pub fn push(&mut self, volatile: bool) {
        self.ctxs.push(MCtx {
            volatile,
            vars: BTreeMap::new(),
            positional: vec![],
        });
    }
    pub fn pop(&mut self) {
        assert!(self.ctxs.len() > 1);
        self.ctxs.pop();
    }
    pub fn topmost_regular(&self) -> usize {
        self.ctxs.iter().rposition(|c| !c.volatile).unwrap()
    }
    pub fn top_is_volatile(&self) -> bool {
        self.ctxs.last().unwrap().volatile
    }
    /// index of the lowest context a scope covers
    fn lower_bound(&self, scope: MScope) -> usize {
        match scope {
            MScope::Global => 0,
            MScope::Local => self.topmost_regular(),
            MScope::Volatile => self.topmost_regular() + 1,
        }
    }
    fn find_top(&self, name: &str) -> Option<usize> {
        self.ctxs.iter().rposition(|c| c.vars.contains_key(name))
    }
    /// the visible variable
    pub fn get(&self, name: &str) -> Option<&MVar> {
        self.find_top(name).map(|i| &self.ctxs[i].vars[name])
    }
    pub fn get_scoped(&self, name: &str, scope: MScope) -> Option<&MVar> {
        let lb = self.lower_bound(scope);
        (lb..self.ctxs.len())
            .rev()
            .find(|&i| self.ctxs[i].vars.contains_key(name))
            .map(|i| &self.ctxs[i].vars[name])
    }
    /// `get_or_new`: returns (context index, name) of the variable now designated.
    pub fn get_or_new(&mut self, name: &str, scope: MScope) -> usize {
        match scope {
            MScope::Global | MScope::Local => {
                let target = if scope == MScope::Global {
                    0
                } else {
                    self.topmost_regular()
                };
                let mut removed: Option<MVar> = None;
                let mut i = self.ctxs.len();
                while i > target {
                    i -= 1;
                    if !self.ctxs[i].vars.contains_key(name) {
                        continue;
                    }
                    if self.ctxs[i].volatile {
                        let v = self.ctxs[i].vars.remove(name).unwrap();
                        if removed.is_none() {
                            removed = Some(v);
                        }
                    } else {
                        if let Some(r) = removed {
                            self.ctxs[i].vars.insert(name.to_string(), r);
                        }
                        return i;
                    }
                }
                // not found in a regular context at or above target
                if self.ctxs[target].vars.contains_key(name) {
                    // (target itself is regular and was checked by the loop when i == target)
                    unreachable!()
                }
                self.ctxs[target]
                    .vars
                    .insert(name.to_string(), removed.unwrap_or_default());
                target
            }
            MScope::Volatile => {
                let top = self.ctxs.len() - 1;
                assert!(self.ctxs[top].volatile);
                if !self.ctxs[top].vars.contains_key(name) {
                    let v = self.get(name).cloned().unwrap_or_default();
                    self.ctxs[top].vars.insert(name.to_string(), v);
                }
                top
            }
        }
    }
    pub fn var_mut(&mut self, ctx: usize, name: &str) -> &mut MVar {
        self.ctxs[ctx].vars.get_mut(name).unwrap()
    }
    /// Ok(previous value of the topmost removed variable) or Err(()) if any of them is read-only.
    pub fn unset(&mut self, name: &str, scope: MScope) -> Result<Option<MVar>, ()> {
        let lb = self.lower_bound(scope);
        let idx: Vec<usize> = (lb..self.ctxs.len())
            .filter(|&i| self.ctxs[i].vars.contains_key(name))
            .collect();
        if idx.iter().any(|&i| self.ctxs[i].vars[name].read_only) {
            return Err(());
        }
        let mut top = None;
        for i in idx {
            top = self.ctxs[i].vars.remove(name);
        }
        Ok(top)
    }
    /// visible variables whose context is covered by the scope
    pub fn iter(&self, scope: MScope) -> BTreeMap<String, MVar> {
        let lb = self.lower_bound(scope);
        let mut out = BTreeMap::new();
        let mut names: Vec<&String> = self.ctxs.iter().flat_map(|c| c.vars.keys()).collect();
        names.sort();
        names.dedup();
        for n in names {
            let i = self.find_top(n).unwrap();
            if i >= lb {
                out.insert(n.clone(), self.ctxs[i].vars[n].clone());
            }
        }
        out
    }
    pub fn env(&self) -> Vec<String> {
        let mut v: Vec<String> = self
            .iter(MScope::Global)
            .into_iter()
            .filter(|(n, var)| var.exported && var.value.is_some() && !n.contains('='))
            .map(|(n, var)| format!("{}={}", n, var.value.unwrap()))
            .collect();
        v.sort();
        v
    }
    pub fn positional(&self) -> &Vec<String> {
        &self.ctxs[self.topmost_regular()].positional
    }
    pub fn positional_mut(&mut self) -> &mut Vec<String> {
        let i = self.topmost_regular();
        &mut self.ctxs[i].positional
    }
}
