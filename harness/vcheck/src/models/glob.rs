//! Reference model of pathname expansion (POSIX XCU 2.13.3, 2.6.6) over a model directory tree.

use crate::models::fnm::{self, At, PC, Parsed};
use std::collections::BTreeMap;

#[derive(Clone, Debug, PartialEq)]
pub enum Node {
    File,
    Dir,
    /// directory without search/read permission
    DirNoPerm,
    Symlink(String),
}

/// absolute path (no trailing slash; root is "") -> node
pub type Tree = BTreeMap<String, Node>;

fn resolve<'a>(tree: &'a Tree, path: &str, depth: u32) -> Option<(String, &'a Node)> {
    if depth > 8 {
        return None;
    }
    if path.is_empty() {
        return Some((String::new(), &Node::Dir));
    }
    // resolve the parent first (it may itself be a symlink)
    let (parent, name) = path.rsplit_once('/')?;
    let (rparent, pnode) = resolve(tree, parent, depth)?;
    if !matches!(pnode, Node::Dir) {
        return None;
    }
    if name == "." {
        return Some((rparent, pnode));
    }
    if name == ".." {
        let up = rparent.rsplit_once('/').map(|x| x.0.to_string()).unwrap_or_default();
        return resolve(tree, &up, depth + 1);
    }
    let full = format!("{rparent}/{name}");
    match tree.get(&full)? {
        Node::Symlink(t) => {
            let target = if t.starts_with('/') { t.clone() } else { format!("{rparent}/{t}") };
            resolve(tree, target.trim_end_matches('/'), depth + 1)
        }
        n => Some((full, n)),
    }
}

fn is_searchable_dir(tree: &Tree, path: &str) -> bool {
    matches!(resolve(tree, path, 0), Some((_, Node::Dir)))
}

fn exists(tree: &Tree, path: &str) -> bool {
    resolve(tree, path, 0).is_some()
}

fn entries(tree: &Tree, dir: &str) -> Vec<String> {
    let Some((rdir, Node::Dir)) = resolve(tree, dir, 0) else {
        return vec![];
    };
    let prefix = format!("{rdir}/");
    tree.keys()
        .filter_map(|k| k.strip_prefix(&prefix))
        .filter(|rest| !rest.contains('/') && !rest.is_empty())
        .map(|s| s.to_string())
        .collect()
}

#[derive(Debug, PartialEq)]
pub enum Globbed {
    /// the resulting fields
    Fields(Vec<String>),
    /// the pattern is outside what POSIX defines (reason)
    Unspecified(&'static str),
}

/// Expand one field (pattern characters with their quoting) in directory `cwd` of `tree`.
pub fn glob(tree: &Tree, cwd: &str, field: &[PC], noglob: bool) -> Globbed {
    let plain: String = field.iter().map(|c| c.ch()).collect();
    let has_meta = field.iter().any(|c| matches!(c, PC::N('*' | '?' | '[')));
    if noglob || !has_meta {
        return Globbed::Fields(vec![plain]);
    }
    // split into components at slashes (quoted or not: a slash is always a separator)
    let mut comps: Vec<Vec<PC>> = vec![vec![]];
    for c in field {
        if c.ch() == '/' {
            comps.push(vec![]);
        } else {
            comps.last_mut().unwrap().push(*c);
        }
    }
    // a bracket expression cannot span a slash: `[` in a component without its `]` is literal,
    // which the component-wise parser below gives for free; but a `[a/b]` would be a bracket in
    // a non-pathname context: shells differ, leave it out
    {
        let mut open = false;
        for c in field {
            match c {
                PC::N('[') => open = true,
                PC::N(']') => open = false,
                c if c.ch() == '/' && open => return Globbed::Unspecified("slash inside brackets"),
                _ => {}
            }
        }
    }
    // `.`/`..` looked up in a directory without search permission: EACCES on a real kernel for an
    // unprivileged process; the simulator does not model it: left out
    if tree.values().any(|n| *n == Node::DirNoPerm) && comps.iter().any(|c| {
        let t: String = c.iter().map(|x| x.ch()).collect();
        t == "." || t == ".."
    }) {
        return Globbed::Unspecified("dot components with an unsearchable directory in the tree");
    }
    let absolute = plain.starts_with('/');
    // candidates: (text so far as it will be printed, absolute path in the tree)
    let mut cands: Vec<(String, String)> = vec![(String::new(), if absolute { String::new() } else { cwd.to_string() })];
    let n = comps.len();
    for (i, comp) in comps.iter().enumerate() {
        let last = i + 1 == n;
        let first = i == 0;
        let mut next: Vec<(String, String)> = Vec::new();
        if comp.is_empty() {
            // empty component: leading slash, doubled slash or trailing slash
            for (text, path) in cands {
                if first && absolute {
                    next.push(("/".to_string(), path));
                } else if last {
                    // trailing slash: only directories
                    if is_searchable_dir(tree, &path) || matches!(resolve(tree, &path, 0), Some((_, Node::DirNoPerm))) {
                        next.push((format!("{text}/"), path));
                    }
                } else {
                    return Globbed::Unspecified("doubled slash");
                }
            }
            cands = next;
            continue;
        }
        let is_pattern = comp.iter().any(|c| matches!(c, PC::N('*' | '?' | '[')));
        let atoms = if is_pattern {
            match fnm::parse(comp) {
                Parsed::Ok(a) => Some(a),
                Parsed::Unspecified(why) => return Globbed::Unspecified(why),
            }
        } else {
            None
        };
        let literal: String = comp.iter().map(|c| c.ch()).collect();
        for (text, path) in cands {
            let sep = if text.is_empty() || text.ends_with('/') { "" } else { "/" };
            match &atoms {
                // a component that turned out to contain no active pattern (e.g. unmatched `[`)
                Some(a) if a.iter().all(|x| matches!(x, At::Ch(_))) => {
                    let name: String = a.iter().map(|x| if let At::Ch(c) = x { *c } else { unreachable!() }).collect();
                    let p = format!("{path}/{name}");
                    if is_searchable_dir(tree, &path) && exists_entry(tree, &path, &name) {
                        next.push((format!("{text}{sep}{name}"), p));
                    }
                }
                Some(a) => {
                    let mut names = entries(tree, &path);
                    names.sort();
                    for name in names {
                        let chars: Vec<char> = name.chars().collect();
                        if fnm::matches_period(a, &chars) {
                            next.push((format!("{text}{sep}{name}"), format!("{path}/{name}")));
                        }
                    }
                }
                None => {
                    if is_searchable_dir(tree, &path) && exists_entry(tree, &path, &literal) {
                        next.push((format!("{text}{sep}{literal}"), format!("{path}/{literal}")));
                    }
                }
            }
        }
        cands = next;
    }
    // every result must exist
    let mut out: Vec<String> = cands.into_iter().filter(|(_, p)| exists(tree, p) || lexists(tree, p)).map(|(t, _)| t).collect();
    out.sort();
    out.dedup();
    if out.is_empty() {
        Globbed::Fields(vec![plain])
    } else {
        Globbed::Fields(out)
    }
}

fn lexists(tree: &Tree, path: &str) -> bool {
    let Some((parent, name)) = path.rsplit_once('/') else { return false };
    match resolve(tree, parent, 0) {
        Some((rp, Node::Dir)) => tree.contains_key(&format!("{rp}/{name}")),
        _ => false,
    }
}

fn exists_entry(tree: &Tree, dir: &str, name: &str) -> bool {
    if name == "." || name == ".." {
        return is_searchable_dir(tree, dir) || matches!(resolve(tree, dir, 0), Some(_));
    }
    lexists(tree, &format!("{dir}/{name}"))
}
