//! Reference model of shell arithmetic: exact evaluation over i128 of our own expression AST with
//! C precedence/associativity (ISO C 6.5), lazy `&& || ?:`, assignments, `++`/`--`.
//! The result must be representable in i64 at every step, otherwise an error is *required*.
//! The three cases C leaves undefined/implementation-defined but for which a mathematically
//! sensible value exists (left shift of a negative, right shift of a negative, INT_MIN % -1)
//! accept {that value, error}.

use crate::util::Rng;
use std::collections::BTreeMap;

#[derive(Clone, Copy, Debug, PartialEq, Eq, Hash)]
pub enum Un {
    Plus,
    Minus,
    BitNot,
    Not,
}

#[derive(Clone, Copy, Debug, PartialEq, Eq, Hash)]
pub enum Bin {
    Mul,
    Div,
    Rem,
    Add,
    Sub,
    Shl,
    Shr,
    Lt,
    Le,
    Gt,
    Ge,
    Eq,
    Ne,
    BitAnd,
    BitXor,
    BitOr,
    And,
    Or,
}

pub const ALL_BIN: [Bin; 18] = [
    Bin::Mul,
    Bin::Div,
    Bin::Rem,
    Bin::Add,
    Bin::Sub,
    Bin::Shl,
    Bin::Shr,
    Bin::Lt,
    Bin::Le,
    Bin::Gt,
    Bin::Ge,
    Bin::Eq,
    Bin::Ne,
    Bin::BitAnd,
    Bin::BitXor,
    Bin::BitOr,
    Bin::And,
    Bin::Or,
];
pub const ALL_UN: [Un; 4] = [Un::Plus, Un::Minus, Un::BitNot, Un::Not];
/// operators usable in compound assignment
pub const ASSIGN_OPS: [Bin; 10] = [
    Bin::Mul,
    Bin::Div,
    Bin::Rem,
    Bin::Add,
    Bin::Sub,
    Bin::Shl,
    Bin::Shr,
    Bin::BitAnd,
    Bin::BitXor,
    Bin::BitOr,
];

#[derive(Clone, Debug, PartialEq, Eq, Hash)]
pub enum E {
    /// non-negative literal, with radix 10, 8 or 16 for rendering
    Num(u64, u8),
    Var(&'static str),
    Un(Un, Box<E>),
    Bin(Bin, Box<E>, Box<E>),
    Cond(Box<E>, Box<E>, Box<E>),
    /// `v = e` (None) or `v op= e`
    Assign(&'static str, Option<Bin>, Box<E>),
    PreInc(&'static str),
    PreDec(&'static str),
    PostInc(&'static str),
    PostDec(&'static str),
}

impl Bin {
    pub fn sym(self) -> &'static str {
        match self {
            Bin::Mul => "*",
            Bin::Div => "/",
            Bin::Rem => "%",
            Bin::Add => "+",
            Bin::Sub => "-",
            Bin::Shl => "<<",
            Bin::Shr => ">>",
            Bin::Lt => "<",
            Bin::Le => "<=",
            Bin::Gt => ">",
            Bin::Ge => ">=",
            Bin::Eq => "==",
            Bin::Ne => "!=",
            Bin::BitAnd => "&",
            Bin::BitXor => "^",
            Bin::BitOr => "|",
            Bin::And => "&&",
            Bin::Or => "||",
        }
    }
    /// C precedence: larger binds tighter
    pub fn prec(self) -> u8 {
        match self {
            Bin::Mul | Bin::Div | Bin::Rem => 12,
            Bin::Add | Bin::Sub => 11,
            Bin::Shl | Bin::Shr => 10,
            Bin::Lt | Bin::Le | Bin::Gt | Bin::Ge => 9,
            Bin::Eq | Bin::Ne => 8,
            Bin::BitAnd => 7,
            Bin::BitXor => 6,
            Bin::BitOr => 5,
            Bin::And => 4,
            Bin::Or => 3,
        }
    }
}
const PREC_COND: u8 = 2;
const PREC_ASSIGN: u8 = 1;
const PREC_UNARY: u8 = 13;
const PREC_POSTFIX: u8 = 14;

impl Un {
    pub fn sym(self) -> &'static str {
        match self {
            Un::Plus => "+",
            Un::Minus => "-",
            Un::BitNot => "~",
            Un::Not => "!",
        }
    }
}

/// Token-level rendering with the minimum of parentheses that C's grammar requires.
pub fn tokens(e: &E) -> Vec<String> {
    let mut out = Vec::new();
    tok(e, 0, &mut out);
    out
}

fn prec_of(e: &E) -> u8 {
    match e {
        E::Num(..) | E::Var(_) => 15,
        E::PostInc(_) | E::PostDec(_) => PREC_POSTFIX,
        E::Un(..) | E::PreInc(_) | E::PreDec(_) => PREC_UNARY,
        E::Bin(op, ..) => op.prec(),
        E::Cond(..) => PREC_COND,
        E::Assign(..) => PREC_ASSIGN,
    }
}

fn tok(e: &E, min: u8, out: &mut Vec<String>) {
    let p = prec_of(e);
    let paren = p < min;
    if paren {
        out.push("(".into());
    }
    match e {
        E::Num(v, radix) => out.push(match radix {
            8 => format!("0{v:o}"),
            16 => format!("0x{v:x}"),
            _ => format!("{v}"),
        }),
        E::Var(n) => out.push((*n).into()),
        E::Un(op, a) => {
            out.push(op.sym().into());
            tok(a, PREC_UNARY, out);
        }
        E::PreInc(v) => {
            out.push("++".into());
            out.push((*v).into());
        }
        E::PreDec(v) => {
            out.push("--".into());
            out.push((*v).into());
        }
        E::PostInc(v) => {
            out.push((*v).into());
            out.push("++".into());
        }
        E::PostDec(v) => {
            out.push((*v).into());
            out.push("--".into());
        }
        E::Bin(op, a, b) => {
            tok(a, op.prec(), out);
            out.push(op.sym().into());
            tok(b, op.prec() + 1, out);
        }
        E::Cond(c, a, b) => {
            tok(c, PREC_COND + 1, out);
            out.push("?".into());
            tok(a, 0, out);
            out.push(":".into());
            tok(b, PREC_COND, out);
        }
        E::Assign(v, op, a) => {
            out.push((*v).into());
            out.push(match op {
                None => "=".into(),
                Some(o) => format!("{}=", o.sym()),
            });
            tok(a, PREC_ASSIGN, out);
        }
    }
    if paren {
        out.push(")".into());
    }
}

/// Join tokens with random spacing; a space is always kept between two tokens whose
/// concatenation could lex differently (operator next to operator, word next to word).
pub fn render(tokens: &[String], rng: &mut Rng) -> String {
    let mut s = String::new();
    for (i, t) in tokens.iter().enumerate() {
        if i > 0 {
            let prev = &tokens[i - 1];
            let pa = prev.chars().last().unwrap();
            let ca = t.chars().next().unwrap();
            let word = |c: char| c.is_alphanumeric() || c == '_';
            let must = (word(pa) && word(ca)) || (!word(pa) && !word(ca) && pa != '(' && pa != ')' && ca != '(' && ca != ')');
            if must || rng.chance(50) {
                s.push(' ');
                if rng.chance(10) {
                    s.push(if rng.chance(50) { '\t' } else { ' ' });
                }
            }
        }
        s.push_str(t);
    }
    s
}

#[derive(Clone, Debug, PartialEq, Eq)]
pub enum Outcome {
    /// exact value; `may_error` = an implementation may also report an error (C-undefined case
    /// with a sensible value was crossed)
    Value { v: i64, may_error: bool },
    /// an error is required
    Error(&'static str),
}

pub type Env = BTreeMap<String, String>;

struct Ev<'a> {
    env: &'a mut Env,
    may_error: bool,
}

fn fit(v: i128) -> Result<i64, &'static str> {
    i64::try_from(v).map_err(|_| "overflow")
}

impl Ev<'_> {
    fn var(&self, n: &str) -> Result<i64, &'static str> {
        match self.env.get(n) {
            None => Ok(0),
            Some(s) => parse_const_signed(s).ok_or("invalid variable value"),
        }
    }
    fn set(&mut self, n: &str, v: i64) {
        self.env.insert(n.to_string(), v.to_string());
    }
    fn bin(&mut self, op: Bin, a: i64, b: i64) -> Result<i64, &'static str> {
        let (x, y) = (a as i128, b as i128);
        let r: i128 = match op {
            Bin::Mul => x * y,
            Bin::Div => {
                if b == 0 {
                    return Err("division by zero");
                }
                x / y
            }
            Bin::Rem => {
                if b == 0 {
                    return Err("division by zero");
                }
                if a == i64::MIN && b == -1 {
                    self.may_error = true;
                }
                x % y
            }
            Bin::Add => x + y,
            Bin::Sub => x - y,
            Bin::Shl => {
                if !(0..=63).contains(&b) {
                    return Err("shift count out of range");
                }
                if a < 0 {
                    self.may_error = true;
                }
                x << (b as u32)
            }
            Bin::Shr => {
                if !(0..=63).contains(&b) {
                    return Err("shift count out of range");
                }
                if a < 0 {
                    self.may_error = true;
                }
                x >> (b as u32) // arithmetic shift = floor division by 2^b
            }
            Bin::Lt => (x < y) as i128,
            Bin::Le => (x <= y) as i128,
            Bin::Gt => (x > y) as i128,
            Bin::Ge => (x >= y) as i128,
            Bin::Eq => (x == y) as i128,
            Bin::Ne => (x != y) as i128,
            Bin::BitAnd => (a & b) as i128,
            Bin::BitXor => (a ^ b) as i128,
            Bin::BitOr => (a | b) as i128,
            Bin::And | Bin::Or => unreachable!(),
        };
        fit(r)
    }
    fn eval(&mut self, e: &E) -> Result<i64, &'static str> {
        match e {
            E::Num(v, _) => i64::try_from(*v).map_err(|_| "constant too large"),
            E::Var(n) => self.var(n),
            E::Un(op, a) => {
                let a = self.eval(a)? as i128;
                fit(match op {
                    Un::Plus => a,
                    Un::Minus => -a,
                    Un::BitNot => !a,
                    Un::Not => (a == 0) as i128,
                })
            }
            E::Bin(Bin::And, a, b) => {
                if self.eval(a)? == 0 {
                    return Ok(0);
                }
                Ok((self.eval(b)? != 0) as i64)
            }
            E::Bin(Bin::Or, a, b) => {
                if self.eval(a)? != 0 {
                    return Ok(1);
                }
                Ok((self.eval(b)? != 0) as i64)
            }
            E::Bin(op, a, b) => {
                let a = self.eval(a)?;
                let b = self.eval(b)?;
                self.bin(*op, a, b)
            }
            E::Cond(c, a, b) => {
                if self.eval(c)? != 0 {
                    self.eval(a)
                } else {
                    self.eval(b)
                }
            }
            E::Assign(v, None, a) => {
                let x = self.eval(a)?;
                self.set(v, x);
                Ok(x)
            }
            E::Assign(v, Some(op), a) => {
                // generator guarantees the right-hand side does not write `v`, so the order of
                // reading `v` and evaluating the right-hand side is immaterial for the value;
                // but an *error* in either still is an error.
                let old = self.var(v)?;
                let x = self.eval(a)?;
                let r = self.bin(*op, old, x)?;
                self.set(v, r);
                Ok(r)
            }
            E::PreInc(v) | E::PreDec(v) | E::PostInc(v) | E::PostDec(v) => {
                let old = self.var(v)?;
                let d = if matches!(e, E::PreInc(_) | E::PostInc(_)) { 1 } else { -1 };
                let new = fit(old as i128 + d)?;
                self.set(v, new);
                Ok(if matches!(e, E::PreInc(_) | E::PreDec(_)) { new } else { old })
            }
        }
    }
}

pub fn eval(e: &E, env: &mut Env) -> Outcome {
    let mut ev = Ev {
        env,
        may_error: false,
    };
    match ev.eval(e) {
        Ok(v) => Outcome::Value {
            v,
            may_error: ev.may_error,
        },
        Err(why) => Outcome::Error(why),
    }
}

/// Integer constant syntax of shell arithmetic (decimal, 0-octal, 0x-hex) with an optional sign.
pub fn parse_const_signed(s: &str) -> Option<i64> {
    let (neg, digits) = match s.strip_prefix('-') {
        Some(r) => (true, r),
        None => (false, s.strip_prefix('+').unwrap_or(s)),
    };
    let mag = parse_const(digits)?;
    let v = if neg { -mag } else { mag };
    i64::try_from(v).ok()
}

pub fn parse_const(s: &str) -> Option<i128> {
    if s.is_empty() || !s.chars().all(|c| c.is_ascii_alphanumeric()) {
        return None;
    }
    if !s.chars().next().unwrap().is_ascii_digit() {
        return None;
    }
    let v = if let Some(h) = s.strip_prefix("0x").or_else(|| s.strip_prefix("0X")) {
        i128::from_str_radix(h, 16).ok()?
    } else if s.starts_with('0') && s.len() > 1 {
        i128::from_str_radix(s, 8).ok()?
    } else {
        s.parse::<i128>().ok()?
    };
    if v > i64::MAX as i128 + 1 { None } else { Some(v) }
}

// ------------------------------------------------------------------ sequencing rules

fn rw(e: &E, reads: &mut Vec<&'static str>, writes: &mut Vec<&'static str>) {
    match e {
        E::Num(..) => {}
        E::Var(n) => reads.push(n),
        E::Un(_, a) => rw(a, reads, writes),
        E::Bin(_, a, b) => {
            rw(a, reads, writes);
            rw(b, reads, writes);
        }
        E::Cond(c, a, b) => {
            rw(c, reads, writes);
            rw(a, reads, writes);
            rw(b, reads, writes);
        }
        E::Assign(v, op, a) => {
            if op.is_some() {
                reads.push(v);
            }
            writes.push(v);
            rw(a, reads, writes);
        }
        E::PreInc(v) | E::PreDec(v) | E::PostInc(v) | E::PostDec(v) => {
            reads.push(v);
            writes.push(v);
        }
    }
}

/// True if the expression's value depends on an evaluation order C leaves unspecified
/// (a variable written in one operand and read or written in a sibling operand without an
/// intervening sequence point). Such expressions are not generated.
pub fn unsequenced(e: &E) -> bool {
    let conflict = |a: &E, b: &E| -> bool {
        let (mut ra, mut wa, mut rb, mut wb) = (vec![], vec![], vec![], vec![]);
        rw(a, &mut ra, &mut wa);
        rw(b, &mut rb, &mut wb);
        wa.iter().any(|v| rb.contains(v) || wb.contains(v))
            || wb.iter().any(|v| ra.contains(v) || wa.contains(v))
    };
    match e {
        E::Num(..) | E::Var(_) | E::PreInc(_) | E::PreDec(_) | E::PostInc(_) | E::PostDec(_) => false,
        E::Un(_, a) => unsequenced(a),
        E::Bin(Bin::And | Bin::Or, a, b) => unsequenced(a) || unsequenced(b),
        E::Bin(_, a, b) => conflict(a, b) || unsequenced(a) || unsequenced(b),
        E::Cond(c, a, b) => unsequenced(c) || unsequenced(a) || unsequenced(b),
        E::Assign(v, _, a) => {
            let (mut r, mut w) = (vec![], vec![]);
            rw(a, &mut r, &mut w);
            w.contains(v) || unsequenced(a)
        }
    }
}

// ------------------------------------------------------------------ generators

pub const BOUNDARY: [i128; 16] = [
    0,
    1,
    -1,
    2,
    -2,
    3,
    62,
    63,
    64,
    65,
    1 << 31,
    -(1 << 31),
    (1 << 62),
    i64::MAX as i128,
    i64::MIN as i128,
    i64::MIN as i128 + 1,
];

/// literal expression for a (possibly negative) value
pub fn lit(v: i128, radix: u8) -> E {
    if v >= 0 {
        E::Num(v as u64, radix)
    } else if v == i64::MIN as i128 {
        // -9223372036854775807 - 1
        E::Bin(
            Bin::Sub,
            Box::new(E::Un(Un::Minus, Box::new(E::Num(i64::MAX as u64, radix)))),
            Box::new(E::Num(1, 10)),
        )
    } else {
        E::Un(Un::Minus, Box::new(E::Num((-v) as u64, radix)))
    }
}

pub const VARS: [&str; 3] = ["a", "b", "c"];

pub fn random_expr(rng: &mut Rng, depth: u32) -> E {
    if depth == 0 || rng.chance(15) {
        return if rng.chance(45) {
            E::Var(rng.pick(&VARS))
        } else {
            let v = if rng.chance(50) {
                *rng.pick(&BOUNDARY)
            } else {
                rng.below(20) as i128
            };
            lit(v, *rng.pick(&[10u8, 10, 8, 16]))
        };
    }
    match rng.below(100) {
        0..=11 => E::Un(*rng.pick(&ALL_UN), Box::new(random_expr(rng, depth - 1))),
        12..=61 => E::Bin(
            *rng.pick(&ALL_BIN),
            Box::new(random_expr(rng, depth - 1)),
            Box::new(random_expr(rng, depth - 1)),
        ),
        62..=73 => E::Cond(
            Box::new(random_expr(rng, depth - 1)),
            Box::new(random_expr(rng, depth - 1)),
            Box::new(random_expr(rng, depth - 1)),
        ),
        74..=87 => E::Assign(
            rng.pick(&VARS),
            if rng.chance(50) { None } else { Some(*rng.pick(&ASSIGN_OPS)) },
            Box::new(random_expr(rng, depth - 1)),
        ),
        88..=90 => E::PreInc(rng.pick(&VARS)),
        91..=93 => E::PreDec(rng.pick(&VARS)),
        94..=96 => E::PostInc(rng.pick(&VARS)),
        _ => E::PostDec(rng.pick(&VARS)),
    }
}
