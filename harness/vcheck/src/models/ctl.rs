//! Reference interpreter for the core command language (POSIX XCU 2.8.1, 2.9-2.15 and the
//! "consequences of shell errors" table; yash-rs documented choices where POSIX is silent):
//! lists, and-or lists, `!`, multi-command pipelines, groups, subshells, if/while/until/for/case,
//! functions, break/continue/return/exit, errexit, shell errors, the EXIT trap, and the variable
//! rules of C16 (temporary assignments, locals, read-only, export).
//!
//! Programs are generated from this AST and rendered to text; every leaf is a probe, so the
//! expected event trace is known by construction.

use crate::util::Rng;
use std::collections::BTreeMap;

/// exit status; `NZ` = "some non-zero value" (POSIX only requires non-zero for shell errors)
pub type St = i32;
pub const NZ: St = -1;

pub fn st_matches(model: St, observed: i32) -> bool {
    if model == NZ { observed != 0 } else { model == observed }
}

#[derive(Clone, Debug, PartialEq)]
pub enum Cmd {
    /// `probe -s ST kID`
    Probe { id: u32, st: i32 },
    /// `probe -s $((cL==0)) kID` (eq) or `$((cL!=0))`: status depends on the iteration of the
    /// enclosing counted loop L
    ProbeIter { id: u32, loop_id: u32, eq: bool },
    /// `pvar kID var` : reads the variable when it runs (value or UNSET, exported or not)
    ProbeVar { id: u32, var: &'static str },
    /// `var=value`
    Assign { var: &'static str, val: String },
    True,
    False,
    NotFound,
    Ext,
    Break(u32),
    Continue(u32),
    Return(Option<i32>),
    Exit(Option<i32>),
    SetE(bool),
    Seq(Vec<Cmd>),
    AndOr(Box<Cmd>, Vec<(bool, Cmd)>),
    Not(Box<Cmd>),
    Pipe(Vec<Cmd>),
    Brace(Box<Cmd>),
    Subshell(Box<Cmd>),
    If(Vec<(Cmd, Cmd)>, Option<Box<Cmd>>),
    /// `{ cN=K; while probe -s $((cN<=0)) kID; do cN=$((cN-1)); BODY; done; }` (or until)
    Loop { until: bool, id: u32, count: u32, body: Box<Cmd> },
    For { id: u32, words: Vec<&'static str>, body: Box<Cmd> },
    /// `terms[i]`: terminator of item i: 0 `;;`, 1 `;&` (run the next body untested), 2 `;|` / 3 `;;&` (go on testing)
    /// a simple command whose words all expand to nothing: its status is that of the last command
    /// substitution performed (XCU 2.9.1); `shape` picks where empty words stand around it
    SubstOnly { st: i32, shape: u8 },
    /// `var=val </nonexistent/file` : no command word; the redirection is tried in a subshell, its
    /// failure is reported but the assignment is still made (docs/src/language/commands/simple.md)
    AssignRedirFail { var: &'static str, val: String },
    /// `: $((n=VAL))` : an assignment made by arithmetic expansion (to the visible variable, else global)
    ArithAssign { val: u32 },
    /// `: ${var=val}` : assigns if the variable is unset (to the visible variable, else globally)
    AssignSwitch { var: &'static str, val: String, colon: bool },
    Case { word: &'static str, items: Vec<(Vec<&'static str>, Cmd)>, terms: Vec<u8> },
    FuncDef(u32, Box<Cmd>),
    Call(u32),
    // ---- processes (C13)
    /// `BODY & p<var>=$!` (BODY starts with a direct probe, which names the lane)
    Async { var: u32, body: Box<Cmd> },
    /// `wait $pA $pB` (empty: `wait`)
    Wait(Vec<u32>),
    /// `wait 99999` (unknown pid)
    WaitUnknown,
    /// `probe kID "$!" "$p<var>"`
    ProbeBang { id: u32, var: u32 },
    /// `s<id>=$(echo OUT; BODY)`
    CmdSubst { id: u32, out: &'static str, body: Box<Cmd> },
    /// `{ echo 'BODY' >/tmp/dotID; . /tmp/dotID; }` : BODY is read and run by the dot built-in
    Dot { id: u32, body: Box<Cmd> },
    /// `pvar kID s<var_id>`
    ProbeS { id: u32, var_id: u32 },
    /// `set -o pipefail` / `set +o pipefail`
    SetPipefail(bool),
    /// `gen N 1` : a pipeline stage writing N bytes (more than the pipe holds); whether it succeeds
    /// depends on when its reader exits, so its own status is never used
    Gen(u32),
    /// `echo DATA` (a pipeline stage that writes one line)
    Echo(&'static str),
    /// `{ read l; probe kID "$l"; }` placed right after an `Echo(DATA)` stage
    ReadProbe { id: u32, data: &'static str },
    // ---- shell errors (C10)
    /// ordinary command whose redirection fails: `probe -s 0 kID </nonexistent/file`
    RedirFail { id: u32 },
    /// error of a special built-in (`shift 99`, `. /nonexistent/file`, `unset ro`, `set -o nosuchopt`,
    /// `: </nonexistent/file`)
    SpecialErr(u8),
    /// the same through `command`: no abort
    CommandSpecialErr(u8),
    /// `ro=2` (ro is read-only)
    ReadonlyAssign,
    /// `probe -s 0 kID ${uu?}`
    ExpansionErr { id: u32 },
    // ---- variables (C16)
    /// `var=val CMD` where CMD is a probe of the variable / function call / `:` / ext
    Temp { var: &'static str, val: String, cmd: Box<Cmd> },
    /// `:` (special built-in that does nothing)
    Colon,
    /// `typeset var=val` (local inside a function)
    Local { var: &'static str, val: String },
    Export(&'static str),
    Unset(&'static str),
    /// `shift` / `set -- a b`: positional parameters; probe prints "$#" "$1"
    SetPos(Vec<&'static str>),
    ProbePos { id: u32 },
}

pub const SPECIAL_ERRS: [&str; 5] = [
    "shift 99",
    ". /nonexistent/file",
    "unset ro",
    "set -o nosuchoption",
    ": </nonexistent/file",
];

#[derive(Clone, Debug, PartialEq)]
pub struct Ev {
    pub lane: u32,
    pub id: u32,
    /// `$?` when the probe started
    pub st: St,
    pub args: Vec<String>,
}

#[derive(Clone, Debug)]
struct Var {
    /// None: declared (e.g. exported) but not assigned
    val: Option<String>,
    exported: bool,
}

#[derive(Clone)]
pub struct Sh {
    /// stack of variable scopes: [global, function locals...]
    scopes: Vec<BTreeMap<String, Var>>,
    pos: Vec<Vec<String>>,
    funcs: BTreeMap<u32, Cmd>,
    pub status: St,
    errexit: bool,
    /// > 0: errexit is being ignored
    exempt: u32,
    loop_depth: u32,
    func_depth: u32,
    lane: u32,
    in_subshell: bool,
    /// environments handed to `ext`, in order (main lane only)
    pub execs: Vec<Vec<String>>,
    /// a subshell was entered since the innermost function call
    sub_since_call: bool,
    /// exit status of each asynchronous job, by pid-variable number
    jobs: BTreeMap<u32, St>,
    pipefail: bool,
}

#[derive(Clone, Copy, Debug, PartialEq)]
enum Flow {
    Normal,
    Break(u32),
    Continue(u32),
    Return,
    /// leave the shell (or subshell); status in Sh::status
    Exit,
}

impl Sh {
    pub fn new() -> Sh {
        let mut g = BTreeMap::new();
        g.insert(
            "ro".to_string(),
            Var {
                val: Some("1".into()),
                exported: false,
            },
        );
        Sh {
            scopes: vec![g],
            pos: vec![vec![]],
            funcs: BTreeMap::new(),
            status: 0,
            errexit: false,
            exempt: 0,
            loop_depth: 0,
            func_depth: 0,
            lane: 0,
            in_subshell: false,
            execs: Vec::new(),
            sub_since_call: false,
            jobs: BTreeMap::new(),
            pipefail: false,
        }
    }
    fn get(&self, v: &str) -> Option<&Var> {
        self.scopes.iter().rev().find_map(|s| s.get(v))
    }
    fn set(&mut self, v: &str, val: String) {
        for s in self.scopes.iter_mut().rev() {
            if let Some(x) = s.get_mut(v) {
                x.val = Some(val);
                return;
            }
        }
        self.scopes[0].insert(
            v.to_string(),
            Var {
                val: Some(val),
                exported: false,
            },
        );
    }
    fn environ(&self) -> Vec<String> {
        let mut names: Vec<&String> = self.scopes.iter().flat_map(|s| s.keys()).collect();
        names.sort();
        names.dedup();
        names
            .into_iter()
            .filter_map(|n| {
                let v = self.get(n)?;
                let val = v.val.as_ref()?;
                v.exported.then(|| format!("{}={}", n, val))
            })
            .collect()
    }

    /// errexit check after a simple command / pipeline / subshell
    fn errexit_check(&self) -> Flow {
        if self.errexit && self.exempt == 0 && self.status != 0 {
            Flow::Exit
        } else {
            Flow::Normal
        }
    }

    fn shell_error(&mut self) -> Flow {
        self.status = NZ;
        Flow::Exit
    }

    fn run(&mut self, c: &Cmd, ev: &mut Vec<Ev>) -> Flow {
        match c {
            Cmd::Probe { id, st } => {
                ev.push(Ev {
                    lane: self.lane,
                    id: *id,
                    st: self.status,
                    args: vec![],
                });
                self.status = *st;
                self.errexit_check()
            }
            Cmd::ProbeIter { id, loop_id, eq } => {
                let c: i64 = self
                    .get(&format!("c{loop_id}"))
                    .and_then(|v| v.val.as_ref()?.parse().ok())
                    .unwrap_or(0);
                ev.push(Ev {
                    lane: self.lane,
                    id: *id,
                    st: self.status,
                    args: vec![],
                });
                self.status = if *eq { (c == 0) as i32 } else { (c != 0) as i32 };
                self.errexit_check()
            }
            Cmd::ProbeVar { id, var } => {
                let v = self.get(var).and_then(|v| v.val.clone()).unwrap_or_else(|| "UNSET".into());
                let flag = if self.get(var).is_some_and(|v| v.exported) { "exported" } else { "-" };
                ev.push(Ev {
                    lane: self.lane,
                    id: *id,
                    st: self.status,
                    args: vec![v, flag.into()],
                });
                self.status = 0;
                Flow::Normal
            }
            Cmd::ProbePos { id } => {
                let p = self.pos.last().unwrap();
                ev.push(Ev {
                    lane: self.lane,
                    id: *id,
                    st: self.status,
                    args: vec![p.len().to_string(), p.first().cloned().unwrap_or_default()],
                });
                self.status = 0;
                Flow::Normal
            }
            Cmd::Assign { var, val } => {
                self.set(var, val.clone());
                self.status = 0;
                Flow::Normal
            }
            Cmd::AssignRedirFail { var, val } => {
                self.set(var, val.clone());
                self.status = NZ;
                self.errexit_check()
            }
            Cmd::ArithAssign { val } => {
                self.set("n", val.to_string());
                self.status = 0;
                Flow::Normal
            }
            Cmd::AssignSwitch { var, val, .. } => {
                // (generated values are never empty, so `=` and `:=` agree)
                if self.get(var).and_then(|v| v.val.as_ref()).is_none() {
                    self.set(var, val.clone());
                }
                self.status = 0;
                Flow::Normal
            }
            Cmd::True | Cmd::Colon => {
                self.status = 0;
                Flow::Normal
            }
            Cmd::False => {
                self.status = 1;
                self.errexit_check()
            }
            Cmd::SubstOnly { st, .. } => {
                self.status = *st;
                self.errexit_check()
            }
            Cmd::NotFound => {
                self.status = 127;
                self.errexit_check()
            }
            Cmd::Ext => {
                if self.lane == 0 {
                    self.execs.push(self.environ());
                }
                // the virtual system cannot execute programs: ENOSYS -> 126
                self.status = 126;
                self.errexit_check()
            }
            Cmd::Break(n) => {
                self.status = 0;
                Flow::Break(*n)
            }
            Cmd::Continue(n) => {
                self.status = 0;
                Flow::Continue(*n)
            }
            Cmd::Return(n) => {
                if let Some(n) = n {
                    self.status = *n;
                }
                if self.func_depth == 0 || self.in_subshell_since_call() {
                    // `return` in a subshell inside a function: leaves the subshell
                    Flow::Exit
                } else {
                    Flow::Return
                }
            }
            Cmd::Exit(n) => {
                if let Some(n) = n {
                    self.status = *n;
                }
                Flow::Exit
            }
            Cmd::SetE(b) => {
                self.errexit = *b;
                self.status = 0;
                Flow::Normal
            }
            Cmd::Seq(cs) => {
                for c in cs {
                    let f = self.run(c, ev);
                    if f != Flow::Normal {
                        return f;
                    }
                }
                Flow::Normal
            }
            Cmd::AndOr(first, rest) => {
                // every pipeline of the list but the last one is exempt from errexit
                let n = rest.len();
                if n > 0 {
                    self.exempt += 1;
                }
                let f = self.run(first, ev);
                if n > 0 {
                    self.exempt -= 1;
                }
                if f != Flow::Normal {
                    return f;
                }
                for (i, (and, c)) in rest.iter().enumerate() {
                    let last = i + 1 == n;
                    let go = (*and && self.status == 0) || (!*and && self.status != 0);
                    if go {
                        if !last {
                            self.exempt += 1;
                        }
                        let f = self.run(c, ev);
                        if !last {
                            self.exempt -= 1;
                        }
                        if f != Flow::Normal {
                            return f;
                        }
                    }
                }
                Flow::Normal
            }
            Cmd::Not(c) => {
                self.exempt += 1;
                let f = self.run(c, ev);
                self.exempt -= 1;
                if f != Flow::Normal {
                    return f;
                }
                self.status = if self.status == 0 { 1 } else { 0 };
                Flow::Normal
            }
            Cmd::Async { var, body } => {
                let mut child = self.clone();
                child.in_subshell = true;
                child.loop_depth = 0;
                child.mark_subshell();
                child.jobs.clear();
                child.lane = lane_of_stage(self.lane, body);
                child.run(body, ev);
                self.jobs.insert(*var, child.status);
                // `cmd &` has status 0, and so has the assignment p=$!
                self.status = 0;
                Flow::Normal
            }
            Cmd::Wait(vars) => {
                let mut st = 0;
                for v in vars {
                    st = self.jobs.remove(v).unwrap_or(127);
                }
                if vars.is_empty() {
                    self.jobs.clear();
                }
                self.status = st;
                self.errexit_check()
            }
            Cmd::WaitUnknown => {
                self.status = 127;
                self.errexit_check()
            }
            Cmd::ProbeBang { id, .. } => {
                ev.push(Ev {
                    lane: self.lane,
                    id: *id,
                    st: self.status,
                    args: vec!["<pid>".into(), "<pid>".into()],
                });
                self.status = 0;
                Flow::Normal
            }
            Cmd::CmdSubst { id, out, body } => {
                let mut child = self.clone();
                child.in_subshell = true;
                child.loop_depth = 0;
                child.mark_subshell();
                child.jobs.clear();
                // `echo OUT` first
                child.status = 0;
                child.run(body, ev);
                if child.lane == 0 {
                    self.execs = child.execs;
                }
                self.set(&format!("s{id}"), out.to_string());
                // the status of an assignment-only command is that of its last command substitution
                self.status = child.status;
                self.errexit_check()
            }
            Cmd::ProbeS { id, var_id } => {
                let name = format!("s{var_id}");
                let v = self.get(&name).and_then(|v| v.val.clone()).unwrap_or_else(|| "UNSET".into());
                ev.push(Ev {
                    lane: self.lane,
                    id: *id,
                    st: self.status,
                    args: vec![v, "-".into()],
                });
                self.status = 0;
                Flow::Normal
            }
            Cmd::Echo(_) | Cmd::Gen(_) => {
                self.status = 0;
                Flow::Normal
            }
            Cmd::ReadProbe { id, data } => {
                // read succeeds (status 0), then the probe runs
                ev.push(Ev {
                    lane: self.lane,
                    id: *id,
                    st: 0,
                    args: vec![data.to_string()],
                });
                self.status = 0;
                Flow::Normal
            }
            Cmd::SetPipefail(b) => {
                self.pipefail = *b;
                self.status = 0;
                Flow::Normal
            }
            Cmd::Pipe(stages) => {
                let n = stages.len();
                let mut last = 0;
                let mut rightmost_failure = 0;
                for (i, s) in stages.iter().enumerate() {
                    let mut child = self.clone();
                    child.in_subshell = true;
                    child.loop_depth = 0;
                    child.mark_subshell();
                    if i + 1 < n {
                        child.lane = lane_of_stage(self.lane, s);
                    }
                    child.jobs.clear();
                    child.run(s, ev);
                    if child.status != 0 {
                        rightmost_failure = child.status;
                    }
                    if i + 1 == n {
                        last = child.status;
                        if child.lane == 0 {
                            self.execs = child.execs;
                        }
                    }
                }
                self.status = if self.pipefail { rightmost_failure } else { last };
                self.errexit_check()
            }
            Cmd::Brace(c) => self.run(c, ev),
            Cmd::Dot { body, .. } => {
                // the `echo` that writes the file succeeds
                self.status = 0;
                self.run(body, ev)
            }
            Cmd::Subshell(c) => {
                let mut child = self.clone();
                child.in_subshell = true;
                child.loop_depth = 0;
                child.mark_subshell();
                child.jobs.clear();
                child.run(c, ev);
                self.status = child.status;
                if child.lane == 0 {
                    self.execs = child.execs;
                }
                self.errexit_check()
            }
            Cmd::If(arms, els) => {
                for (cond, body) in arms {
                    self.exempt += 1;
                    let f = self.run(cond, ev);
                    self.exempt -= 1;
                    if f != Flow::Normal {
                        return f;
                    }
                    if self.status == 0 {
                        return self.run(body, ev);
                    }
                }
                match els {
                    Some(e) => self.run(e, ev),
                    None => {
                        self.status = 0;
                        Flow::Normal
                    }
                }
            }
            Cmd::Loop { until, id, count, body } => {
                // cN=K
                let var = format!("c{id}");
                self.set(&var, count.to_string());
                self.status = 0;
                let mut result: St = 0;
                self.loop_depth += 1;
                let flow = loop {
                    // condition: probe -s $((cN<=0)) kID   (until: $((cN>0)))
                    let c: i64 = self.get(&var).and_then(|v| v.val.as_ref()?.parse().ok()).unwrap_or(0);
                    ev.push(Ev {
                        lane: self.lane,
                        id: *id,
                        st: self.status,
                        args: vec![],
                    });
                    let cond_status = if *until { (c > 0) as i32 } else { (c <= 0) as i32 };
                    self.status = cond_status;
                    let enter = if *until { cond_status != 0 } else { cond_status == 0 };
                    if !enter {
                        break Flow::Normal;
                    }
                    // body: cN=$((cN-1)); BODY
                    self.set(&var, (c - 1).to_string());
                    self.status = 0;
                    let f = self.run(body, ev);
                    result = self.status;
                    match f {
                        Flow::Normal => {}
                        Flow::Break(n) => {
                            if n > 1 && self.loop_depth > 1 {
                                break Flow::Break(n - 1);
                            }
                            break Flow::Normal;
                        }
                        Flow::Continue(n) => {
                            if n > 1 && self.loop_depth > 1 {
                                break Flow::Continue(n - 1);
                            }
                        }
                        other => break other,
                    }
                };
                self.loop_depth -= 1;
                if flow == Flow::Normal {
                    self.status = result;
                }
                flow
            }
            Cmd::For { id, words, body } => {
                let var = format!("v{id}");
                let mut result: St = 0;
                self.loop_depth += 1;
                let mut flow = Flow::Normal;
                for w in words {
                    self.set(&var, w.to_string());
                    let f = self.run(body, ev);
                    result = self.status;
                    match f {
                        Flow::Normal => {}
                        Flow::Break(n) => {
                            if n > 1 && self.loop_depth > 1 {
                                flow = Flow::Break(n - 1);
                            }
                            break;
                        }
                        Flow::Continue(n) => {
                            if n > 1 && self.loop_depth > 1 {
                                flow = Flow::Continue(n - 1);
                                break;
                            }
                        }
                        other => {
                            flow = other;
                            break;
                        }
                    }
                }
                self.loop_depth -= 1;
                if flow == Flow::Normal {
                    self.status = result;
                }
                flow
            }
            Cmd::Case { word, items, terms } => {
                // the status of a case command that runs no body is 0
                let mut ran = false;
                let mut falling = false;
                for (i, (pats, body)) in items.iter().enumerate() {
                    if falling || pats.iter().any(|p| case_match(p, word)) {
                        if !ran {
                            ran = true;
                        }
                        let flow = self.run(body, ev);
                        if flow != Flow::Normal {
                            return flow;
                        }
                        match terms.get(i).copied().unwrap_or(0) {
                            0 => return Flow::Normal,
                            1 => falling = true,
                            _ => falling = false,
                        }
                    } else {
                        falling = false;
                    }
                }
                if !ran {
                    self.status = 0;
                }
                Flow::Normal
            }
            Cmd::FuncDef(n, body) => {
                self.funcs.insert(*n, (**body).clone());
                self.status = 0;
                Flow::Normal
            }
            Cmd::Call(n) => {
                let Some(body) = self.funcs.get(n).cloned() else {
                    self.status = 127;
                    return self.errexit_check();
                };
                self.scopes.push(BTreeMap::new());
                self.pos.push(vec!["arg".into()]);
                self.func_depth += 1;
                let saved_loop = std::mem::replace(&mut self.loop_depth, 0);
                let saved_sub = self.subshell_marks_push();
                let f = self.run(&body, ev);
                self.subshell_marks_pop(saved_sub);
                self.loop_depth = saved_loop;
                self.func_depth -= 1;
                self.pos.pop();
                self.scopes.pop();
                match f {
                    Flow::Return | Flow::Normal => self.errexit_check(),
                    // break/continue do not cross a function boundary (not generated)
                    Flow::Break(_) | Flow::Continue(_) => Flow::Normal,
                    Flow::Exit => Flow::Exit,
                }
            }
            Cmd::RedirFail { .. } => {
                // the command is not run; status non-zero; no abort unless errexit
                self.status = NZ;
                self.errexit_check()
            }
            Cmd::SpecialErr(_) => self.shell_error(),
            Cmd::CommandSpecialErr(_) => {
                self.status = NZ;
                self.errexit_check()
            }
            Cmd::ReadonlyAssign => self.shell_error(),
            Cmd::ExpansionErr { .. } => self.shell_error(),
            Cmd::Temp { var, val, cmd } => {
                match &**cmd {
                    // special built-in: the assignment persists
                    Cmd::Colon => {
                        self.set(var, val.clone());
                        self.status = 0;
                        Flow::Normal
                    }
                    other => {
                        // temporary, exported during the command
                        self.scopes.push(BTreeMap::new());
                        self.scopes.last_mut().unwrap().insert(
                            var.to_string(),
                            Var {
                                val: Some(val.clone()),
                                exported: true,
                            },
                        );
                        // a function call pushes its own scope on top of the temporary one
                        let f = self.run(other, ev);
                        // remove the temporary scope (it is right below whatever the command left)
                        self.scopes.pop();
                        f
                    }
                }
            }
            Cmd::Local { var, val } => {
                if self.func_depth > 0 {
                    // an existing local of this function is updated and keeps its attributes
                    let scope = self.scopes.last_mut().unwrap();
                    match scope.get_mut(*var) {
                        Some(x) => x.val = Some(val.clone()),
                        None => {
                            scope.insert(
                                var.to_string(),
                                Var {
                                    val: Some(val.clone()),
                                    exported: false,
                                },
                            );
                        }
                    }
                } else {
                    self.set(var, val.clone());
                }
                self.status = 0;
                Flow::Normal
            }
            Cmd::Export(v) => {
                let mut found = false;
                for s in self.scopes.iter_mut().rev() {
                    if let Some(x) = s.get_mut(*v) {
                        x.exported = true;
                        found = true;
                        break;
                    }
                }
                if !found {
                    self.scopes[0].insert(
                        v.to_string(),
                        Var {
                            val: None,
                            exported: true,
                        },
                    );
                }
                self.status = 0;
                Flow::Normal
            }
            Cmd::Unset(v) => {
                for s in self.scopes.iter_mut() {
                    s.remove(*v);
                }
                self.status = 0;
                Flow::Normal
            }
            Cmd::SetPos(ws) => {
                *self.pos.last_mut().unwrap() = ws.iter().map(|s| s.to_string()).collect();
                self.status = 0;
                Flow::Normal
            }
        }
    }

    // `return` inside a subshell that was entered after the innermost function call leaves the
    // subshell only. We track this with a counter that function calls save and reset.
    fn in_subshell_since_call(&self) -> bool {
        self.sub_since_call
    }
    fn mark_subshell(&mut self) {
        self.sub_since_call = true;
    }
    fn subshell_marks_push(&mut self) -> bool {
        std::mem::replace(&mut self.sub_since_call, false)
    }
    fn subshell_marks_pop(&mut self, saved: bool) {
        self.sub_since_call = saved;
    }
}

fn case_match(pat: &str, word: &str) -> bool {
    use crate::models::fnm;
    let pcs: Vec<fnm::PC> = pat.chars().map(fnm::PC::N).collect();
    match fnm::parse(&pcs) {
        fnm::Parsed::Ok(a) => fnm::matches(&a, &word.chars().collect::<Vec<_>>()),
        _ => false,
    }
}

/// lane id of a non-last pipeline stage: derived from the enclosing lane and the id of the
/// stage's first probe-like node (unique per stage)
pub fn lane_of_stage(parent: u32, c: &Cmd) -> u32 {
    (parent.wrapping_mul(2_654_435_761) ^ first_id(c).unwrap_or(0)) | 0x8000_0000
}

pub fn first_id(c: &Cmd) -> Option<u32> {
    match c {
        Cmd::Probe { id, .. }
        | Cmd::ProbeIter { id, .. }
        | Cmd::ProbeVar { id, .. }
        | Cmd::ProbePos { id }
        | Cmd::RedirFail { id }
        | Cmd::ExpansionErr { id }
        | Cmd::ProbeBang { id, .. }
        | Cmd::ReadProbe { id, .. }
        | Cmd::ProbeS { id, .. }
        | Cmd::Loop { id, .. } => Some(*id),
        Cmd::Async { body, .. } | Cmd::CmdSubst { body, .. } => first_id(body),
        Cmd::For { body, .. } => first_id(body),
        Cmd::Seq(cs) | Cmd::Pipe(cs) => cs.iter().find_map(first_id),
        Cmd::AndOr(a, rest) => first_id(a).or_else(|| rest.iter().find_map(|(_, c)| first_id(c))),
        Cmd::Not(c) | Cmd::Brace(c) | Cmd::Subshell(c) | Cmd::FuncDef(_, c) | Cmd::Dot { body: c, .. } => first_id(c),
        Cmd::If(arms, els) => arms
            .iter()
            .find_map(|(c, b)| first_id(c).or_else(|| first_id(b)))
            .or_else(|| els.as_ref().and_then(|e| first_id(e))),
        Cmd::Case { items, .. } => items.iter().find_map(|(_, b)| first_id(b)),
        Cmd::Temp { cmd, .. } => first_id(cmd),
        _ => None,
    }
}

pub struct Outcome {
    pub events: Vec<Ev>,
    /// exit status of the shell
    pub status: St,
    pub execs: Vec<Vec<String>>,
}

/// Run a whole script: a list of top-level lines (each a Cmd), optionally with an EXIT trap that
/// probes (id `trap_id`), optionally ending in a syntax error after `ok_lines` lines.
pub fn run_program(lines: &[Cmd], trap_id: Option<u32>) -> Outcome {
    let mut sh = Sh::new();
    let mut ev = Vec::new();
    for l in lines {
        let f = sh.run(l, &mut ev);
        if f != Flow::Normal {
            // Exit (or a stray Return at top level, not generated)
            break;
        }
    }
    if let Some(t) = trap_id {
        ev.push(Ev {
            lane: 0,
            id: t,
            st: sh.status,
            args: vec![],
        });
        // the trap action is `probe -s 0 kT`; the exit status of the shell is not changed by it
    }
    Outcome {
        events: ev,
        status: sh.status,
        execs: sh.execs,
    }
}

// ------------------------------------------------------------------ rendering

/// syntactic level needed by a command: 0 = command, 1 = pipeline, 2 = and-or list, 3 = list
fn level(c: &Cmd) -> u8 {
    match c {
        Cmd::Seq(_) => 3,
        Cmd::AndOr(_, rest) if !rest.is_empty() => 2,
        Cmd::AndOr(a, _) => level(a),
        Cmd::Pipe(_) | Cmd::Not(_) => 1,
        _ => 0,
    }
}

pub struct Render<'a> {
    pub rng: &'a mut Rng,
}

impl Render<'_> {
    fn sep(&mut self) -> &'static str {
        match self.rng.below(4) {
            0 => "\n",
            1 => ";",
            _ => "; ",
        }
    }
    /// render `c` where a construct of syntactic level <= `max` is allowed; wrap otherwise
    pub fn at(&mut self, c: &Cmd, max: u8) -> String {
        if level(c) > max {
            format!("{{ {}{}}}", self.cmd(c), self.term())
        } else {
            self.cmd(c)
        }
    }
    fn term(&mut self) -> &'static str {
        match self.rng.below(3) {
            0 => "\n",
            _ => "; ",
        }
    }
    /// a compound list (inside braces, then/do bodies ...)
    fn list(&mut self, c: &Cmd) -> String {
        self.cmd(c)
    }
    pub fn cmd(&mut self, c: &Cmd) -> String {
        match c {
            Cmd::Probe { id, st } => {
                if *st == 0 && self.rng.chance(50) {
                    format!("probe k{id}")
                } else {
                    format!("probe -s {st} k{id}")
                }
            }
            Cmd::ProbeIter { id, loop_id, eq } => {
                format!("probe -s $((c{loop_id}{}0)) k{id}", if *eq { "==" } else { "!=" })
            }
            Cmd::ProbeVar { id, var } => format!("pvar k{id} {var}"),
            Cmd::ProbePos { id } => format!("probe k{id} \"$#\" \"${{1-}}\""),
            Cmd::Assign { var, val } => format!("{var}={val}"),
            Cmd::AssignRedirFail { var, val } => format!("{var}={val} </nonexistent/file"),
            Cmd::ArithAssign { val } => format!(": $((n={val}))"),
            Cmd::AssignSwitch { var, val, colon } => format!(": ${{{var}{}={val}}}", if *colon { ":" } else { "" }),
            Cmd::True => "true".into(),
            Cmd::False => "false".into(),
            Cmd::SubstOnly { st, shape } => match shape % 5 {
                0 => format!("$(ret {st})"),
                1 => format!("$(ret {st}) $vunset"),
                2 => format!("$vunset $(ret {st})"),
                3 => format!("$(ret {}) $(ret {st})", (st + 1) % 3),
                _ => format!("$vunset $(ret {st}) $vunset ${{vunset:+x}}"),
            },
            Cmd::Colon => ":".into(),
            Cmd::NotFound => "nosuchcommand_".into(),
            Cmd::Ext => "ext".into(),
            Cmd::Break(n) => {
                if *n == 1 && self.rng.chance(50) {
                    "break".into()
                } else {
                    format!("break {n}")
                }
            }
            Cmd::Continue(n) => {
                if *n == 1 && self.rng.chance(50) {
                    "continue".into()
                } else {
                    format!("continue {n}")
                }
            }
            Cmd::Return(n) => match n {
                Some(n) => format!("return {n}"),
                None => "return".into(),
            },
            Cmd::Exit(n) => match n {
                Some(n) => format!("exit {n}"),
                None => "exit".into(),
            },
            Cmd::SetE(b) => (if *b { "set -e" } else { "set +e" }).into(),
            Cmd::Seq(cs) => {
                let mut s = String::new();
                for (i, c) in cs.iter().enumerate() {
                    if i > 0 {
                        s.push_str(self.sep());
                    }
                    s.push_str(&self.at(c, 2));
                }
                s
            }
            Cmd::AndOr(a, rest) => {
                let mut s = self.at(a, 1);
                for (and, c) in rest {
                    s.push_str(if *and { " && " } else { " || " });
                    if self.rng.chance(15) {
                        s.push('\n');
                    }
                    s.push_str(&self.at(c, 1));
                }
                s
            }
            Cmd::Not(c) => {
                // `! ! x` is not portable: the operand must not itself start with `!`
                let inner = if matches!(**c, Cmd::Not(_)) {
                    format!("{{ {}{}}}", self.cmd(c), self.term())
                } else {
                    self.at(c, 1)
                };
                format!("! {inner}")
            }
            Cmd::Pipe(stages) => {
                let mut s = String::new();
                for (i, st) in stages.iter().enumerate() {
                    if i > 0 {
                        s.push_str(" | ");
                        if self.rng.chance(15) {
                            s.push('\n');
                        }
                    }
                    s.push_str(&self.at(st, 0));
                }
                s
            }
            Cmd::Brace(c) => format!("{{ {}{}}}", self.list(c), self.term()),
            Cmd::Dot { id, body } => {
                let text = self.list(body).replace('\'', "'\\''");
                format!("{{ echo '{text}' >/tmp/dot{id}; . /tmp/dot{id}; }}")
            }
            Cmd::Subshell(c) => {
                let inner = self.list(c);
                // `((` would be taken for an arithmetic command by some shells: keep a space
                if self.rng.chance(50) && !inner.starts_with('(') {
                    format!("({inner})")
                } else {
                    format!("( {inner} )")
                }
            }
            Cmd::If(arms, els) => {
                let mut s = String::new();
                for (i, (cond, body)) in arms.iter().enumerate() {
                    s.push_str(if i == 0 { "if " } else { "elif " });
                    s.push_str(&self.list(cond));
                    s.push_str(self.term());
                    s.push_str("then ");
                    s.push_str(&self.list(body));
                    s.push_str(self.term());
                }
                if let Some(e) = els {
                    s.push_str("else ");
                    s.push_str(&self.list(e));
                    s.push_str(self.term());
                }
                s.push_str("fi");
                s
            }
            Cmd::Loop { until, id, count, body } => {
                let kw = if *until { "until" } else { "while" };
                let cond = if *until {
                    format!("$((c{id}>0))")
                } else {
                    format!("$((c{id}<=0))")
                };
                let t1 = self.term();
                let t2 = self.term();
                let t3 = self.term();
                format!(
                    "{{ c{id}={count}; {kw} probe -s {cond} k{id}{t1}do c{id}=$((c{id}-1)); {}{t2}done{t3}}}",
                    self.list(body)
                )
            }
            Cmd::For { id, words, body } => {
                let t1 = self.term();
                let t2 = self.term();
                format!("for v{id} in {}{t1}do {}{t2}done", words.join(" "), self.list(body))
            }
            Cmd::Case { word, items, terms } => {
                let mut s = format!("case {word} in ");
                for (i, (pats, body)) in items.iter().enumerate() {
                    if self.rng.chance(30) {
                        s.push('(');
                    }
                    s.push_str(&pats.join("|"));
                    s.push_str(") ");
                    s.push_str(&self.list(body));
                    let t = [";;", ";&", ";|", ";;&"][terms.get(i).copied().unwrap_or(0) as usize];
                    if self.rng.chance(50) {
                        s.push_str(&format!(" {t} "));
                    } else {
                        s.push_str(&format!("\n{t}\n"));
                    }
                }
                s.push_str("esac");
                s
            }
            Cmd::FuncDef(n, body) => {
                let t = self.term();
                format!("f{n}() {{ {}{t}}}", self.list(body))
            }
            Cmd::Call(n) => format!("f{n} arg"),
            Cmd::Async { var, body } => {
                let b = self.at(body, 1);
                format!("{b} & p{var}=$!")
            }
            Cmd::Wait(vars) => {
                let mut s = String::from("wait");
                // an operand that is not a child of this shell before the real ones: the status is
                // still that of the last operand, and the real children are still waited for
                if !vars.is_empty() && self.rng.chance(25) {
                    s.push_str(" 99999");
                }
                for v in vars {
                    s.push_str(&format!(" $p{v}"));
                }
                s
            }
            Cmd::WaitUnknown => "wait 99999".into(),
            Cmd::ProbeBang { id, var } => format!("probe k{id} \"$!\" \"$p{var}\""),
            Cmd::CmdSubst { id, out, body } => {
                let b = self.list(body);
                // (backquotes do not nest without escaping, and `\` + newline inside them is special)
                // further assignments without a substitution do not change the status
                let (pre, post) = match self.rng.below(5) {
                    0 => ("z1=plain ", ""),
                    1 => ("", " z2=plain"),
                    2 => ("z1= ", " z2=$vunset"),
                    _ => ("", ""),
                };
                if self.rng.chance(30) && !b.contains('`') && !b.contains('\\') {
                    format!("{pre}s{id}=`echo {out}; {b}`{post}")
                } else {
                    format!("{pre}s{id}=$(echo {out}; {b}){post}")
                }
            }
            Cmd::ProbeS { id, var_id } => format!("pvar k{id} s{var_id}"),
            Cmd::SetPipefail(b) => (if *b { "set -o pipefail" } else { "set +o pipefail" }).into(),
            Cmd::Echo(d) => format!("echo {d}"),
            Cmd::Gen(n) => format!("gen {n} 1"),
            Cmd::ReadProbe { id, .. } => format!("{{ read l; probe k{id} \"$l\"; }}"),
            Cmd::RedirFail { id } => format!("probe -s 0 k{id} </nonexistent/file"),
            Cmd::SpecialErr(k) => SPECIAL_ERRS[*k as usize].into(),
            Cmd::CommandSpecialErr(k) => format!("command {}", SPECIAL_ERRS[*k as usize]),
            Cmd::ReadonlyAssign => "ro=2".into(),
            Cmd::ExpansionErr { id } => format!("probe -s 0 k{id} ${{uu?}}"),
            Cmd::Temp { var, val, cmd } => format!("{var}={val} {}", self.cmd(cmd)),
            Cmd::Local { var, val } => format!("typeset {var}={val}"),
            Cmd::Export(v) => format!("export {v}"),
            Cmd::Unset(v) => format!("unset {v}"),
            Cmd::SetPos(ws) => format!("set -- {}", ws.join(" ")),
        }
    }
}

// ------------------------------------------------------------------ generation

#[derive(Clone, Copy)]
pub struct GenCfg {
    /// plant failing commands / shell errors / set -e (C10)
    pub errors: bool,
    /// variable features (C16)
    pub vars: bool,
    pub max_depth: u32,
}

pub struct Gen<'a> {
    pub rng: &'a mut Rng,
    pub cfg: GenCfg,
    next_id: u32,
    nfuncs: u32,
    pub budget: i32,
}

#[derive(Clone, Copy)]
struct Cx {
    depth: u32,
    /// lexically enclosing loops inside the current function/subshell
    loops: u32,
    in_func: bool,
    /// main lane (function calls allowed)
    main_lane: bool,
    /// inside a `!` pipeline (same shell): no break/continue/return/exit here, because shells
    /// disagree on whether the negation still applies to the status they leave behind
    negated: bool,
    /// a loop encloses the current subshell/function from outside: `break n` with n larger than
    /// the number of loops inside is then handled differently by different shells
    outer_loop: bool,
    /// innermost enclosing counted loop whose counter is visible here
    cur_loop: Option<u32>,
}

impl<'a> Gen<'a> {
    pub fn new(rng: &'a mut Rng, cfg: GenCfg, budget: i32) -> Gen<'a> {
        Gen {
            rng,
            cfg,
            next_id: 1,
            nfuncs: 0,
            budget,
        }
    }
    fn id(&mut self) -> u32 {
        self.next_id += 1;
        self.next_id
    }
    pub fn fresh_id(&mut self) -> u32 {
        self.id()
    }

    fn leaf(&mut self, cx: Cx) -> Cmd {
        self.budget -= 1;
        let r = self.rng.below(100);
        if r >= 94 && !self.cfg.vars {
            return Cmd::SubstOnly {
                st: *self.rng.pick(&[0, 0, 1, 3]),
                shape: self.rng.below(5) as u8,
            };
        }
        if self.cfg.errors && r < 22 {
            let id = self.id();
            return match self.rng.below(9) {
                0 => Cmd::RedirFail { id },
                1 => Cmd::SpecialErr(self.rng.below(5) as u8),
                2 => Cmd::CommandSpecialErr(self.rng.below(4) as u8),
                3 => Cmd::ReadonlyAssign,
                4 => Cmd::ExpansionErr { id },
                5 => Cmd::NotFound,
                6 => Cmd::False,
                7 => Cmd::SetE(self.rng.chance(65)),
                _ => Cmd::Probe {
                    id,
                    st: *self.rng.pick(&[1, 2, 7]),
                },
            };
        }
        if self.cfg.vars && r < 50 {
            let id = self.id();
            let var = *self.rng.pick(&["x", "y"]);
            let val = format!("{}{}", var, id);
            return match self.rng.below(16) {
                15 => Cmd::AssignRedirFail { var, val },
                13 => Cmd::ArithAssign { val: id },
                14 => Cmd::ProbeVar { id, var: "n" },
                12 => Cmd::ProbeVar { id, var: "t" },
                0 => Cmd::Assign { var, val },
                1 => {
                    if self.rng.chance(50) {
                        Cmd::Assign { var, val }
                    } else {
                        Cmd::AssignSwitch {
                            var,
                            val,
                            colon: self.rng.chance(50),
                        }
                    }
                }
                2 | 3 => Cmd::ProbeVar { id, var },
                4 => Cmd::Temp {
                    var,
                    val,
                    cmd: Box::new(Cmd::ProbeVar { id, var }),
                },
                5 => Cmd::Temp {
                    var,
                    val,
                    cmd: Box::new(Cmd::Colon),
                },
                6 if cx.main_lane => Cmd::Temp {
                    var,
                    val,
                    cmd: Box::new(Cmd::Ext),
                },
                // the function body only reads `t`, never assigns it (what an assignment to a
                // temporarily assigned variable inside the function does afterwards is unspecified)
                7 if self.nfuncs > 0 && cx.main_lane => Cmd::Temp {
                    var: "t",
                    val,
                    cmd: Box::new(Cmd::Call(self.rng.range(1, self.nfuncs as usize) as u32)),
                },
                8 if cx.in_func && self.rng.chance(50) => Cmd::Local { var, val },
                // a local hiding a global, unset inside the function: both go (documented), so the
                // variable must read as unset here and after the function returns
                8 if cx.in_func => {
                    let id2 = self.id();
                    Cmd::Seq(vec![Cmd::Local { var, val }, Cmd::Unset(var), Cmd::ProbeVar { id: id2, var }])
                }
                9 => Cmd::Export(var),
                10 => Cmd::Unset(var),
                _ => {
                    if self.rng.chance(50) {
                        Cmd::SetPos(self.rng.pick(&[vec![], vec!["p"], vec!["p", "q"]]).clone())
                    } else {
                        Cmd::ProbePos { id }
                    }
                }
            };
        }
        match r % 20 {
            0 => Cmd::True,
            1 => Cmd::False,
            2 => Cmd::NotFound,
            3 if cx.main_lane || !self.cfg.vars => Cmd::Ext,
            4 | 5 if cx.loops > 0 && !cx.negated => {
                let max = if cx.outer_loop { cx.loops } else { cx.loops + 1 };
                let n = self.rng.range(1, max as usize) as u32;
                if self.rng.chance(50) { Cmd::Break(n) } else { Cmd::Continue(n) }
            }
            6 if cx.in_func && !cx.negated => Cmd::Return(if self.rng.chance(60) {
                Some(*self.rng.pick(&[0, 1, 3, 5]))
            } else {
                None
            }),
            7 if self.rng.chance(25) && !cx.negated => Cmd::Exit(if self.rng.chance(60) {
                Some(*self.rng.pick(&[0, 1, 4]))
            } else {
                None
            }),
            8 if self.nfuncs > 0 && cx.main_lane => Cmd::Call(self.rng.range(1, self.nfuncs as usize) as u32),
            9 | 10 | 11 if cx.cur_loop.is_some() => {
                let id = self.id();
                Cmd::ProbeIter {
                    id,
                    loop_id: cx.cur_loop.unwrap(),
                    eq: self.rng.chance(50),
                }
            }
            _ => {
                let id = self.id();
                Cmd::Probe {
                    id,
                    st: *self.rng.pick(&[0, 0, 0, 1, 1, 2, 7]),
                }
            }
        }
    }

    fn list(&mut self, cx: Cx, max: usize) -> Cmd {
        let n = self.rng.range(1, max);
        if n == 1 {
            return self.cmd(cx);
        }
        Cmd::Seq((0..n).map(|_| self.cmd(cx)).collect())
    }

    pub fn cmd(&mut self, cx: Cx) -> Cmd {
        if cx.depth >= self.cfg.max_depth || self.budget <= 0 || self.rng.chance(35) {
            return self.leaf(cx);
        }
        self.budget -= 1;
        let d = Cx {
            depth: cx.depth + 1,
            ..cx
        };
        let sub = Cx {
            depth: cx.depth + 1,
            loops: 0,
            negated: false,
            outer_loop: cx.outer_loop || cx.loops > 0,
            ..cx
        };
        match self.rng.below(15) {
            0 | 1 => {
                let first = self.cmd(d);
                let n = self.rng.range(1, 3);
                let rest = (0..n).map(|_| (self.rng.chance(50), self.cmd(d))).collect();
                Cmd::AndOr(Box::new(first), rest)
            }
            2 => Cmd::Not(Box::new(self.cmd(Cx { negated: true, ..d }))),
            3 => {
                let n = self.rng.range(2, 3);
                let mut stages = Vec::new();
                for i in 0..n {
                    let last = i + 1 == n;
                    let c = Cx {
                        main_lane: cx.main_lane && last,
                        ..sub
                    };
                    let mut s = self.cmd(c);
                    // a non-last stage needs at least one probe to name its lane
                    if !last && first_id(&s).is_none() {
                        let id = self.id();
                        s = Cmd::Seq(vec![Cmd::Probe { id, st: 0 }, s]);
                    }
                    stages.push(s);
                }
                Cmd::Pipe(stages)
            }
            4 if self.cfg.errors && self.rng.chance(50) => {
                // a file run by the dot built-in: plain commands and shell errors, no break/continue/return
                let id = self.id();
                let inner = Cx {
                    loops: 0,
                    in_func: false,
                    ..d
                };
                let n = self.rng.range(1, 3);
                let body = Cmd::Seq((0..n).map(|_| self.leaf(inner)).collect());
                Cmd::Dot { id, body: Box::new(body) }
            }
            4 => Cmd::Brace(Box::new(self.list(d, 3))),
            6 if !self.cfg.vars && self.rng.chance(50) => {
                // an assignment whose value is a command substitution: a subshell whose status
                // becomes the status of the assignment
                let id = self.id();
                Cmd::CmdSubst {
                    id,
                    out: *self.rng.pick(&["out", "x y", ""]),
                    body: Box::new(self.list(sub, 2)),
                }
            }
            5 | 6 => Cmd::Subshell(Box::new(self.list(sub, 3))),
            7 | 8 => {
                let n = self.rng.range(1, 2);
                let arms = (0..n).map(|_| (self.list(d, 2), self.list(d, 2))).collect();
                let els = self.rng.chance(50).then(|| Box::new(self.list(d, 2)));
                Cmd::If(arms, els)
            }
            9 | 10 => {
                let id = self.id();
                let l = Cx {
                    loops: cx.loops + 1,
                    cur_loop: Some(id),
                    ..d
                };
                Cmd::Loop {
                    until: self.rng.chance(40),
                    id,
                    count: self.rng.range(0, 2) as u32,
                    body: Box::new(self.list(l, 3)),
                }
            }
            11 => {
                let id = self.id();
                let l = Cx {
                    loops: cx.loops + 1,
                    ..d
                };
                let words = self.rng.pick(&[vec![], vec!["a"], vec!["a", "b"]]).clone();
                Cmd::For {
                    id,
                    words,
                    body: Box::new(self.list(l, 3)),
                }
            }
            12 => {
                let word = *self.rng.pick(&["a", "b", "ab"]);
                let n = self.rng.range(1, 3);
                let items = (0..n)
                    .map(|_| {
                        let np = self.rng.range(1, 2);
                        let pats = (0..np).map(|_| *self.rng.pick(&["a", "b", "a*", "?b", "*", "c"])).collect();
                        (pats, self.list(d, 2))
                    })
                    .collect();
                let terms = (0..n).map(|_| *self.rng.pick(&[0u8, 0, 0, 1, 1, 2, 3])).collect();
                Cmd::Case { word, items, terms }
            }
            _ => self.leaf(cx),
        }
    }

    /// a whole program: function definitions first, then top-level lines
    pub fn program(&mut self, nlines: usize) -> Vec<Cmd> {
        let mut lines = Vec::new();
        let nf = self.rng.range(0, 2);
        for _ in 0..nf {
            let cx = Cx {
                depth: 1,
                loops: 0,
                in_func: true,
                main_lane: true,
                negated: false,
                // the function may be called from inside a loop
                outer_loop: true,
                cur_loop: None,
            };
            let body = self.list(cx, 3);
            self.nfuncs += 1;
            lines.push(Cmd::FuncDef(self.nfuncs, Box::new(body)));
        }
        for _ in 0..nlines {
            let cx = Cx {
                depth: 0,
                loops: 0,
                in_func: false,
                main_lane: true,
                negated: false,
                outer_loop: false,
                cur_loop: None,
            };
            lines.push(self.cmd(cx));
            if self.budget <= 0 {
                break;
            }
        }
        lines
    }
}

/// tuple of construct kinds enclosing each probe: used as the "distinct nesting path" measure
pub fn nesting_paths(c: &Cmd, path: &mut Vec<&'static str>, out: &mut Vec<String>) {
    let tag = match c {
        Cmd::Seq(_) => None,
        Cmd::AndOr(..) => Some("andor"),
        Cmd::Not(_) => Some("!"),
        Cmd::Pipe(_) => Some("pipe"),
        Cmd::Brace(_) => Some("{}"),
        Cmd::Dot { .. } => Some("."),
        Cmd::Subshell(_) => Some("()"),
        Cmd::If(..) => Some("if"),
        Cmd::Loop { until, .. } => Some(if *until { "until" } else { "while" }),
        Cmd::For { .. } => Some("for"),
        Cmd::Case { .. } => Some("case"),
        Cmd::FuncDef(..) => Some("func"),
        Cmd::Async { .. } => Some("&"),
        Cmd::CmdSubst { .. } => Some("$()"),
        _ => None,
    };
    if let Some(t) = tag {
        path.push(t);
    }
    match c {
        Cmd::Seq(cs) | Cmd::Pipe(cs) => cs.iter().for_each(|c| nesting_paths(c, path, out)),
        Cmd::AndOr(a, rest) => {
            nesting_paths(a, path, out);
            rest.iter().for_each(|(_, c)| nesting_paths(c, path, out));
        }
        Cmd::Not(c) | Cmd::Brace(c) | Cmd::Subshell(c) | Cmd::FuncDef(_, c) | Cmd::Dot { body: c, .. } => nesting_paths(c, path, out),
        Cmd::Async { body, .. } | Cmd::CmdSubst { body, .. } => nesting_paths(body, path, out),
        Cmd::If(arms, els) => {
            for (a, b) in arms {
                nesting_paths(a, path, out);
                nesting_paths(b, path, out);
            }
            if let Some(e) = els {
                nesting_paths(e, path, out);
            }
        }
        Cmd::Loop { body, .. } | Cmd::For { body, .. } => nesting_paths(body, path, out),
        Cmd::Case { items, .. } => items.iter().for_each(|(_, b)| nesting_paths(b, path, out)),
        Cmd::Temp { cmd, .. } => nesting_paths(cmd, path, out),
        leaf => {
            let kind = match leaf {
                Cmd::Probe { st, .. } => {
                    if *st == 0 { "probe0" } else { "probeN" }
                }
                Cmd::ProbeIter { .. } => "probeIter",
                Cmd::Break(_) => "break",
                Cmd::Continue(_) => "continue",
                Cmd::Return(_) => "return",
                Cmd::Exit(_) => "exit",
                Cmd::Call(_) => "call",
                Cmd::SetE(_) => "set-e",
                Cmd::RedirFail { .. } => "redirfail",
                Cmd::SpecialErr(_) => "specialerr",
                Cmd::CommandSpecialErr(_) => "cmdspecialerr",
                Cmd::ReadonlyAssign => "roassign",
                Cmd::ExpansionErr { .. } => "expanderr",
                Cmd::NotFound => "notfound",
                Cmd::False => "false",
                _ => "other",
            };
            out.push(format!("{}>{}", path.join(">"), kind));
        }
    }
    if tag.is_some() {
        path.pop();
    }
}
