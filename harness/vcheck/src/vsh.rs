//! The shell in a harness: start-up mirror of `yash_cli::run_as_shell_process`, the virtual
//! back-end (V) driven by our scheduler, probe built-ins and state snapshots.

use crate::sched::{Sched, StepResult, Strategy};
use crate::util::fnv;
use std::cell::RefCell;
use std::collections::BTreeMap;
use std::ops::ControlFlow::{Break, Continue};
use std::pin::Pin;
use std::rc::Rc;
use yash_cli::startup::args::Parse;
use yash_cli::startup::init_file::run_rcfile;
use yash_cli::startup::input::prepare_input;
use yash_env::Env;
use yash_env::builtin::{Builtin, Type};
use yash_env::io::Fd;
use yash_env::job::{Pid, ProcessState};
use yash_env::option::{Interactive, On, Portable};
use yash_env::semantics::{Divert, ExitStatus, Field, exit_or_raise};
use yash_env::system::r#virtual::{FileBody, Inode, SystemState, VirtualSystem};
use yash_env::system::resource::GetRlimit;
use yash_env::system::{
    Chdir, Concurrent, Errno, GetCwd, GetUid, Mode, Sysconf, TcGetPgrp, Times, Umask, Write,
};
use yash_env::variable::Scope;
use yash_semantics::trap::run_exit_trap;
use yash_semantics::{Runtime, interactive_read_eval_loop, read_eval_loop};

pub type VS = Rc<Concurrent<VirtualSystem>>;

// ------------------------------------------------------------------ events

#[derive(Clone, Debug, PartialEq, Eq)]
pub struct Event {
    pub pid: i32,
    pub kind: &'static str,
    pub args: Vec<String>,
    /// `$?` at entry of the probe
    pub status: i32,
}

thread_local! {
    pub static EVENTS: RefCell<Vec<Event>> = const { RefCell::new(Vec::new()) };
    /// handle to the virtual kernel of the run in progress (for V-only probes)
    pub static VSTATE: RefCell<Option<Rc<RefCell<SystemState>>>> = const { RefCell::new(None) };
}

/// Logical bound on the number of events of one run: generated programs are finite by
/// construction, so exceeding this means a runaway loop (reported by the caller, never silent).
pub const MAX_EVENTS: usize = 200_000;

pub fn push_event(e: Event) {
    EVENTS.with(|v| {
        let mut v = v.borrow_mut();
        if v.len() >= MAX_EVENTS {
            drop(v);
            panic!("verif: event limit exceeded (runaway loop in the script under test)");
        }
        v.push(e)
    });
}

// ------------------------------------------------------------------ shell main (mirror)

pub type ExtraBuiltins<S> = Vec<(&'static str, Builtin<S>)>;

/// Mirror of the private `yash_cli::run_as_shell_process`, parameterised on argv/environment.
#[allow(clippy::await_holding_refcell_ref)]
pub async fn run_as_shell_process<S>(
    env: &mut Env<S>,
    args: Vec<String>,
    env_vars: Vec<(String, String)>,
    extra: ExtraBuiltins<S>,
) where
    S: Chdir
        + Clone
        + GetCwd
        + GetRlimit
        + GetUid
        + Runtime
        + Sysconf
        + TcGetPgrp
        + Times
        + Umask
        + Write
        + 'static,
{
    let arg0 = args.first().cloned().unwrap_or_else(|| "yash".to_owned());
    let run = match yash_cli::startup::args::parse(args) {
        Ok(Parse::Help) | Ok(Parse::Version) => {
            env.exit_status = ExitStatus::SUCCESS;
            return;
        }
        Ok(Parse::Run(run)) => run,
        Err(e) => {
            env.system.print_error(&format!("{arg0}: {e}\n")).await;
            env.exit_status = ExitStatus::ERROR;
            return;
        }
    };

    let portable = run
        .options
        .iter()
        .rev()
        .find_map(|&(option, state)| (option == Portable).then_some(state))
        == Some(On);
    env.variables.extend_env(
        env_vars
            .into_iter()
            .filter(|(name, _)| !portable || yash_env::variable::is_portable_variable_name(name)),
    );

    let work = yash_cli::startup::configure_environment(env, run).await;
    for (name, b) in extra {
        env.builtins.insert(name, b);
    }

    let is_interactive = env.options.get(Interactive) == On;
    run_rcfile(env, work.rcfile).await;

    let ref_env = RefCell::new(env);
    let lexer = match prepare_input(&ref_env, &work.source).await {
        Ok(lexer) => lexer,
        Err(e) => {
            let message = format!("{arg0}: {e}\n");
            let mut env = ref_env.borrow_mut();
            env.system.print_error(&message).await;
            env.exit_status = match e.errno {
                Errno::ENOENT | Errno::ENOTDIR | Errno::EILSEQ => ExitStatus::NOT_FOUND,
                _ => ExitStatus::NOEXEC,
            };
            return;
        }
    };

    let result = if is_interactive {
        interactive_read_eval_loop(&ref_env, &mut { lexer }).await
    } else {
        read_eval_loop(&ref_env, &mut { lexer }).await
    };

    let env = ref_env.into_inner();
    env.apply_result(result);

    match result {
        Continue(())
        | Break(Divert::Continue { .. })
        | Break(Divert::Break { .. })
        | Break(Divert::Return(_))
        | Break(Divert::Interrupt(_))
        | Break(Divert::Exit(_)) => run_exit_trap(env).await,
        Break(Divert::Abort(_)) => (),
    }
}

// ------------------------------------------------------------------ V back-end

pub enum FileSpec {
    Regular(Vec<u8>),
    /// native executable (execve yields ENOSYS and records last_exec)
    Exec,
    Dir,
    DirMode(u16),
    Symlink(String),
    Fifo,
}

pub struct VCfg {
    pub args: Vec<String>,
    pub stdin: Vec<u8>,
    pub files: Vec<(String, FileSpec)>,
    pub env_vars: Vec<(String, String)>,
    pub strategy: Strategy,
    pub max_steps: u64,
    pub cwd: String,
    /// keep polling the other processes after the shell has exited (bounded by max_steps)
    pub drain: bool,
    pub extra: ExtraBuiltins<VS>,
    /// called before the shell starts, with the kernel state
    pub setup: Option<Box<dyn FnOnce(&mut SystemState)>>,
    /// called after every scheduler step with (state, step#); may inject signals etc.
    pub on_step: Option<Box<dyn FnMut(&Rc<RefCell<SystemState>>, u64)>>,
    pub keep_state: bool,
    /// standard input is a pipe written by a harness-controlled feeder process, one chunk per
    /// scheduling turn (instead of the regular file /dev/stdin)
    pub stdin_chunks: Option<Vec<Vec<u8>>>,
    /// fault injection: the k-th process creation by the shell fails (EAGAIN)
    pub fail_spawn: Option<usize>,
    /// when nothing is runnable and no timer is pending, call `on_step` (up to 64 times, with an
    /// increasing step number) before the run is declared deadlocked: lets an outside actor
    /// (e.g. a SIGCONT for a stopped child) act while the shell is blocked
    pub tick_on_stall: bool,
}

impl VCfg {
    pub fn script(script: &str) -> VCfg {
        VCfg::with_args(vec!["yash".into(), "-c".into(), script.into()])
    }
    /// script fed through standard input (regular file)
    pub fn stdin_script(script: &str) -> VCfg {
        let mut c = VCfg::with_args(vec!["yash".into()]);
        c.stdin = script.as_bytes().to_vec();
        c
    }
    pub fn with_args(args: Vec<String>) -> VCfg {
        VCfg {
            args,
            stdin: Vec::new(),
            files: Vec::new(),
            env_vars: vec![("PATH".into(), "/bin".into())],
            strategy: Strategy::Fifo,
            max_steps: 200_000,
            cwd: "/".into(),
            drain: false,
            extra: Vec::new(),
            setup: None,
            on_step: None,
            tick_on_stall: false,
            keep_state: false,
            stdin_chunks: None,
            fail_spawn: None,
        }
    }
}

#[derive(Clone, Copy, Debug, PartialEq, Eq)]
pub enum End {
    /// the shell process terminated
    Done,
    /// nothing runnable, no timer pending, shell not finished
    Deadlock,
    /// logical step bound exceeded
    StepLimit,
}

pub struct VOut {
    pub end: End,
    pub status: ProcessState,
    pub stdout: Vec<u8>,
    pub stderr: Vec<u8>,
    pub events: Vec<Event>,
    pub steps: u64,
    pub choices: Vec<(u32, u32)>,
    pub preempts: u32,
    pub preempt_offers: u32,
    pub trace_hash: u64,
    pub spawned: usize,
    /// pids of children of the shell that are dead but unreaped / still alive at the end
    pub zombies: Vec<i32>,
    pub alive: Vec<i32>,
    pub state: Option<Rc<RefCell<SystemState>>>,
}

impl VOut {
    pub fn exit_code(&self) -> Option<i32> {
        match self.status {
            ProcessState::Halted(r) => Some(ExitStatus::from(r).0),
            _ => None,
        }
    }
    pub fn out(&self) -> String {
        String::from_utf8_lossy(&self.stdout).into_owned()
    }
    pub fn err(&self) -> String {
        String::from_utf8_lossy(&self.stderr).into_owned()
    }
}

pub fn install_file(state: &mut SystemState, path: &str, spec: FileSpec) {
    let inode = match spec {
        FileSpec::Regular(content) => Inode::new(content),
        FileSpec::Exec => {
            let mut i = Inode::new(Vec::new());
            i.body = FileBody::Regular {
                content: Vec::new(),
                is_native_executable: true,
            };
            i.permissions = Mode::from_bits_retain(0o755);
            i
        }
        FileSpec::Dir => Inode {
            body: FileBody::Directory {
                files: Default::default(),
            },
            permissions: Mode::from_bits_retain(0o755),
        },
        FileSpec::DirMode(m) => Inode {
            body: FileBody::Directory {
                files: Default::default(),
            },
            permissions: Mode::from_bits_retain(m as _),
        },
        FileSpec::Symlink(t) => Inode {
            body: FileBody::Symlink { target: t.into() },
            permissions: Mode::from_bits_retain(0o777),
        },
        FileSpec::Fifo => Inode {
            body: FileBody::Fifo {
                content: Default::default(),
                readers: 0,
                writers: 0,
                pending_open_wakers: Default::default(),
                pending_read_wakers: Default::default(),
                pending_write_wakers: Default::default(),
            },
            permissions: Mode::from_bits_retain(0o644),
        },
    };
    state
        .file_system
        .save(path, Rc::new(RefCell::new(inode)))
        .unwrap_or_else(|e| panic!("harness: cannot install {path}: {e:?}"));
}

pub fn read_file(state: &SystemState, path: &str) -> Option<Vec<u8>> {
    let f = state.file_system.get(path).ok()?;
    let f = f.borrow();
    match &f.body {
        FileBody::Regular { content, .. } => Some(content.clone()),
        FileBody::Terminal { content } => Some(content.clone()),
        _ => None,
    }
}

/// Run the complete shell on the virtual system under the given schedule strategy.
pub fn run_v(cfg: VCfg) -> VOut {
    // a run that never comes back (a virtual process that loops without ever yielding cannot be
    // stopped by the step bound) is caught by the CPU-time watchdog, which needs to know the case
    crate::util::guard_case(|| {
        let stdin: String = String::from_utf8_lossy(&cfg.stdin).chars().take(6000).collect();
        format!("run on the virtual system, arguments {:?}, schedule {:?}, injected process-creation failure {:?}\nstandard input:\n{stdin}", cfg.args, cfg.strategy, cfg.fail_spawn)
    });
    let out = run_v_inner(cfg);
    crate::util::unguard_case();
    out
}

fn run_v_inner(mut cfg: VCfg) -> VOut {
    EVENTS.with(|v| v.borrow_mut().clear());
    let system = VirtualSystem::new();
    let state = Rc::clone(&system.state);
    let sched = Sched::new(cfg.strategy.clone());
    sched.inner.borrow_mut().fail_spawn = cfg.fail_spawn;
    {
        let mut st = state.borrow_mut();
        st.executor = Some(Rc::new(sched.clone()));
        st.path = "/bin".into();
        for name in ["true", "false", "pwd", "ext", "cat"] {
            install_file(&mut st, &format!("/bin/{name}"), FileSpec::Exec);
        }
        install_file(&mut st, "/dev/null", FileSpec::Regular(Vec::new()));
        if !cfg.stdin.is_empty() {
            let f = st.file_system.get("/dev/stdin").unwrap();
            f.borrow_mut().body = FileBody::new(std::mem::take(&mut cfg.stdin));
        }
        if cfg.cwd != "/" {
            install_file(&mut st, &cfg.cwd, FileSpec::Dir);
        }
        for (p, spec) in std::mem::take(&mut cfg.files) {
            install_file(&mut st, &p, spec);
        }
        let cwd = cfg.cwd.clone();
        st.processes
            .get_mut(&system.process_id)
            .unwrap()
            .chdir(cwd.into());
        if let Some(setup) = cfg.setup.take() {
            setup(&mut st);
        }
    }
    VSTATE.with(|s| *s.borrow_mut() = Some(Rc::clone(&state)));
    let shell_pid = system.process_id;

    // optional feeder: fd 0 of the shell becomes the read end of a pipe; a separate virtual
    // process (pid 90, not a child of the shell) owns the write end and writes the chunks
    if let Some(chunks) = cfg.stdin_chunks.take() {
        use yash_env::system::{Close as _, Dup as _, Pipe as _, Write as _};
        let (r, w) = system.pipe().expect("harness: pipe");
        system.dup2(r, Fd::STDIN).expect("harness: dup2");
        system.close(r).ok();
        let feeder_pid = Pid(90);
        {
            let mut st = state.borrow_mut();
            let body = st.processes.get_mut(&shell_pid).unwrap().close_fd(w).unwrap();
            let mut feeder = yash_env::system::r#virtual::Process::with_parent_and_group(Pid(1), Pid(1));
            feeder.set_fd(Fd(3), body).ok();
            st.processes.insert(feeder_pid, feeder);
        }
        let fsys = VirtualSystem {
            state: Rc::clone(&state),
            process_id: feeder_pid,
        };
        let fstate = Rc::clone(&state);
        sched.add(Box::pin(async move {
            for chunk in chunks {
                YieldNow(false).await;
                let mut off = 0;
                while off < chunk.len() {
                    match fsys.write(Fd(3), &chunk[off..]).await {
                        Ok(n) => off += n,
                        Err(_) => break,
                    }
                }
            }
            YieldNow(false).await;
            fsys.close(Fd(3)).ok();
            if let Some(p) = fstate.borrow_mut().processes.get_mut(&feeder_pid) {
                let _ = p.set_state(ProcessState::exited(ExitStatus::SUCCESS));
            }
        }));
    }

    let concurrent = Rc::new(Concurrent::new(system));
    let runner = Rc::clone(&concurrent);
    let args = std::mem::take(&mut cfg.args);
    let env_vars = std::mem::take(&mut cfg.env_vars);
    let extra = std::mem::take(&mut cfg.extra);
    let main: Pin<Box<dyn Future<Output = ()>>> = Box::pin(async move {
        let shell = async move {
            let mut env = Env::with_system(concurrent);
            run_as_shell_process(&mut env, args, env_vars, extra).await;
            match exit_or_raise(&env.system, env.exit_status).await {}
        };
        runner.run_virtual(shell).await
    });
    let main_id = sched.add(main);

    let hook_sched = sched.clone();
    yash_env::verif_hooks::set_callback(Some(Box::new(move |site| hook_sched.preempt_here(site))));

    let mut end = End::Done;
    let mut main_done_at: Option<u64> = None;
    let mut stall_ticks = 0u64;
    loop {
        let steps = sched.inner.borrow().steps + stall_ticks;
        if sched.is_done(main_id) && main_done_at.is_none() {
            main_done_at = Some(steps);
            if !cfg.drain {
                break;
            }
        }
        if steps >= cfg.max_steps {
            if main_done_at.is_none() {
                end = End::StepLimit;
            }
            break;
        }
        match sched.step() {
            StepResult::Polled => {
                if let Some(f) = cfg.on_step.as_mut() {
                    f(&state, steps);
                }
            }
            StepResult::Stalled => {
                let mut st = state.borrow_mut();
                if let Some(t) = st.scheduled_wakers.next_wake_time() {
                    st.advance_time(t);
                    continue;
                }
                drop(st);
                if cfg.tick_on_stall && stall_ticks < 64 && main_done_at.is_none() {
                    if let Some(f) = cfg.on_step.as_mut() {
                        stall_ticks += 1;
                        f(&state, steps + 1);
                        continue;
                    }
                }
                if main_done_at.is_none() {
                    end = End::Deadlock;
                }
                break;
            }
        }
    }
    yash_env::verif_hooks::set_callback(None);

    let (status, zombies, alive, stdout, stderr) = {
        let st = state.borrow();
        let status = st.processes[&shell_pid].state();
        let mut zombies = Vec::new();
        let mut alive = Vec::new();
        for (pid, p) in st.processes.iter() {
            if p.ppid() == shell_pid {
                if p.state().is_alive() {
                    alive.push(pid.0);
                } else if p.state_has_changed() {
                    zombies.push(pid.0);
                }
            }
        }
        (
            status,
            zombies,
            alive,
            read_file(&st, "/dev/stdout").unwrap_or_default(),
            read_file(&st, "/dev/stderr").unwrap_or_default(),
        )
    };
    let (steps, choices, preempts, preempt_offers, trace_hash, spawned) = {
        let i = sched.inner.borrow();
        let mut bytes = Vec::with_capacity(i.trace.len() * 4);
        for t in &i.trace {
            bytes.extend_from_slice(&t.to_le_bytes());
        }
        (
            i.steps,
            i.choices.clone(),
            i.preempts,
            i.preempt_offers,
            fnv(&bytes),
            i.spawned,
        )
    };
    sched.clear();
    VSTATE.with(|s| *s.borrow_mut() = None);
    let events = EVENTS.with(|v| std::mem::take(&mut *v.borrow_mut()));
    let keep = cfg.keep_state;
    if !keep {
        state.borrow_mut().executor = None;
    }
    VOut {
        end,
        status,
        stdout,
        stderr,
        events,
        steps,
        choices,
        preempts,
        preempt_offers,
        trace_hash,
        spawned,
        zombies,
        alive,
        state: keep.then_some(state),
    }
}

/// yield to the scheduler once
struct YieldNow(bool);
impl Future for YieldNow {
    type Output = ();
    fn poll(mut self: Pin<&mut Self>, cx: &mut std::task::Context<'_>) -> std::task::Poll<()> {
        if self.0 {
            std::task::Poll::Ready(())
        } else {
            self.0 = true;
            cx.waker().wake_by_ref();
            std::task::Poll::Pending
        }
    }
}

// ------------------------------------------------------------------ probe built-ins

fn status_of<S>(env: &Env<S>) -> i32 {
    env.exit_status.0
}

fn pid_of<S: yash_env::system::GetPid>(env: &Env<S>) -> i32 {
    env.system.getpid().0
}

/// `probe [-s N] args...` : log the argument vector verbatim; exit status N (default 0).
fn probe_main<S: yash_env::system::GetPid>(
    env: &mut Env<S>,
    args: Vec<Field>,
) -> Pin<Box<dyn Future<Output = yash_env::builtin::Result> + '_>> {
    let mut vals: Vec<String> = args.into_iter().map(|f| f.value).collect();
    let mut st = 0;
    if vals.len() >= 2 && vals[0] == "-s" {
        st = vals[1].parse().unwrap_or(0);
        vals.drain(0..2);
    }
    // a command must find its standard input in blocking mode (the shell reads its script through
    // a non-blocking descriptor only while it reads): observed in the virtual kernel
    let pid = pid_of(env);
    let nonblocking = VSTATE.with(|s| {
        s.borrow().as_ref().is_some_and(|state| {
            state.try_borrow().ok().is_some_and(|st| {
                st.processes
                    .get(&Pid(pid))
                    .and_then(|p| p.get_fd(Fd::STDIN))
                    .is_some_and(|b| b.open_file_description.try_borrow().map(|o| o.is_nonblocking()).unwrap_or(false))
            })
        })
    });
    if nonblocking {
        push_event(Event {
            pid,
            kind: "stdin-nonblocking",
            args: vals.clone(),
            status: 0,
        });
    }
    push_event(Event {
        pid,
        kind: "probe",
        args: vals,
        status: status_of(env),
    });
    Box::pin(std::future::ready(yash_env::builtin::Result::new(ExitStatus(st))))
}

/// `echo args...` : write the arguments joined by one space and a newline to fd 1.
fn echo_main<S>(
    env: &mut Env<S>,
    args: Vec<Field>,
) -> Pin<Box<dyn Future<Output = yash_env::builtin::Result> + '_>>
where
    S: yash_env::system::concurrency::WriteAll + yash_env::system::Isatty,
{
    Box::pin(async move {
        let s = args
            .iter()
            .map(|f| f.value.as_str())
            .collect::<Vec<_>>()
            .join(" ")
            + "\n";
        match env.system.write_all(Fd::STDOUT, s.as_bytes()).await {
            Ok(_) => yash_env::builtin::Result::new(ExitStatus::SUCCESS),
            Err(_) => yash_env::builtin::Result::new(ExitStatus::FAILURE),
        }
    })
}

/// `pvar kID NAME` : log the value of a variable as seen when the command runs
/// ("UNSET" if it has no value) and whether it is exported; exit status 0.
fn pvar_main<S: yash_env::system::GetPid>(
    env: &mut Env<S>,
    args: Vec<Field>,
) -> Pin<Box<dyn Future<Output = yash_env::builtin::Result> + '_>> {
    let id = args.first().map(|f| f.value.clone()).unwrap_or_default();
    let name = args.get(1).map(|f| f.value.clone()).unwrap_or_default();
    let (val, exported) = match env.variables.get(&name) {
        Some(v) => (
            match &v.value {
                Some(yash_env::variable::Value::Scalar(s)) => s.clone(),
                Some(yash_env::variable::Value::Array(a)) => a.join(" "),
                None => "UNSET".to_string(),
            },
            v.is_exported,
        ),
        None => ("UNSET".to_string(), false),
    };
    push_event(Event {
        pid: pid_of(env),
        kind: "probe",
        args: vec![id, val, if exported { "exported".into() } else { "-".into() }],
        status: status_of(env),
    });
    Box::pin(std::future::ready(yash_env::builtin::Result::new(ExitStatus(0))))
}

/// The deterministic byte stream of `gen N SEED [K]`: printable bytes, a newline after every K-th
/// byte if K > 0.
/// `blanks` white-space bytes (space, tab, CR, VT, FF in turn) come between the body and the
/// `trailing` newlines
pub fn gen_stream(n: usize, seed: u64, k: usize, trailing: usize, blanks: usize) -> Vec<u8> {
    let mut v = gen_body(n, seed, k);
    v.extend((0..blanks).map(|i| b" \t\r\x0b\x0c"[(i + seed as usize) % 5]));
    v.extend(std::iter::repeat_n(b'\n', trailing));
    v
}

fn gen_body(n: usize, seed: u64, k: usize) -> Vec<u8> {
    (0..n)
        .map(|i| {
            if k > 0 && i % k == k - 1 {
                b'\n'
            } else {
                33 + (((i as u64).wrapping_mul(7).wrapping_add(seed.wrapping_mul(13)).wrapping_add((i as u64 / 89) * 5)) % 90) as u8
            }
        })
        .collect()
}

/// `gen N SEED [K [T]]` : write the stream (T extra trailing newlines) to standard output; status 0, or 1 if the write failed.
fn gen_main<S>(
    env: &mut Env<S>,
    args: Vec<Field>,
) -> Pin<Box<dyn Future<Output = yash_env::builtin::Result> + '_>>
where
    S: yash_env::system::concurrency::WriteAll,
{
    Box::pin(async move {
        let n: usize = args.first().and_then(|f| f.value.parse().ok()).unwrap_or(0);
        let seed: u64 = args.get(1).and_then(|f| f.value.parse().ok()).unwrap_or(0);
        let k: usize = args.get(2).and_then(|f| f.value.parse().ok()).unwrap_or(0);
        let t: usize = args.get(3).and_then(|f| f.value.parse().ok()).unwrap_or(0);
        let w: usize = args.get(4).and_then(|f| f.value.parse().ok()).unwrap_or(0);
        let data = gen_stream(n, seed, k, t, w);
        match env.system.write_all(Fd::STDOUT, &data).await {
            Ok(()) => yash_env::builtin::Result::new(ExitStatus::SUCCESS),
            Err(_) => yash_env::builtin::Result::new(ExitStatus::FAILURE),
        }
    })
}

/// `sink TAG` : read standard input to the end; log [TAG, length, fnv hash].
fn sink_main<S>(
    env: &mut Env<S>,
    args: Vec<Field>,
) -> Pin<Box<dyn Future<Output = yash_env::builtin::Result> + '_>>
where
    S: yash_env::system::concurrency::ReadAll + yash_env::system::GetPid,
{
    Box::pin(async move {
        let tag = args.first().map(|f| f.value.clone()).unwrap_or_default();
        let st = status_of(env);
        let r = env.system.read_all(Fd::STDIN).await;
        let (len, hash, ok) = match &r {
            Ok(d) => (d.len(), crate::util::fnv(d), true),
            Err(_) => (0, 0, false),
        };
        push_event(Event {
            pid: pid_of(env),
            kind: "probe",
            args: vec![tag, len.to_string(), format!("{hash:016x}"), if ok { "ok".into() } else { "read-error".into() }],
            status: st,
        });
        yash_env::builtin::Result::new(if ok { ExitStatus::SUCCESS } else { ExitStatus::FAILURE })
    })
}

/// `tally TAG` : read standard input to the end, report `@TAG <length> <hash> ok|read-error` on
/// standard error (usable on the real system, where the event log of a child process is lost).
fn tally_main<S>(
    env: &mut Env<S>,
    args: Vec<Field>,
) -> Pin<Box<dyn Future<Output = yash_env::builtin::Result> + '_>>
where
    S: yash_env::system::concurrency::ReadAll + yash_env::system::concurrency::WriteAll,
{
    Box::pin(async move {
        let tag = args.first().map(|f| f.value.clone()).unwrap_or_default();
        let r = env.system.read_all(Fd::STDIN).await;
        let line = match &r {
            Ok(d) => format!("@{tag} {} {:016x} ok\n", d.len(), crate::util::fnv(d)),
            Err(e) => format!("@{tag} 0 0 read-error:{e:?}\n"),
        };
        let _ = env.system.write_all(Fd::STDERR, line.as_bytes()).await;
        yash_env::builtin::Result::new(if r.is_ok() { ExitStatus::SUCCESS } else { ExitStatus::FAILURE })
    })
}

/// `nbfd TAG` : report `@TAG fd:b|n ...` on standard error - which of the descriptors 0-9 of this
/// (real) process are open on a description in non-blocking mode.
fn nbfd_main<S>(
    env: &mut Env<S>,
    args: Vec<Field>,
) -> Pin<Box<dyn Future<Output = yash_env::builtin::Result> + '_>>
where
    S: yash_env::system::concurrency::WriteAll,
{
    Box::pin(async move {
        let tag = args.first().map(|f| f.value.clone()).unwrap_or_default();
        let mut v = Vec::new();
        for fd in 0..10 {
            // SAFETY: F_GETFL only queries the descriptor
            let fl = unsafe { libc::fcntl(fd, libc::F_GETFL) };
            if fl != -1 {
                v.push(format!("{fd}:{}", if fl & libc::O_NONBLOCK != 0 { "n" } else { "b" }));
            }
        }
        let line = format!("@{tag} {}\n", v.join(" "));
        let _ = env.system.write_all(Fd::STDERR, line.as_bytes()).await;
        yash_env::builtin::Result::new(ExitStatus::SUCCESS)
    })
}

/// `relay` : copy standard input to standard output with `read`/`write` calls of odd sizes.
fn relay_main<S>(
    env: &mut Env<S>,
    _args: Vec<Field>,
) -> Pin<Box<dyn Future<Output = yash_env::builtin::Result> + '_>>
where
    S: yash_env::system::Read + yash_env::system::concurrency::WriteAll,
{
    Box::pin(async move {
        let mut buf = [0u8; 37];
        loop {
            match env.system.read(Fd::STDIN, &mut buf).await {
                Ok(0) => return yash_env::builtin::Result::new(ExitStatus::SUCCESS),
                Ok(n) => {
                    if env.system.write_all(Fd::STDOUT, &buf[..n]).await.is_err() {
                        return yash_env::builtin::Result::new(ExitStatus::FAILURE);
                    }
                }
                Err(_) => return yash_env::builtin::Result::new(ExitStatus::FAILURE),
            }
        }
    })
}

/// `pos kID FD` : log the current file offset of a descriptor.
fn pos_main<S>(
    env: &mut Env<S>,
    args: Vec<Field>,
) -> Pin<Box<dyn Future<Output = yash_env::builtin::Result> + '_>>
where
    S: yash_env::system::Seek + yash_env::system::GetPid,
{
    let id = args.first().map(|f| f.value.clone()).unwrap_or_default();
    let fd: i32 = args.get(1).and_then(|f| f.value.parse().ok()).unwrap_or(0);
    let st = status_of(env);
    let off = match env.system.lseek(Fd(fd), std::io::SeekFrom::Current(0)) {
        Ok(o) => o.to_string(),
        Err(e) => format!("error:{e:?}"),
    };
    push_event(Event {
        pid: pid_of(env),
        kind: "probe",
        args: vec![id, off],
        status: st,
    });
    Box::pin(std::future::ready(yash_env::builtin::Result::new(ExitStatus(st))))
}

/// `off FD` : print the current file offset of a descriptor on standard output (for the R/V
/// differential, where events of the real-system run are not visible to the parent)
fn off_main<S>(
    env: &mut Env<S>,
    args: Vec<Field>,
) -> Pin<Box<dyn Future<Output = yash_env::builtin::Result> + '_>>
where
    S: yash_env::system::Seek + yash_env::system::concurrency::WriteAll,
{
    Box::pin(async move {
        let fd: i32 = args.first().and_then(|f| f.value.parse().ok()).unwrap_or(0);
        let off = match env.system.lseek(Fd(fd), std::io::SeekFrom::Current(0)) {
            Ok(o) => o.to_string(),
            Err(e) => format!("error:{e:?}"),
        };
        let s = format!("off{fd}={off}\n");
        match env.system.write_all(Fd::STDOUT, s.as_bytes()).await {
            Ok(_) => yash_env::builtin::Result::new(ExitStatus::SUCCESS),
            Err(_) => yash_env::builtin::Result::new(ExitStatus::FAILURE),
        }
    })
}

/// `lsfd TAG` : print the descriptors open in this (real) process, from /proc/self/fd. Only
/// meaningful on the real system, where the shell is the whole process.
fn lsfd_main<S>(
    env: &mut Env<S>,
    args: Vec<Field>,
) -> Pin<Box<dyn Future<Output = yash_env::builtin::Result> + '_>>
where
    S: yash_env::system::concurrency::WriteAll,
{
    Box::pin(async move {
        let tag = args.first().map(|f| f.value.clone()).unwrap_or_default();
        let mut fds: Vec<i32> = std::fs::read_dir("/proc/self/fd")
            .map(|rd| rd.flatten().filter_map(|e| e.file_name().to_str().and_then(|s| s.parse().ok())).collect())
            .unwrap_or_default();
        // (the descriptor read_dir itself used is closed by now)
        // SAFETY: F_GETFD only queries the descriptor
        fds.retain(|fd| unsafe { libc::fcntl(*fd, libc::F_GETFD) } != -1);
        fds.sort();
        let s = format!("{tag}: {}\n", fds.iter().map(|f| f.to_string()).collect::<Vec<_>>().join(" "));
        match env.system.write_all(Fd::STDOUT, s.as_bytes()).await {
            Ok(_) => yash_env::builtin::Result::new(ExitStatus::SUCCESS),
            Err(_) => yash_env::builtin::Result::new(ExitStatus::FAILURE),
        }
    })
}

/// `ret N` : return N, no other effect.
fn ret_main<S>(
    _env: &mut Env<S>,
    args: Vec<Field>,
) -> Pin<Box<dyn Future<Output = yash_env::builtin::Result> + '_>> {
    let st = args.first().and_then(|f| f.value.parse().ok()).unwrap_or(0);
    Box::pin(std::future::ready(yash_env::builtin::Result::new(ExitStatus(st))))
}

/// `snap TAG` : deep snapshot of the shell state into the event log (V only).
fn snap_main(
    env: &mut Env<VS>,
    args: Vec<Field>,
) -> Pin<Box<dyn Future<Output = yash_env::builtin::Result> + '_>> {
    let tag = args.first().map(|f| f.value.clone()).unwrap_or_default();
    let st = status_of(env);
    let snap = snapshot(env);
    let mut a = vec![tag];
    for (k, v) in snap {
        a.push(format!("{k}={v}"));
    }
    push_event(Event {
        pid: pid_of(env),
        kind: "snap",
        args: a,
        status: st,
    });
    // does not change $?
    Box::pin(std::future::ready(yash_env::builtin::Result::new(ExitStatus(st))))
}

/// `fds TAG` : fd table only (V only).
fn fds_main(
    env: &mut Env<VS>,
    args: Vec<Field>,
) -> Pin<Box<dyn Future<Output = yash_env::builtin::Result> + '_>> {
    let tag = args.first().map(|f| f.value.clone()).unwrap_or_default();
    let st = status_of(env);
    let pid = env.system.getpid_v();
    push_event(Event {
        pid: pid.0,
        kind: "fds",
        args: vec![tag, fd_table(pid)],
        status: st,
    });
    Box::pin(std::future::ready(yash_env::builtin::Result::new(ExitStatus(st))))
}

trait GetPidV {
    fn getpid_v(&self) -> Pid;
}
impl GetPidV for VS {
    fn getpid_v(&self) -> Pid {
        use yash_env::system::GetPid as _;
        self.getpid()
    }
}

/// Canonical description of the fd table of a virtual process:
/// `fd:ofd#<identity>:<r|w|rw>[a]:<cloexec?>:<inode#identity>:off` sorted by fd.
/// OFD / inode identities are numbered in order of first appearance *per snapshot family*
/// via a stable pointer → small-id map kept for the duration of the run.
pub fn fd_table(pid: Pid) -> String {
    thread_local! {
        static IDS: RefCell<(usize, BTreeMap<usize, usize>)> = const { RefCell::new((0, BTreeMap::new())) };
    }
    VSTATE.with(|s| {
        let s = s.borrow();
        let Some(state) = s.as_ref() else {
            return String::new();
        };
        let st = state.borrow();
        let Some(p) = st.processes.get(&pid) else {
            return String::new();
        };
        let mut out = Vec::new();
        for (fd, body) in p.fds() {
            let ofd_ptr = Rc::as_ptr(&body.open_file_description) as *const u8 as usize;
            let ofd = body.open_file_description.borrow();
            let ino_ptr = Rc::as_ptr(ofd.inode()) as *const u8 as usize;
            let acc = match (ofd.is_readable(), ofd.is_writable()) {
                (true, true) => "rw",
                (true, false) => "r",
                (false, true) => "w",
                _ => "-",
            };
            let cloexec = !body.flags.is_empty();
            out.push(format!(
                "{}:o{:x}:{}:{}:i{:x}",
                fd.0,
                ofd_ptr,
                acc,
                if cloexec { "x" } else { "-" },
                ino_ptr
            ));
        }
        let _ = IDS;
        out.join(" ")
    })
}

pub fn reset_fd_ids() {}

/// The descriptors of a virtual process whose open file description is in non-blocking mode.
pub fn nonblocking_fds(pid: Pid) -> String {
    VSTATE.with(|s| {
        let s = s.borrow();
        let Some(state) = s.as_ref() else {
            return String::new();
        };
        let st = state.borrow();
        let Some(p) = st.processes.get(&pid) else {
            return String::new();
        };
        let v: Vec<String> = p
            .fds()
            .iter()
            .filter(|(_, b)| b.open_file_description.borrow().is_nonblocking())
            .map(|(fd, _)| fd.0.to_string())
            .collect();
        v.join(",")
    })
}

/// Deep snapshot of the observable shell state, one canonical string per facet.
pub fn snapshot(env: &mut Env<VS>) -> BTreeMap<String, String> {
    use yash_env::system::GetPid as _;
    let mut m = BTreeMap::new();
    // variables (all, with attributes); skip volatile noise: LINENO changes by itself
    let mut vars: Vec<String> = Vec::new();
    for (name, var) in env.variables.iter(Scope::Global) {
        if name == "LINENO" {
            continue;
        }
        vars.push(format!(
            "{}={:?}{}{}",
            name,
            var.value,
            if var.is_exported { " x" } else { "" },
            if var.read_only_location.is_some() { " ro" } else { "" }
        ));
    }
    vars.sort();
    m.insert("vars".into(), vars.join("\u{1}"));
    m.insert(
        "positional".into(),
        format!("{:?}", env.variables.positional_params().values),
    );
    let mut funcs: Vec<String> = env
        .functions
        .iter()
        .map(|f| {
            // (the syntax tree itself, locations erased: independent of how the body prints)
            format!(
                "{}(){{{}}}{}",
                f.name,
                crate::checks::c06::scrub(&format!("{:?}", f.body)),
                if f.read_only_location.is_some() { " ro" } else { "" }
            )
        })
        .collect();
    funcs.sort();
    m.insert("functions".into(), funcs.join("\u{1}"));
    let mut aliases: Vec<String> = env
        .aliases
        .iter()
        .map(|a| format!("{}={}{}", a.0.name, a.0.replacement, if a.0.global { " g" } else { "" }))
        .collect();
    aliases.sort();
    m.insert("aliases".into(), aliases.join("\u{1}"));
    let opts: Vec<String> = yash_env::option::Option::iter()
        .map(|o| format!("{}={:?}", o, env.options.get(o)))
        .collect();
    m.insert("options".into(), opts.join(","));
    let traps: Vec<String> = env
        .traps
        .iter()
        .map(|(c, cur, _parent)| format!("{:?}:{:?}", c, cur.action))
        .filter(|s| !s.ends_with(":Default"))
        .collect();
    m.insert("traps".into(), traps.join("\u{1}"));
    m.insert(
        "cwd".into(),
        format!("{:?}", env.system.getcwd().map(|p| p.to_string_lossy().into_owned())),
    );
    let mask = env.system.umask(Mode::empty());
    env.system.umask(mask);
    m.insert("umask".into(), format!("{:o}", mask.bits()));
    m.insert("fds".into(), fd_table(env.system.getpid()));
    m.insert("fd_modes".into(), nonblocking_fds(env.system.getpid()));
    // signal dispositions and mask as the kernel holds them
    let pid = env.system.getpid();
    VSTATE.with(|s| {
        if let Some(state) = s.borrow().as_ref() {
            let st = state.borrow();
            if let Some(p) = st.processes.get(&pid) {
                let mut d = Vec::new();
                for n in 1..130u32 {
                    if let Ok(num) = i32::try_from(n)
                        .ok()
                        .and_then(|n| std::num::NonZero::new(n))
                        .ok_or(())
                    {
                        let num = yash_env::signal::Number::from_raw_unchecked(num);
                        let disp = p.disposition(num);
                        if disp != yash_env::system::Disposition::Default {
                            d.push(format!("{n}:{disp:?}"));
                        }
                    }
                }
                m.insert("dispositions".into(), d.join(","));
                // descriptors open on the controlling terminal device
                if let Ok(tty) = st.file_system.get("/dev/tty") {
                    let on_tty: Vec<String> = p
                        .fds()
                        .iter()
                        .filter(|(_, b)| Rc::ptr_eq(b.open_file_description.borrow().inode(), &tty))
                        .map(|(fd, _)| fd.0.to_string())
                        .collect();
                    m.insert("tty_fds".into(), on_tty.join(","));
                }
                m.insert("sigmask".into(), format!("{:?}", p.blocked_signals()));
                // the terminal's foreground process group and the group of this process
                m.insert("term".into(), format!("fg={:?} pgid={:?} pid={:?}", st.foreground.map(|p| p.0), p.pgid().0, pid.0));
            }
        }
    });
    m
}

/// `sig NAME` : raise a signal at the current process "from outside" (kernel-style), V only.
fn sig_main(
    env: &mut Env<VS>,
    args: Vec<Field>,
) -> Pin<Box<dyn Future<Output = yash_env::builtin::Result> + '_>> {
    use yash_env::system::{GetPid as _, Signals as _};
    use yash_env::system::SendSignal as _;
    let st = status_of(env);
    let num = args
        .first()
        .and_then(|n| n.value.parse::<yash_env::signal::Name>().ok())
        .and_then(|n| env.system.signal_number_from_name(n));
    // the process signals itself through the kernel interface: the parent is notified of a stop
    // and the process does not run on until it is continued
    Box::pin(async move {
        if let Some(num) = num {
            let _ = env.system.raise(num).await;
        }
        yash_env::builtin::Result::new(ExitStatus(st))
    })
}

pub fn generic_probes<S>() -> ExtraBuiltins<S>
where
    S: yash_env::system::GetPid
        + yash_env::system::concurrency::WriteAll
        + yash_env::system::concurrency::ReadAll
        + yash_env::system::Read
        + yash_env::system::Seek
        + yash_env::system::Isatty
        + 'static,
{
    vec![
        ("probe", Builtin::new(Type::Mandatory, probe_main::<S>)),
        ("echo", Builtin::new(Type::Mandatory, echo_main::<S>)),
        ("ret", Builtin::new(Type::Mandatory, ret_main::<S>)),
        ("pvar", Builtin::new(Type::Mandatory, pvar_main::<S>)),
        ("gen", Builtin::new(Type::Mandatory, gen_main::<S>)),
        ("sink", Builtin::new(Type::Mandatory, sink_main::<S>)),
        ("relay", Builtin::new(Type::Mandatory, relay_main::<S>)),
        ("pos", Builtin::new(Type::Mandatory, pos_main::<S>)),
        ("off", Builtin::new(Type::Mandatory, off_main::<S>)),
        ("lsfd", Builtin::new(Type::Mandatory, lsfd_main::<S>)),
        ("tally", Builtin::new(Type::Mandatory, tally_main::<S>)),
        ("nbfd", Builtin::new(Type::Mandatory, nbfd_main::<S>)),
    ]
}

pub fn v_probes() -> ExtraBuiltins<VS> {
    let mut v = generic_probes::<VS>();
    v.push(("snap", Builtin::new(Type::Mandatory, snap_main)));
    v.push(("fds", Builtin::new(Type::Mandatory, fds_main)));
    v.push(("sig", Builtin::new(Type::Mandatory, sig_main)));
    v
}

/// Convenience: run a `-c` script on V with probes under a strategy.
pub fn run_script(script: &str, strategy: Strategy) -> VOut {
    let mut cfg = VCfg::script(script);
    cfg.strategy = strategy;
    cfg.extra = v_probes();
    run_v(cfg)
}
