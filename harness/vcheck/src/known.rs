//! known_findings.json reader (tiny hand-written parser for the fixed format we write by hand).
//!
//! Format: a JSON array of objects {"status":"known"|"fixed","property":"Cxx","signature":"...","what":"..."}.
//! Only entries with status "known" suppress; "fixed" entries suppress nothing.

pub struct Known {
    pub property: String,
    pub signature: String,
    pub what: String,
}

impl Known {
    pub fn matches(&self, prop: &str, sig: &str) -> bool {
        self.property == prop && self.signature == sig
    }
}

fn field(obj: &str, key: &str) -> Option<String> {
    let pat = format!("\"{key}\"");
    let i = obj.find(&pat)? + pat.len();
    let rest = &obj[i..];
    let q = rest.find('"')? + 1;
    let mut out = String::new();
    let mut chars = rest[q..].chars();
    while let Some(c) = chars.next() {
        match c {
            '\\' => match chars.next()? {
                'n' => out.push('\n'),
                't' => out.push('\t'),
                c => out.push(c),
            },
            '"' => return Some(out),
            c => out.push(c),
        }
    }
    None
}

pub fn load() -> Vec<Known> {
    let dir = std::env::var("VERIF_DIR").unwrap_or_else(|_| "/verif".into());
    let Ok(text) = std::fs::read_to_string(format!("{dir}/known_findings.json")) else {
        return Vec::new();
    };
    let mut out = Vec::new();
    let mut depth = 0;
    let mut start = 0;
    let mut in_str = false;
    let mut esc = false;
    for (i, c) in text.char_indices() {
        if in_str {
            if esc {
                esc = false;
            } else if c == '\\' {
                esc = true;
            } else if c == '"' {
                in_str = false;
            }
            continue;
        }
        match c {
            '"' => in_str = true,
            '{' => {
                if depth == 0 {
                    start = i;
                }
                depth += 1;
            }
            '}' => {
                depth -= 1;
                if depth == 0 {
                    let obj = &text[start..=i];
                    if field(obj, "status").as_deref() == Some("known") {
                        if let (Some(p), Some(s)) = (field(obj, "property"), field(obj, "signature")) {
                            out.push(Known {
                                property: p,
                                signature: s,
                                what: field(obj, "what").unwrap_or_default(),
                            });
                        }
                    }
                }
            }
            _ => {}
        }
    }
    out
}
